SPECIFICATION Spec
CONSTANTS
  Progs <- ThoroughProgs
  Cbs = {TRUE, FALSE}
  Reenters = {0, 1, 2}
  Lockeds = {TRUE}
  Timeouts = TRUE
  CbThrows = {FALSE}
  ClearOutsideLock = TRUE
  SoleOwnerOnly = TRUE
VIEW View
INVARIANTS TypeOK DestroyedOnce NeverWhileOwned UserCodeOutsideLock CallbackFirst NoDeadlock NoLossNoDup EndState
CHECK_DEADLOCK FALSE

SPECIFICATION FairSpec
CONSTANTS
  Progs <- QuickProgs
  MaxV = 3
  CopyThrows = {0}
  CopyUnderMutex = TRUE
  CancelUnlocks = TRUE
VIEW View
PROPERTY Termination
CHECK_DEADLOCK FALSE

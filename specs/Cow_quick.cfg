SPECIFICATION Spec
CONSTANTS
  Progs <- QuickProgs
  MaxV = 3
  CopyThrows = {0}
  CopyUnderMutex = TRUE
  CancelUnlocks = TRUE
VIEW View
INVARIANTS TypeOK SnapshotValid NoTornSnapshot WriterSerial NoLostCommit RefsOK CleanEnd ReaderWaitFree NoDeadlock
PROPERTY SnapshotImmutable
CHECK_DEADLOCK FALSE

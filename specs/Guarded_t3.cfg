SPECIFICATION Spec
CONSTANTS
  Progs <- Guarded4
  Shareds = {FALSE}
  Enableds = {TRUE}
  LoadShareds = {FALSE}
  MaxThrows = 0
  StoreLocked = TRUE
  ReadLocked = TRUE
  TryHonest = TRUE
VIEW View
INVARIANTS TypeOK Exclusive NoTornRead HandleTruth ReleaseOnce NoLeakedLock NoDeadlock TryNeverBlocks DisabledNeverWaits SharedNotBlockedByReaders NoLostUpdate 
CHECK_DEADLOCK FALSE

SPECIFICATION Spec
CONSTANTS
  Progs <- OrderedProgs
  Shareds = {TRUE, FALSE}
  Enableds = {TRUE}
  LoadShareds = {TRUE}
  MaxThrows = 0
  StoreLocked = TRUE
  ReadLocked = TRUE
  TryHonest = TRUE
VIEW View
INVARIANTS TypeOK Exclusive NoTornRead HandleTruth ReleaseOnce NoLeakedLock NoDeadlock TryNeverBlocks DisabledNeverWaits SharedNotBlockedByReaders NoLostUpdate 
CHECK_DEADLOCK FALSE

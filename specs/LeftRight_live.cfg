SPECIFICATION FairSpec
CONSTANTS
  Progs <- LiveProgs
  MaxThrows = 0
  Drain1 = TRUE
  Drain2 = TRUE
  RegisterFirst = TRUE
  WriterMutex = TRUE
VIEW View
PROPERTY WritersFinish ReadersFinish
CHECK_DEADLOCK FALSE

SPECIFICATION Spec
CONSTANTS
  Progs <- ConfProgs
  Cbs = {TRUE}
  Reenters = {0, 1, 2}
  Lockeds = {TRUE}
  Timeouts = TRUE
  CbThrows = {FALSE}
  ClearOutsideLock = TRUE
  SoleOwnerOnly = TRUE

INVARIANTS TypeOK DestroyedOnce NeverWhileOwned UserCodeOutsideLock CallbackFirst NoDeadlock NoLossNoDup EndState
CHECK_DEADLOCK FALSE

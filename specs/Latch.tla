------------------------------- MODULE Latch -------------------------------
(***************************************************************************)
(* gmlc::concurrency::Latch (gmlc/concurrency/Latch.hpp) at the grain of    *)
(* its synchronisation-visible steps.  One action = one step of the real    *)
(* code under the substitution layer = one event (variable ev).             *)
(*                                                                         *)
(*   arrive():  lock mtx; --counter_ (RMW); load counter_; [== 0: notify_all]; unlock *)
(*   wait():    load counter_ (unlocked fast path); [> 0:] lock;            *)
(*              while (load counter_ > 0) cv.wait  (= release+park, wake, relock); unlock *)
(*   arrive_and_wait(): arrive(); wait();                                   *)
(***************************************************************************)
EXTENDS Naturals, Integers, Sequences, FiniteSets, TLC

CONSTANTS Counts,        \* set of initial counter values explored by Init
          Progs,         \* set of programs: Seq (thread) of Seq (position) of Seq (menu) of op codes 0..2
          Spurious,      \* spurious wake-ups possible
          ArriveLocked,  \* knob: TRUE = arrive() takes the mutex (code as read)
          WaitLoops,     \* knob: TRUE = wait() re-checks the counter in a loop (code as read)
          NotifyAll      \* knob: TRUE = notify_all (code as read); FALSE = notify_one

VARIABLES count0, prog,   \* configuration of this execution (never change)
          counter, mtx,   \* counter_; mutex owner (0 = free)
          cvs,            \* per thread: 0 not waiting, 1 in the wait set, 2 notified
          pc, opi, op,    \* control state, position in the program, current operation
          decs, called,   \* ghosts: decrements performed; arrive-type calls begun
          ev              \* last event

vars == <<count0, prog, counter, mtx, cvs, pc, opi, op, decs, called, ev>>
View == <<count0, prog, counter, mtx, cvs, pc, opi, op, decs, called>>

OpName == <<"arrive", "wait", "arrive_and_wait">>
Threads == 1..Len(prog)
NoEv == [t |-> 0, k |-> "init", o |-> "", v |-> 0, w |-> 0]
E(t, k, o, v, w) == [t |-> t, k |-> k, o |-> o, v |-> v, w |-> w]

Init0(c, p) == [count0 |-> c, prog |-> p, counter |-> c, mtx |-> 0,
                cvs |-> [t \in 1..Len(p) |-> 0], pc |-> [t \in 1..Len(p) |-> "idle"],
                opi |-> [t \in 1..Len(p) |-> 1], op |-> [t \in 1..Len(p) |-> 0],
                decs |-> 0, called |-> 0, ev |-> NoEv]
InitWith(c, p) == LET s == Init0(c, p) IN
    /\ count0 = s.count0 /\ prog = s.prog /\ counter = s.counter /\ mtx = s.mtx /\ cvs = s.cvs
    /\ pc = s.pc /\ opi = s.opi /\ op = s.op /\ decs = s.decs /\ called = s.called /\ ev = s.ev
ResetTo(c, p) == LET s == Init0(c, p) IN
    /\ count0' = s.count0 /\ prog' = s.prog /\ counter' = s.counter /\ mtx' = s.mtx /\ cvs' = s.cvs
    /\ pc' = s.pc /\ opi' = s.opi /\ op' = s.op /\ decs' = s.decs /\ called' = s.called /\ ev' = s.ev

Init == \E c \in Counts, p \in Progs : InitWith(c, p)

Goto(t, l) == pc' = [pc EXCEPT ![t] = l]
UC1 == UNCHANGED <<count0, prog>>

Call(t) ==
    /\ pc[t] = "idle" /\ opi[t] <= Len(prog[t])
    /\ \E j \in 1..Len(prog[t][opi[t]]) :
         LET o == prog[t][opi[t]][j] IN
         /\ op' = [op EXCEPT ![t] = o]
         /\ called' = IF o \in {0, 2} THEN called + 1 ELSE called
         /\ Goto(t, IF o = 1 THEN "w_fast" ELSE (IF ArriveLocked THEN "a_lock" ELSE "a_dec"))
         /\ ev' = E(t, "call", OpName[o + 1], 0, 0)
    /\ UNCHANGED <<counter, mtx, cvs, opi, decs>> /\ UC1

ALock(t) ==
    /\ pc[t] = "a_lock" /\ mtx = 0
    /\ mtx' = t /\ Goto(t, "a_dec") /\ ev' = E(t, "mlock", "mtx", 0, 0)
    /\ UNCHANGED <<counter, cvs, opi, op, decs, called>> /\ UC1

ADec(t) ==
    /\ pc[t] = "a_dec"
    /\ counter' = counter - 1 /\ decs' = decs + 1
    /\ Goto(t, "a_test") /\ ev' = E(t, "arm", "counter", counter, counter - 1)
    /\ UNCHANGED <<mtx, cvs, opi, op, called>> /\ UC1

ATest(t) ==
    /\ pc[t] = "a_test"
    /\ Goto(t, IF counter = 0 THEN "a_notify" ELSE (IF ArriveLocked THEN "a_unlock" ELSE "a_end"))
    /\ ev' = E(t, "ald", "counter", counter, 0)
    /\ UNCHANGED <<counter, mtx, cvs, opi, op, decs, called>> /\ UC1

Waiting == {u \in Threads : cvs[u] = 1}
ANotify(t) ==
    /\ pc[t] = "a_notify"
    /\ IF NotifyAll
         THEN /\ cvs' = [u \in Threads |-> IF cvs[u] = 1 THEN 2 ELSE cvs[u]]
              /\ ev' = E(t, "notify", "cv", 1, Cardinality(Waiting))
         ELSE \/ /\ Waiting = {} /\ cvs' = cvs /\ ev' = E(t, "notify", "cv", 0, 0)
              \/ \E u \in Waiting : cvs' = [cvs EXCEPT ![u] = 2] /\ ev' = E(t, "notify", "cv", 0, 1)
    /\ Goto(t, IF ArriveLocked THEN "a_unlock" ELSE "a_end")
    /\ UNCHANGED <<counter, mtx, opi, op, decs, called>> /\ UC1

AUnlock(t) ==
    /\ pc[t] = "a_unlock"
    /\ mtx' = 0 /\ Goto(t, "a_end") /\ ev' = E(t, "munlock", "mtx", 0, 0)
    /\ UNCHANGED <<counter, cvs, opi, op, decs, called>> /\ UC1

\* a_end is not a step of its own: arrive() falls through to ret, arrive_and_wait() to wait()
AfterArrive(t) == IF op[t] = 2 THEN "w_fast" ELSE "ret"

WFast(t) ==
    /\ pc[t] = "w_fast" \/ (pc[t] = "a_end" /\ op[t] = 2)
    /\ Goto(t, IF counter > 0 THEN "w_lock" ELSE "ret")
    /\ ev' = E(t, "ald", "counter", counter, 0)
    /\ UNCHANGED <<counter, mtx, cvs, opi, op, decs, called>> /\ UC1

WLock(t) ==
    /\ pc[t] \in {"w_lock", "w_relock"} /\ mtx = 0
    /\ mtx' = t
    /\ Goto(t, IF pc[t] = "w_relock" /\ ~WaitLoops THEN "w_unlock" ELSE "w_test")
    /\ ev' = E(t, "mlock", "mtx", 0, 0)
    /\ UNCHANGED <<counter, cvs, opi, op, decs, called>> /\ UC1

WTest(t) ==
    /\ pc[t] = "w_test"
    /\ Goto(t, IF counter > 0 THEN "w_cvwait" ELSE "w_unlock")
    /\ ev' = E(t, "ald", "counter", counter, 0)
    /\ UNCHANGED <<counter, mtx, cvs, opi, op, decs, called>> /\ UC1

WCvWait(t) ==
    /\ pc[t] = "w_cvwait"
    /\ mtx' = 0 /\ cvs' = [cvs EXCEPT ![t] = 1] /\ Goto(t, "w_wake")
    /\ ev' = E(t, "cvwait", "cv", 0, 0)
    /\ UNCHANGED <<counter, opi, op, decs, called>> /\ UC1

WWake(t, why) ==
    /\ pc[t] = "w_wake"
    /\ \/ why = 0 /\ cvs[t] = 2
       \/ why = 1 /\ cvs[t] = 1 /\ Spurious
    /\ cvs' = [cvs EXCEPT ![t] = 0] /\ Goto(t, "w_relock")
    /\ ev' = E(t, "cvwake", "cv", why, 0)
    /\ UNCHANGED <<counter, mtx, opi, op, decs, called>> /\ UC1

WUnlock(t) ==
    /\ pc[t] = "w_unlock"
    /\ mtx' = 0 /\ Goto(t, "ret") /\ ev' = E(t, "munlock", "mtx", 0, 0)
    /\ UNCHANGED <<counter, cvs, opi, op, decs, called>> /\ UC1

Ret(t) ==
    /\ pc[t] = "ret" \/ (pc[t] = "a_end" /\ op[t] = 0)
    /\ Goto(t, "idle") /\ opi' = [opi EXCEPT ![t] = opi[t] + 1]
    /\ ev' = E(t, "ret", OpName[op[t] + 1], 0, 0)
    /\ UNCHANGED <<counter, mtx, cvs, op, decs, called>> /\ UC1

\* every step except the spurious wake-up
StepNS(t) == \/ Call(t) \/ ALock(t) \/ ADec(t) \/ ATest(t) \/ ANotify(t) \/ AUnlock(t)
             \/ WFast(t) \/ WLock(t) \/ WTest(t) \/ WCvWait(t) \/ WWake(t, 0) \/ WUnlock(t) \/ Ret(t)
Step(t) == StepNS(t) \/ WWake(t, 1)
Next == \E t \in Threads : Step(t)
Spec == Init /\ [][Next]_vars
FairSpec == Spec /\ \A t \in 1..4 : WF_vars(t \in Threads /\ StepNS(t))

-----------------------------------------------------------------------------
InWaitPart(t)   == pc[t] \in {"w_fast", "w_lock", "w_test", "w_cvwait", "w_wake", "w_relock", "w_unlock"}
                   \/ (pc[t] = "a_end" /\ op[t] = 2)
InArrivePart(t) == pc[t] \in {"a_lock", "a_dec", "a_test", "a_notify", "a_unlock"}
Quiescent == \A t \in Threads : ~ENABLED StepNS(t)

TypeOK == /\ mtx \in 0..Len(prog) /\ counter \in Int
          /\ \A t \in Threads : cvs[t] \in 0..2 /\ op[t] \in 0..2

\* C10 clause 1: a wait returns only after the initial count of arrivals have taken place
OpensOnCount == \A t \in Threads : (pc[t] = "ret" /\ op[t] \in {1, 2}) => decs >= count0

\* C10 clause 2: no lost wake-up - whenever nothing but spurious wake-ups can happen any more and
\* the count has been reached, nobody is still waiting
NoLostWakeup == (Quiescent /\ decs >= count0) => \A t \in Threads : ~InWaitPart(t)

\* C10 clause 3: arrive never waits: it is never parked on the condition variable, and it is never
\* stuck when the system is quiescent (its only blocking step is the mutex, which is always released)
ArriveDoesNotWait == /\ \A t \in Threads : InArrivePart(t) => cvs[t] = 0
                     /\ Quiescent => \A t \in Threads : ~InArrivePart(t)

\* the mutex is never left locked at quiescence
NoLeakedLock == Quiescent => mtx = 0

\* liveness under fairness of every non-spurious step: once the count is reached every operation returns
AllReturn == (decs >= count0) ~> (\A t \in Threads : pc[t] = "idle")
=============================================================================

SPECIFICATION Spec
CONSTANTS
  PredThrows = FALSE
  Progs <- ConfProgs

INVARIANTS TypeOK Linearizable NoDeadlock
CHECK_DEADLOCK FALSE

SPECIFICATION Spec
CONSTANTS
  Progs <- ConfProgs
  SetUnderLock = TRUE

INVARIANTS TypeOK Linearizable NoHang CompletedIsReady NoLeakedLock
PROPERTY SetOnce
CHECK_DEADLOCK FALSE

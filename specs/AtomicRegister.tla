---------------------------- MODULE AtomicRegister ----------------------------
(***************************************************************************)
(* atomic_guarded<T> and the whole-object load / store / operator= of       *)
(* guarded, guarded_opt, ordered_guarded, deferred_guarded: each operation  *)
(* is one critical section (lock_guard; ordered/deferred load through       *)
(* lock_shared) around two-step accesses of the two-word value:             *)
(*   load:   read window (copy out)                                        *)
(*   store / operator=: write window                                       *)
(*   exchange: swap = read window (old value out) + write window            *)
(*   compare_exchange: read window (==), then write window (assign) or a    *)
(*                     second read window (expected = current)              *)
(* Operation code = kind*100 + a*10 + b; kinds 0 load 1 store 2 assign      *)
(* 3 exchange 4 compare_exchange(a, b).                                     *)
(***************************************************************************)
EXTENDS RegSeq, TLC
CONSTANTS Progs, Wraps,     \* wrapper kinds: 0 atomic_guarded 1 guarded 2 guarded_opt 3 ordered_guarded 4 deferred_guarded
          Shareds,
          ExchangeReturnsOld,   \* knob: exchange returns the value it replaced (code as read)
          CasReportsCurrent     \* knob: a failed compare_exchange stores the current value into expected (code as read)
VARIABLES prog, cfg, reg, mx, th, lin, ev
vars == <<prog, cfg, reg, mx, th, lin, ev>>
View == <<prog, cfg, reg, mx, th, lin>>
L == INSTANCE SeqLin
KindName == <<"load", "store", "assign", "exchange", "cas">>
Dig == <<"0", "1", "2", "3", "4", "5", "6", "7", "8", "9">>
OpName(c) == KindName[(c \div 100) + 1] \o Dig[((c \div 10) % 10) + 1] \o Dig[(c % 10) + 1]
Op(c) == [n |-> KindName[(c \div 100) + 1], a |-> (c \div 10) % 10, b |-> c % 10]
NoOp == [n |-> "none", a |-> 0, b |-> 0]
Threads == 1..Len(prog)
NoEv == [t |-> 0, k |-> "init", o |-> "", i |-> 0, v |-> 0, w |-> 0]
E(t, k, o, i, v, w) == [t |-> t, k |-> k, o |-> o, i |-> i, v |-> v, w |-> w]
Enc(x, y) == IF x = y THEN x ELSE 0 - (x * 1000 + y) - 1
Th0 == [pc |-> "idle", op |-> 0, opi |-> 1, res |-> 0, o |-> NoOp, ra |-> 0, got |-> 0, ph |-> 0]
Init0(p, w, s) == [prog |-> p, cfg |-> [wrap |-> w, shared |-> s], reg |-> [a |-> 0, b |-> 0], mx |-> [x |-> 0, s |-> {}],
                   th |-> [t \in 1..Len(p) |-> Th0], lin |-> L!LinInit(S0, 1..Len(p)), ev |-> NoEv]
InitWith(p, w, s) == LET z == Init0(p, w, s) IN
    prog = z.prog /\ cfg = z.cfg /\ reg = z.reg /\ mx = z.mx /\ th = z.th /\ lin = z.lin /\ ev = z.ev
ResetTo(p, w, s) == LET z == Init0(p, w, s) IN
    prog' = z.prog /\ cfg' = z.cfg /\ reg' = z.reg /\ mx' = z.mx /\ th' = z.th /\ lin' = z.lin /\ ev' = z.ev
Init == \E p \in Progs, w \in Wraps, s \in Shareds : InitWith(p, w, s)
Ops == [t \in Threads |-> th[t].o]
\* does this operation take the lock in shared mode (ordered_guarded / deferred_guarded load)?
SharedOp(t) == th[t].o.n = "load" /\ cfg.wrap \in {3, 4}
UseS(t) == SharedOp(t) /\ cfg.shared
Upd(t, r) == th' = [th EXCEPT ![t] = r]
Pc(t, l) == [th[t] EXCEPT !.pc = l]
Call(t) ==
    /\ th[t].pc = "idle" /\ th[t].opi <= Len(prog[t])
    /\ \E j \in 1..Len(prog[t][th[t].opi]) :
         LET c == prog[t][th[t].opi][j] IN
         /\ Upd(t, [Th0 EXCEPT !.opi = th[t].opi, !.op = c, !.o = Op(c), !.pc = IF cfg.wrap = 4 THEN "pw" ELSE "lock"])
         /\ lin' = L!LinCall(lin, t, [Ops EXCEPT ![t] = Op(c)])
         /\ ev' = E(t, "call", OpName(c), 0, 0, 0)
    /\ UNCHANGED <<prog, cfg, reg, mx>>
\* deferred_guarded::load first looks at the pending flag (nothing is ever pending here)
Pw(t) == th[t].pc = "pw" /\ Upd(t, Pc(t, "lock")) /\ ev' = E(t, "ald", "pw", 1, 0, 0) /\ UNCHANGED <<prog, cfg, reg, mx, lin>>
First(t) == IF th[t].o.n \in {"store", "assign"} THEN "cb" ELSE "rb"
Lock(t) ==
    /\ th[t].pc = "lock"
    /\ IF UseS(t) THEN mx.x = 0 /\ mx' = [mx EXCEPT !.s = @ \cup {t}] /\ ev' = E(t, "slock", "m", 1, 0, 0)
                  ELSE mx.x = 0 /\ mx.s = {} /\ mx' = [mx EXCEPT !.x = t] /\ ev' = E(t, "mlock", "m", 1, 0, 0)
    /\ Upd(t, Pc(t, First(t))) /\ UNCHANGED <<prog, cfg, reg, lin>>
\* read window on the shared value
Rb(t) == th[t].pc = "rb" /\ Upd(t, [th[t] EXCEPT !.pc = "re", !.ra = reg.a]) /\ ev' = E(t, "rb", "reg", 1, reg.a, 0) /\ UNCHANGED <<prog, cfg, reg, mx, lin>>
Re(t) == LET val == Enc(th[t].ra, reg.b)
             n == th[t].o.n IN
    /\ th[t].pc = "re"
    /\ Upd(t, CASE n = "load" -> [th[t] EXCEPT !.pc = "unlock", !.res = val]
                [] n = "exchange" -> [th[t] EXCEPT !.pc = "cb", !.got = val]
                [] n = "cas" /\ th[t].ph = 0 ->
                     \* the comparison: equal => assign desired, else report the current value (second read window)
                     IF val = th[t].o.a THEN [th[t] EXCEPT !.pc = "cb", !.got = val]
                     ELSE IF CasReportsCurrent THEN [th[t] EXCEPT !.pc = "rb", !.ph = 1] ELSE [th[t] EXCEPT !.pc = "unlock", !.res = th[t].o.a]
                [] OTHER -> [th[t] EXCEPT !.pc = "unlock", !.res = val])
    /\ ev' = E(t, "re", "reg", 1, th[t].ra, reg.b) /\ UNCHANGED <<prog, cfg, reg, mx, lin>>
\* write window on the shared value
Cb(t) == th[t].pc = "cb" /\ reg' = [reg EXCEPT !.a = th[t].o.b] /\ Upd(t, Pc(t, "ce")) /\ ev' = E(t, "cb", "reg", 1, th[t].o.b, 0) /\ UNCHANGED <<prog, cfg, mx, lin>>
Ce(t) == LET n == th[t].o.n IN
    /\ th[t].pc = "ce" /\ reg' = [reg EXCEPT !.b = th[t].o.b]
    /\ Upd(t, [th[t] EXCEPT !.pc = "unlock",
                            !.res = CASE n = "exchange" -> (IF ExchangeReturnsOld THEN th[t].got ELSE th[t].o.b)
                                      [] n = "cas" -> 10 + th[t].o.a
                                      [] OTHER -> 0])
    /\ ev' = E(t, "ce", "reg", 1, th[t].o.b, 0) /\ UNCHANGED <<prog, cfg, mx, lin>>
Unlock(t) ==
    /\ th[t].pc = "unlock"
    /\ IF UseS(t) THEN mx' = [mx EXCEPT !.s = @ \ {t}] /\ ev' = E(t, "sunlock", "m", 1, 0, 0)
                  ELSE mx' = [mx EXCEPT !.x = 0] /\ ev' = E(t, "munlock", "m", 1, 0, 0)
    /\ Upd(t, Pc(t, "ret")) /\ UNCHANGED <<prog, cfg, reg, lin>>
Ret(t) ==
    /\ th[t].pc = "ret"
    /\ Upd(t, [th[t] EXCEPT !.pc = "idle", !.opi = @ + 1])
    /\ lin' = L!LinRet(lin, t, th[t].res)
    /\ ev' = E(t, "ret", OpName(th[t].op), 0, th[t].res, 0)
    /\ UNCHANGED <<prog, cfg, reg, mx>>
Step(t) == Call(t) \/ Pw(t) \/ Lock(t) \/ Rb(t) \/ Re(t) \/ Cb(t) \/ Ce(t) \/ Unlock(t) \/ Ret(t)
Next == \E t \in Threads : Step(t)
Spec == Init /\ [][Next]_vars
-----------------------------------------------------------------------------
AllDone == \A t \in Threads : th[t].pc = "idle" /\ th[t].opi > Len(prog[t])
TypeOK == mx.x \in 0..Len(prog)
\* C15: every concurrent history is linearizable w.r.t. the atomic register
Linearizable == lin # {}
\* C15: a load never returns a partially written value
NoTornLoad == \A t \in Threads : th[t].res >= -3
NoDeadlock == (\A t \in Threads : ~ENABLED Step(t)) => AllDone
=============================================================================

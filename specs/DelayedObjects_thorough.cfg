SPECIFICATION Spec
CONSTANTS
  Progs <- ThoroughProgs
  SetUnderLock = TRUE
VIEW View
INVARIANTS TypeOK Linearizable NoHang CompletedIsReady NoLeakedLock
PROPERTY SetOnce
CHECK_DEADLOCK FALSE

----------------------------- MODULE LatchTrace -----------------------------
(* Algorithm-level conformance: is a recorded execution of the real Latch a  *)
(* behaviour of Latch.tla?  Every invariant of Latch is evaluated at every   *)
(* step of every recorded execution.                                         *)
EXTENDS Latch, TraceBase
VARIABLE l

TInit == l = 1 /\ InitWith(1, <<>>) /\ TLCSet(1, 0)

TNext ==
    /\ l <= Len(Tr)
    /\ l' = l + 1
    /\ LET e == Tr[l] IN
       \/ e.k = "reset" /\ ResetTo(e.p.count, e.prog)
       \/ e.k \in LifeKinds \cup {"blocked"} /\ UNCHANGED vars
       \/ e.k = "deadlock" /\ Quiescent /\ UNCHANGED vars   \* the model agrees nothing can move
       \/ e.k \in (EndKinds \ {"deadlock"}) /\ UNCHANGED vars
       \/ e.k \notin (LifeKinds \cup EndKinds \cup {"reset", "blocked"}) /\ Next /\ Matches(ev', e)
    /\ Mark(l)

TSpec == TInit /\ [][TNext]_<<vars, l>>
Accepted == IF TLCGet(1) = Len(Tr) THEN TRUE
            ELSE Rejected(TLCGet(1) + 1)
=============================================================================

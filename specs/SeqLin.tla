------------------------------- MODULE SeqLin -------------------------------
(***************************************************************************)
(* Generic linearizability checker in "set of configurations" form          *)
(* (deterministic, linear in the history).  The instantiating module gives  *)
(* the sequential object:                                                   *)
(*   Eff(s, o) = set of [s |-> next abstract state, r |-> result] for the   *)
(*               operation record o applied in abstract state s (empty set  *)
(*               = the operation cannot take effect in s, e.g. a blocking   *)
(*               wait whose condition does not hold)                        *)
(* A configuration is [s, st] with st[t] = NONE, PEND (called, no effect    *)
(* yet) or DONE(result) once the operation has taken effect.                  *)
(***************************************************************************)
EXTENDS Naturals, Integers, FiniteSets, Sequences
CONSTANT Eff(_, _)
NONE == [k |-> "none", r |-> 0]
PEND == [k |-> "pend", r |-> 0]
DONE(r) == [k |-> "done", r |-> r]
Set(c, t, v) == [c EXCEPT !.st[t] = v]
Step1(c, ops) == UNION {IF c.st[t] = PEND THEN {[s |-> x.s, st |-> [c.st EXCEPT ![t] = DONE(x.r)]] : x \in Eff(c.s, ops[t])} ELSE {} : t \in DOMAIN c.st}
RECURSIVE Close(_, _)
Close(C, ops) == LET N == C \cup UNION {Step1(c, ops) : c \in C} IN IF N = C THEN C ELSE Close(N, ops)
LinInit(s0, T) == {[s |-> s0, st |-> [t \in T |-> NONE]]}
LinCall(C, t, ops) == Close({Set(c, t, PEND) : c \in C}, ops)
LinRet(C, t, r) == {Set(c, t, NONE) : c \in {d \in C : d.st[t] = DONE(r)}}
\* at quiescence: some linearization leaves every stuck operation pending and unable to take effect
QuiescentOK(C, S, ops) == \E c \in C : \A t \in S : c.st[t] = PEND /\ Eff(c.s, ops[t]) = {}
=============================================================================

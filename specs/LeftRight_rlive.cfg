SPECIFICATION ReaderFairSpec
CONSTANTS
  Progs <- LiveProgs
  MaxThrows = 0
  Drain1 = TRUE
  Drain2 = TRUE
  RegisterFirst = TRUE
  WriterMutex = TRUE
VIEW View
PROPERTY ReadersFinish
CHECK_DEADLOCK FALSE

SPECIFICATION TSpec
CONSTANTS
  Progs = {}
  Wraps = {}
  Shareds = {}
  ExchangeReturnsOld = TRUE
  CasReportsCurrent = TRUE
INVARIANTS Linearizable NoTornLoad
POSTCONDITION Accepted
CHECK_DEADLOCK FALSE

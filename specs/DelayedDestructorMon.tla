------------------------- MODULE DelayedDestructorMon -------------------------
(* Property monitor for C16 over API-level and user-code events: every object   *)
(* handed to the container is destroyed exactly once, never while its external  *)
(* owner still holds it, at the latest when the container is destroyed after    *)
(* the owners are gone; the callback runs once, before the destructor, for each *)
(* object reaped by destroyObjects; callback and destructor never run under the *)
(* container's lock (they may re-enter it: no deadlock).                        *)
EXTENDS TraceBase
VARIABLES l, added, owned, dead, cbd, inop, cbOn, gone, bt
mv == <<added, owned, dead, cbd, inop, cbOn, gone>>
MaxT == 8
Viol(what) == MonViol(l, what)
TInit == l = 1 /\ added = {} /\ owned = {} /\ dead = {} /\ cbd = {} /\ inop = [t \in 0..MaxT |-> ""] /\ cbOn = TRUE /\ gone = FALSE /\ bt = {} /\ TLCSet(1, 0)
TNext ==
    /\ l <= Len(Tr)
    /\ l' = l + 1
    \* bt: threads whose current destroyObjects call saw its callback throw (C20: the rest of that batch is destroyed without
    \* callbacks while the exception unwinds; the exception must not leave destroyObjects)
    /\ bt' = IF Tr[l].k = "reset" THEN {} ELSE IF Tr[l].k = "cbthrow" THEN bt \cup {Tr[l].t}
             ELSE IF Tr[l].k = "ret" THEN bt \ {Tr[l].t} ELSE bt
    /\ LET e == Tr[l] IN
       CASE e.k = "reset" -> added' = {} /\ owned' = {} /\ dead' = {} /\ cbd' = {} /\ inop' = [t \in 0..MaxT |-> ""] /\ cbOn' = (e.p.cb = 1) /\ gone' = FALSE
         [] e.k = "call" ->
              /\ added' = IF e.o \in {"add", "add_temp"} THEN added \cup {e.v} ELSE added
              /\ owned' = IF e.o = "add" /\ e.w = 1 THEN owned \cup {e.v} ELSE owned
              /\ inop' = [inop EXCEPT ![e.t] = e.o] /\ UNCHANGED <<dead, cbd, cbOn, gone>>
         [] e.k = "ret" -> inop' = [inop EXCEPT ![e.t] = ""] /\ UNCHANGED <<added, owned, dead, cbd, cbOn, gone>>
         [] e.k = "drop" -> owned' = owned \ {e.i} /\ UNCHANGED <<added, dead, cbd, inop, cbOn, gone>>
         [] e.k = "cb" /\ ~gone ->
              /\ (e.u = 1) => Viol("C16: the callback runs under the container's lock")
              /\ (e.i \in cbd) => Viol("C16: the callback ran twice for one object")
              /\ (e.i \in dead) => Viol("C16: the callback ran after the object was destroyed")
              /\ cbd' = cbd \cup {e.i} /\ UNCHANGED <<added, owned, dead, inop, cbOn, gone>>
         [] e.k = "dtor" /\ ~gone /\ e.i \in added ->
              /\ (e.u = 1) => Viol("C16: an object's destructor runs under the container's lock")
              /\ (e.i \in dead) => Viol("C16: an object is destroyed twice")
              /\ (e.i \in owned) => Viol("C16: an object is destroyed while another owner still holds it")
              /\ (cbOn /\ e.t # 0 /\ inop[e.t] = "destroy" /\ e.i \notin cbd /\ e.t \notin bt) => Viol("C16: an object reaped by destroyObjects was destroyed without its callback")
              \* delayed destruction: once handed over, an object dies in a destroyObjects call or with the container, never at the
              \* moment its last outside owner lets go (the container would have lost it)
              /\ (e.t # 0 /\ inop[e.t] \notin {"destroy", "add_temp"}) => Viol("C16: the container lost an object: it is destroyed by the thread dropping the last outside reference, not by destroyObjects or the container's destructor")
              /\ dead' = dead \cup {e.i} /\ UNCHANGED <<added, owned, cbd, inop, cbOn, gone>>
         [] e.k = "ddgone" ->
              /\ (added # dead) => Viol("C16: an object handed to the container was not destroyed by the time the container is gone")
              /\ gone' = TRUE /\ UNCHANGED <<added, owned, dead, cbd, inop, cbOn>>
         \* stall policy: a thread was held inside user code (callback, destructor) and this one could not finish its call
         [] e.k = "starved" ->
              /\ (inop[e.t] \in {"add", "add_temp", "size"}) => Viol("C16: add / size waits for a callback or destructor: user code runs under the container's lock")
              /\ UNCHANGED mv
         [] e.k \in {"deadlock", "budget"} -> Viol("C16: deadlock (user code re-entering the container, or a leaked lock)") /\ UNCHANGED mv
         [] e.k \in {"crash", "terminate", "escaped"} -> Viol("C16: crash (C20: an exception of user code escaped or terminated the program)") /\ UNCHANGED mv
         [] OTHER -> UNCHANGED mv
    /\ Mark(l)
TSpec == TInit /\ [][TNext]_<<l, mv, bt>>
Accepted == IF TLCGet(1) = Len(Tr) THEN TRUE ELSE Rejected(TLCGet(1) + 1)
=============================================================================

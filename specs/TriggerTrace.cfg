SPECIFICATION TSpec
CONSTANTS
  Progs = {}
  Actives = {}
  Spurious = TRUE
  Timeouts = TRUE
  TrigLocked = TRUE
  ClearFirst = TRUE
INVARIANTS Linearizable
POSTCONDITION Accepted
CHECK_DEADLOCK FALSE

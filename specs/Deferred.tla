------------------------------- MODULE Deferred -------------------------------
(***************************************************************************)
(* gmlc::libguarded::deferred_guarded<T, M> (deferred_guarded.hpp).         *)
(*  submit (modify_detach / modify_async): exclusive try_to_lock on m;      *)
(*     success: do_pending_writes_internal(); func(obj); unlock             *)
(*     failure: package the task; lock list; push; unlock list; pw.store(true) *)
(*  do_pending_writes_internal: if (pw.load()) { pw.store(false); lock list; *)
(*     swap the queue out; unlock list; run the tasks in order }            *)
(*  every shared acquisition first calls do_pending_writes(): if (pw.load()) *)
(*     { exclusive try_to_lock; success: do_pending_writes_internal(); unlock } *)
(*  then takes the shared lock (blocking / try / timed; unique_lock for      *)
(*  non-shared mutex types).                                                *)
(* A submission with digit d maps the value v to 8v+d (bounded), so the     *)
(* value is the sequence of applied modifications.                          *)
(***************************************************************************)
EXTENDS Naturals, Integers, Sequences, FiniteSets, TLC

CONSTANTS Progs, Shareds, MaxThrows,
          PushBeforeFlag,   \* knob: the task is queued before the pending flag is raised (code as read)
          DrainNeedsLock,   \* knob: readers drain only after the exclusive try-lock succeeded (code as read)
          DrainFifo         \* knob: queued tasks run in submission order (code as read)

VARIABLES prog, shared, mx, lm, pw, pend, cp, th, gh, ev
vars == <<prog, shared, mx, lm, pw, pend, cp, th, gh, ev>>
View == <<prog, shared, mx, lm, pw, pend, cp, th, gh>>

OpName == <<"modify_detach", "modify_async", "shared_read", "try_shared_read", "timed_shared_read", "load">>
Threads == 1..Len(prog)
NoEv == [t |-> 0, k |-> "init", o |-> "", i |-> 0, v |-> 0, w |-> 0]
E(t, k, o, i, v, w) == [t |-> t, k |-> k, o |-> o, i |-> i, v |-> v, w |-> w]
B(b) == IF b THEN 1 ELSE 0
Enc(x, y) == IF x = y THEN x ELSE 0 - (x * 1000 + y) - 1
F(d, v) == IF v < 0 \/ v >= 32768 THEN d ELSE 8 * v + d
Digit(t) == 2 * (t - 1) + th[t].opi

Th0 == [pc |-> "idle", op |-> 0, opi |-> 1, res |-> 0, loc |-> <<>>, cur |-> 0, ra |-> 0, d |-> 0, after |-> "", tmp |-> 0]
Init0(p, s) == [prog |-> p, shared |-> s, mx |-> [x |-> 0, s |-> {}], lm |-> 0, pw |-> FALSE, pend |-> <<>>, cp |-> [a |-> 0, b |-> 0],
                th |-> [t \in 1..Len(p) |-> Th0],
                gh |-> [applied |-> <<>>, returned |-> {}, snap |-> [d \in 1..8 |-> {}], accepted |-> {}, thrown |-> {}, thr |-> 0, nid |-> 2],
                ev |-> NoEv]
InitWith(p, s) == LET z == Init0(p, s) IN
    prog = z.prog /\ shared = z.shared /\ mx = z.mx /\ lm = z.lm /\ pw = z.pw /\ pend = z.pend /\ cp = z.cp /\ th = z.th /\ gh = z.gh /\ ev = z.ev
ResetTo(p, s) == LET z == Init0(p, s) IN
    prog' = z.prog /\ shared' = z.shared /\ mx' = z.mx /\ lm' = z.lm /\ pw' = z.pw /\ pend' = z.pend /\ cp' = z.cp /\ th' = z.th /\ gh' = z.gh /\ ev' = z.ev
Init == \E p \in Progs, s \in Shareds : InitWith(p, s)

FreeX == mx.x = 0 /\ mx.s = {}
FreeS == mx.x = 0
UC == UNCHANGED <<prog, shared>>
Set(t, r) == th' = [th EXCEPT ![t] = r]
Pc(t, l) == [th[t] EXCEPT !.pc = l]

Call(t) ==
    /\ th[t].pc = "idle" /\ th[t].opi <= Len(prog[t])
    /\ \E j \in 1..Len(prog[t][th[t].opi]) :
         LET o == prog[t][th[t].opi][j]
             sub == o \in {0, 1} IN
         /\ Set(t, [Th0 EXCEPT !.opi = th[t].opi, !.op = o, !.d = IF sub THEN Digit(t) ELSE 0,
                               !.pc = IF sub THEN "s1" ELSE "r1"])
         /\ gh' = IF sub THEN [gh EXCEPT !.snap[Digit(t)] = gh.returned, !.accepted = @ \cup {Digit(t)}] ELSE gh
         /\ ev' = E(t, "call", OpName[o + 1], 0, IF sub THEN Digit(t) ELSE 0, 0)
    /\ UNCHANGED <<prog, shared, mx, lm, pw, pend, cp>>

Ret(t) ==
    /\ th[t].pc = "ret"
    /\ Set(t, [th[t] EXCEPT !.pc = "idle", !.opi = @ + 1])
    /\ gh' = IF th[t].op \in {0, 1} THEN [gh EXCEPT !.returned = @ \cup {th[t].d}] ELSE gh
    /\ ev' = E(t, "ret", OpName[th[t].op + 1], 0, th[t].res, 0)
    /\ UNCHANGED <<prog, shared, mx, lm, pw, pend, cp>>

\* ---- the drain (do_pending_writes_internal), entered with the exclusive lock held; continues at th.after
Rev(q) == [j \in 1..Len(q) |-> q[Len(q) + 1 - j]]
Drain(t) ==
    \/ /\ th[t].pc = "d1" /\ Set(t, Pc(t, IF pw THEN "d2" ELSE th[t].after))
       /\ ev' = E(t, "ald", "pw", 1, B(pw), 0) /\ UNCHANGED <<mx, lm, pw, pend, cp, gh>> /\ UC
    \/ /\ th[t].pc = "d2" /\ pw' = FALSE /\ Set(t, Pc(t, "d3"))
       /\ ev' = E(t, "ast", "pw", 1, 0, 0) /\ UNCHANGED <<mx, lm, pend, cp, gh>> /\ UC
    \* lock the list; the swap is a plain operation under it
    \/ /\ th[t].pc = "d3" /\ lm = 0 /\ lm' = t /\ pend' = <<>>
       /\ Set(t, [th[t] EXCEPT !.pc = "d4", !.loc = IF DrainFifo THEN pend ELSE Rev(pend)])
       /\ ev' = E(t, "mlock", "lm", 1, 0, 0) /\ UNCHANGED <<mx, pw, cp, gh>> /\ UC
    \/ /\ th[t].pc = "d4" /\ lm' = 0 /\ Set(t, Pc(t, IF th[t].loc = <<>> THEN th[t].after ELSE "k1"))
       /\ ev' = E(t, "munlock", "lm", 1, 0, 0) /\ UNCHANGED <<mx, pw, pend, cp, gh>> /\ UC
    \* run the queued tasks: each one a payload write window (or an exception captured by its packaged_task)
    \/ LET d == Head(th[t].loc) IN
       /\ th[t].pc = "k1"
       /\ \/ /\ cp' = [cp EXCEPT !.a = F(d, cp.a)] /\ Set(t, Pc(t, "k2")) /\ gh' = gh
             /\ ev' = E(t, "wb", "cell", 1, cp.a, F(d, cp.a))
          \/ /\ gh.thr < MaxThrows /\ cp' = cp
             /\ Set(t, [th[t] EXCEPT !.loc = Tail(@), !.pc = IF Tail(th[t].loc) = <<>> THEN th[t].after ELSE "k1"])
             /\ gh' = [gh EXCEPT !.thr = @ + 1, !.thrown = @ \cup {d}]
             /\ ev' = E(t, "throw", "cell", 1, cp.a, 0)
       /\ UNCHANGED <<mx, lm, pw, pend>> /\ UC
    \/ LET d == Head(th[t].loc) IN
       /\ th[t].pc = "k2" /\ cp' = [cp EXCEPT !.b = F(d, cp.b)]
       /\ Set(t, [th[t] EXCEPT !.loc = Tail(@), !.pc = IF Tail(th[t].loc) = <<>> THEN th[t].after ELSE "k1"])
       /\ gh' = [gh EXCEPT !.applied = Append(@, d)]
       /\ ev' = E(t, "we", "cell", 1, F(d, cp.b), 0) /\ UNCHANGED <<mx, lm, pw, pend>> /\ UC

\* ---- submit -------------------------------------------------------------------------------------
Submit(t) == LET d == th[t].d IN
    \/ /\ th[t].pc = "s1"
       /\ IF FreeX THEN mx' = [mx EXCEPT !.x = t] /\ Set(t, [th[t] EXCEPT !.pc = "d1", !.after = "f1"]) /\ ev' = E(t, "mtry", "m", 1, 1, 0)
                   ELSE mx' = mx /\ Set(t, Pc(t, IF PushBeforeFlag THEN "q1" ELSE "q3")) /\ ev' = E(t, "mtry", "m", 1, 0, 0)
       /\ UNCHANGED <<lm, pw, pend, cp, gh>> /\ UC
    \* direct path: the functor itself
    \/ /\ th[t].pc = "f1"
       /\ \/ /\ cp' = [cp EXCEPT !.a = F(d, cp.a)] /\ Set(t, Pc(t, "f2")) /\ gh' = gh /\ ev' = E(t, "wb", "cell", 1, cp.a, F(d, cp.a))
          \/ /\ gh.thr < MaxThrows /\ cp' = cp /\ Set(t, [th[t] EXCEPT !.pc = "f3", !.res = -1])
             /\ gh' = [gh EXCEPT !.thr = @ + 1, !.thrown = @ \cup {d}] /\ ev' = E(t, "throw", "cell", 1, cp.a, 0)
       /\ UNCHANGED <<mx, lm, pw, pend>> /\ UC
    \/ /\ th[t].pc = "f2" /\ cp' = [cp EXCEPT !.b = F(d, cp.b)] /\ Set(t, [th[t] EXCEPT !.pc = "f3", !.res = cp.a])
       /\ gh' = [gh EXCEPT !.applied = Append(@, d)]
       /\ ev' = E(t, "we", "cell", 1, F(d, cp.b), 0) /\ UNCHANGED <<mx, lm, pw, pend>> /\ UC
    \/ /\ th[t].pc = "f3" /\ mx' = [mx EXCEPT !.x = 0] /\ Set(t, Pc(t, "ret"))
       /\ ev' = E(t, "munlock", "m", 1, 0, 0) /\ UNCHANGED <<lm, pw, pend, cp, gh>> /\ UC
    \* queued path: lock list; push; unlock list; raise the flag  (knob: flag first)
    \/ /\ th[t].pc = "q1" /\ lm = 0 /\ lm' = t /\ pend' = Append(pend, d) /\ Set(t, Pc(t, "q2"))
       /\ ev' = E(t, "mlock", "lm", 1, 0, 0) /\ UNCHANGED <<mx, pw, cp, gh>> /\ UC
    \/ /\ th[t].pc = "q2" /\ lm' = 0 /\ Set(t, Pc(t, IF PushBeforeFlag THEN "q3" ELSE "ret"))
       /\ ev' = E(t, "munlock", "lm", 1, 0, 0) /\ UNCHANGED <<mx, pw, pend, cp, gh>> /\ UC
    \/ /\ th[t].pc = "q3" /\ pw' = TRUE /\ Set(t, Pc(t, IF PushBeforeFlag THEN "ret" ELSE "q1"))
       /\ ev' = E(t, "ast", "pw", 1, 1, 0) /\ UNCHANGED <<mx, lm, pend, cp, gh>> /\ UC

\* ---- shared acquisitions --------------------------------------------------------------------------
SK(a, b) == IF shared THEN a ELSE b
Reader(t) == LET o == th[t].op IN
    \* do_pending_writes(): flag, exclusive try, drain, unlock
    \/ /\ th[t].pc = "r1" /\ Set(t, Pc(t, IF pw THEN (IF DrainNeedsLock THEN "r2" ELSE "d1x") ELSE "a1"))
       /\ ev' = E(t, "ald", "pw", 1, B(pw), 0) /\ UNCHANGED <<mx, lm, pw, pend, cp, gh>> /\ UC
    \/ /\ th[t].pc = "d1x" /\ Set(t, [th[t] EXCEPT !.pc = "d1", !.after = "a1"]) /\ ev' = ev /\ UNCHANGED <<mx, lm, pw, pend, cp, gh>> /\ UC
    \/ /\ th[t].pc = "r2"
       /\ IF FreeX THEN mx' = [mx EXCEPT !.x = t] /\ Set(t, [th[t] EXCEPT !.pc = "d1", !.after = "r3"]) /\ ev' = E(t, "mtry", "m", 1, 1, 0)
                   ELSE mx' = mx /\ Set(t, Pc(t, "a1")) /\ ev' = E(t, "mtry", "m", 1, 0, 0)
       /\ UNCHANGED <<lm, pw, pend, cp, gh>> /\ UC
    \/ /\ th[t].pc = "r3" /\ mx' = [mx EXCEPT !.x = 0] /\ Set(t, Pc(t, "a1"))
       /\ ev' = E(t, "munlock", "m", 1, 0, 0) /\ UNCHANGED <<lm, pw, pend, cp, gh>> /\ UC
    \* the shared acquisition proper
    \/ /\ th[t].pc = "a1" /\ o \in {2, 5}
       /\ \/ shared /\ FreeS /\ mx' = [mx EXCEPT !.s = @ \cup {t}]
          \/ ~shared /\ FreeX /\ mx' = [mx EXCEPT !.x = t]
       /\ Set(t, [th[t] EXCEPT !.pc = IF o = 5 THEN "l1" ELSE "b1", !.tmp = IF o = 5 THEN gh.nid ELSE 0])
       /\ gh' = IF o = 5 THEN [gh EXCEPT !.nid = @ + 1] ELSE gh
       /\ ev' = E(t, SK("slock", "mlock"), "m", 1, 0, 0) /\ UNCHANGED <<lm, pw, pend, cp>> /\ UC
    \/ /\ th[t].pc = "a1" /\ o \in {3, 4}
       /\ LET free == IF shared THEN FreeS ELSE FreeX
              k == IF o = 3 THEN SK("stry", "mtry") ELSE SK("stimed", "mtimed") IN
          IF free THEN /\ mx' = (IF shared THEN [mx EXCEPT !.s = @ \cup {t}] ELSE [mx EXCEPT !.x = t])
                       /\ Set(t, Pc(t, "b1")) /\ ev' = E(t, k, "m", 1, 1, 0)
                  ELSE mx' = mx /\ Set(t, [th[t] EXCEPT !.pc = "ret", !.res = -1]) /\ ev' = E(t, k, "m", 1, 0, 0)
       /\ UNCHANGED <<lm, pw, pend, cp, gh>> /\ UC
    \/ /\ th[t].pc = "b1" /\ Set(t, [th[t] EXCEPT !.pc = "b2", !.ra = cp.a]) /\ ev' = E(t, "rb", "cell", 1, cp.a, 0)
       /\ UNCHANGED <<mx, lm, pw, pend, cp, gh>> /\ UC
    \/ /\ th[t].pc = "b2" /\ Set(t, [th[t] EXCEPT !.pc = "b3", !.res = Enc(th[t].ra, cp.b)]) /\ ev' = E(t, "re", "cell", 1, th[t].ra, cp.b)
       /\ UNCHANGED <<mx, lm, pw, pend, cp, gh>> /\ UC
    \/ /\ th[t].pc = "l1" /\ Set(t, [th[t] EXCEPT !.pc = "l2", !.ra = cp.a]) /\ ev' = E(t, "kb", "cell", th[t].tmp, cp.a, 0)
       /\ UNCHANGED <<mx, lm, pw, pend, cp, gh>> /\ UC
    \/ /\ th[t].pc = "l2" /\ Set(t, [th[t] EXCEPT !.pc = "b3", !.res = Enc(th[t].ra, cp.b)]) /\ ev' = E(t, "ke", "cell", th[t].tmp, cp.b, 0)
       /\ UNCHANGED <<mx, lm, pw, pend, cp, gh>> /\ UC
    \/ /\ th[t].pc = "b3" /\ mx' = (IF shared THEN [mx EXCEPT !.s = @ \ {t}] ELSE [mx EXCEPT !.x = 0]) /\ Set(t, Pc(t, "ret"))
       /\ ev' = E(t, SK("sunlock", "munlock"), "m", 1, 0, 0) /\ UNCHANGED <<lm, pw, pend, cp, gh>> /\ UC

Step(t) == Call(t) \/ Ret(t) \/ Drain(t) \/ Submit(t) \/ Reader(t)
Next == \E t \in Threads : Step(t)
Spec == Init /\ [][Next]_vars
-----------------------------------------------------------------------------
SeqSet(q) == {q[j] : j \in 1..Len(q)}
Pos(q, x) == CHOOSE j \in 1..Len(q) : q[j] = x
InTask(t) == th[t].pc \in {"k1", "k2", "f1", "f2"}
AllDone == \A t \in Threads : th[t].pc = "idle" /\ th[t].opi > Len(prog[t])
Quiescent == \A t \in Threads : ~ENABLED Step(t)

TypeOK == mx.x \in 0..Len(prog) /\ lm \in 0..Len(prog)
\* C06: each modification executed at most once
AtMostOnce == \A i, j \in 1..Len(gh.applied) : i # j => gh.applied[i] # gh.applied[j]
\* C06/C02: modifications run with exclusive access: the running thread owns m exclusively, nobody holds it shared
Exclusive == \A t \in Threads : InTask(t) => (mx.x = t /\ mx.s = {})
NoTornRead == \A t \in Threads : (th[t].pc \in {"b3", "ret"} /\ th[t].op \in {2, 3, 4, 5}) => th[t].res >= -1
\* C06: order respects each thread's own order and real time
Order == \A b \in SeqSet(gh.applied) : \A a \in gh.snap[b] : a \in gh.thrown \/ (a \in SeqSet(gh.applied) /\ Pos(gh.applied, a) < Pos(gh.applied, b))
\* C06: no accepted modification is stranded: whatever is queued is announced by the flag whenever nothing is in flight
NoStranding == (\A t \in Threads : th[t].pc \in {"idle", "ret"}) => (pend # <<>> => pw)
\* C06: nothing is lost: accepted = applied + thrown + still queued (+ being submitted / drained)
NoLoss == AllDone => gh.accepted = SeqSet(gh.applied) \cup gh.thrown \cup SeqSet(pend)
NoLeakedLock == AllDone => (mx.x = 0 /\ mx.s = {} /\ lm = 0)
NoDeadlock == Quiescent => AllDone
\* C08: try forms never block
TryNeverBlocks == \A t \in Threads : (th[t].pc \in {"s1", "r2"} \/ (th[t].pc = "a1" /\ th[t].op \in {3, 4})) => ENABLED Step(t)
=============================================================================

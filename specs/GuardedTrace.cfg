SPECIFICATION TSpec
CONSTANTS
  Progs = {}
  Shareds = {}
  Enableds = {}
  LoadShareds = {}
  MaxThrows = 3
  StoreLocked = TRUE
  ReadLocked = TRUE
  TryHonest = TRUE
INVARIANTS Exclusive NoTornRead HandleTruth ReleaseOnce NoLeakedLock NoLostUpdate
POSTCONDITION Accepted
CHECK_DEADLOCK FALSE

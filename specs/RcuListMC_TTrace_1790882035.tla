---- MODULE RcuListMC_TTrace_1790882035 ----
EXTENDS Sequences, TLCExt, Toolbox, Naturals, TLC, RcuListMC

_expression ==
    LET RcuListMC_TEExpression == INSTANCE RcuListMC_TEExpression
    IN RcuListMC_TEExpression!expression
----

_trace ==
    LET RcuListMC_TETrace == INSTANCE RcuListMC_TETrace
    IN RcuListMC_TETrace!trace
----

_inv ==
    ~(
        TLCGet("level") = Len(_TETrace)
        /\
        ev = ([o |-> "wm", t |-> 1, k |-> "mlock", i |-> 1, v |-> 0, w |-> 0])
        /\
        gh = ([uaf |-> FALSE, dbl |-> FALSE, nulld |-> FALSE, early |-> FALSE, ref |-> <<>>, erased |-> {}, inserted |-> {}, must |-> <<{}, {}>>, badtrav |-> FALSE])
        /\
        th = (<<[pc |-> "p6", op |-> 9, opi |-> 1, myrec |-> 1, exp |-> 0, cur |-> 0, n |-> 0, lastf |-> TRUE, nn |-> 0, zr |-> 0, oprev |-> 0, onext |-> 0, cached |-> 0, sawdel |-> FALSE, vis |-> <<>>, skip |-> 0, live0 |-> {}, er0 |-> {}], [pc |-> "idle", op |-> 0, opi |-> 1, myrec |-> 0, exp |-> 0, cur |-> 0, n |-> 0, lastf |-> TRUE, nn |-> 0, zr |-> 0, oprev |-> 0, onext |-> 0, cached |-> 0, sawdel |-> FALSE, vis |-> <<>>, skip |-> 0, live0 |-> {}, er0 |-> {}]>>)
        /\
        sh = ([head |-> 0, tail |-> 0, zhead |-> 1, wm |-> 1, node |-> <<[next |-> 0, back |-> 0, deleted |-> FALSE, val |-> 0, st |-> "freed"], [next |-> 0, back |-> 0, deleted |-> FALSE, val |-> 0, st |-> "none"]>>, rec |-> <<[next |-> 0, st |-> "live", owner |-> 1, znode |-> 0], [next |-> 0, st |-> "none", owner |-> 0, znode |-> 0], [next |-> 0, st |-> "none", owner |-> 0, znode |-> 0], [next |-> 0, st |-> "none", owner |-> 0, znode |-> 0], [next |-> 0, st |-> "none", owner |-> 0, znode |-> 0], [next |-> 0, st |-> "none", owner |-> 0, znode |-> 0]>>, nnode |-> 1, nrec |-> 1])
        /\
        prog = (<<<<<<1, 2, 9>>, <<3>>>>, <<<<0, 5, 8>>>>>>)
    )
----

_init ==
    /\ prog = _TETrace[1].prog
    /\ ev = _TETrace[1].ev
    /\ sh = _TETrace[1].sh
    /\ gh = _TETrace[1].gh
    /\ th = _TETrace[1].th
----

_next ==
    /\ \E i,j \in DOMAIN _TETrace:
        /\ \/ /\ j = i + 1
              /\ i = TLCGet("level")
        /\ prog  = _TETrace[i].prog
        /\ prog' = _TETrace[j].prog
        /\ ev  = _TETrace[i].ev
        /\ ev' = _TETrace[j].ev
        /\ sh  = _TETrace[i].sh
        /\ sh' = _TETrace[j].sh
        /\ gh  = _TETrace[i].gh
        /\ gh' = _TETrace[j].gh
        /\ th  = _TETrace[i].th
        /\ th' = _TETrace[j].th

\* Uncomment the ASSUME below to write the states of the error trace
\* to the given file in Json format. Note that you can pass any tuple
\* to `JsonSerialize`. For example, a sub-sequence of _TETrace.
    \* ASSUME
    \*     LET J == INSTANCE Json
    \*         IN J!JsonSerialize("RcuListMC_TTrace_1790882035.json", _TETrace)

=============================================================================

 Note that you can extract this module `RcuListMC_TEExpression`
  to a dedicated file to reuse `expression` (the module in the 
  dedicated `RcuListMC_TEExpression.tla` file takes precedence 
  over the module `RcuListMC_TEExpression` below).

---- MODULE RcuListMC_TEExpression ----
EXTENDS Sequences, TLCExt, Toolbox, Naturals, TLC, RcuListMC

expression == 
    [
        \* To hide variables of the `RcuListMC` spec from the error trace,
        \* remove the variables below.  The trace will be written in the order
        \* of the fields of this record.
        prog |-> prog
        ,ev |-> ev
        ,sh |-> sh
        ,gh |-> gh
        ,th |-> th
        
        \* Put additional constant-, state-, and action-level expressions here:
        \* ,_stateNumber |-> _TEPosition
        \* ,_progUnchanged |-> prog = prog'
        
        \* Format the `prog` variable as Json value.
        \* ,_progJson |->
        \*     LET J == INSTANCE Json
        \*     IN J!ToJson(prog)
        
        \* Lastly, you may build expressions over arbitrary sets of states by
        \* leveraging the _TETrace operator.  For example, this is how to
        \* count the number of times a spec variable changed up to the current
        \* state in the trace.
        \* ,_progModCount |->
        \*     LET F[s \in DOMAIN _TETrace] ==
        \*         IF s = 1 THEN 0
        \*         ELSE IF _TETrace[s].prog # _TETrace[s-1].prog
        \*             THEN 1 + F[s-1] ELSE F[s-1]
        \*     IN F[_TEPosition - 1]
    ]

=============================================================================



Parsing and semantic processing can take forever if the trace below is long.
 In this case, it is advised to uncomment the module below to deserialize the
 trace from a generated binary file.

\*
\*---- MODULE RcuListMC_TETrace ----
\*EXTENDS IOUtils, TLC, RcuListMC
\*
\*trace == IODeserialize("RcuListMC_TTrace_1790882035.bin", TRUE)
\*
\*=============================================================================
\*

---- MODULE RcuListMC_TETrace ----
EXTENDS TLC, RcuListMC

trace == 
    <<
    ([ev |-> [o |-> "", t |-> 0, k |-> "init", i |-> 0, v |-> 0, w |-> 0],gh |-> [uaf |-> FALSE, dbl |-> FALSE, nulld |-> FALSE, early |-> FALSE, ref |-> <<>>, erased |-> {}, inserted |-> {}, must |-> <<{}, {}>>, badtrav |-> FALSE],th |-> <<[pc |-> "idle", op |-> 0, opi |-> 1, myrec |-> 0, exp |-> 0, cur |-> 0, n |-> 0, lastf |-> TRUE, nn |-> 0, zr |-> 0, oprev |-> 0, onext |-> 0, cached |-> 0, sawdel |-> FALSE, vis |-> <<>>, skip |-> 0, live0 |-> {}, er0 |-> {}], [pc |-> "idle", op |-> 0, opi |-> 1, myrec |-> 0, exp |-> 0, cur |-> 0, n |-> 0, lastf |-> TRUE, nn |-> 0, zr |-> 0, oprev |-> 0, onext |-> 0, cached |-> 0, sawdel |-> FALSE, vis |-> <<>>, skip |-> 0, live0 |-> {}, er0 |-> {}]>>,sh |-> [head |-> 0, tail |-> 0, zhead |-> 0, wm |-> 0, node |-> <<[next |-> 0, back |-> 0, deleted |-> FALSE, val |-> 0, st |-> "none"], [next |-> 0, back |-> 0, deleted |-> FALSE, val |-> 0, st |-> "none"]>>, rec |-> <<[next |-> 0, st |-> "none", owner |-> 0, znode |-> 0], [next |-> 0, st |-> "none", owner |-> 0, znode |-> 0], [next |-> 0, st |-> "none", owner |-> 0, znode |-> 0], [next |-> 0, st |-> "none", owner |-> 0, znode |-> 0], [next |-> 0, st |-> "none", owner |-> 0, znode |-> 0], [next |-> 0, st |-> "none", owner |-> 0, znode |-> 0]>>, nnode |-> 0, nrec |-> 0],prog |-> <<<<<<1, 2, 9>>, <<3>>>>, <<<<0, 5, 8>>>>>>]),
    ([ev |-> [o |-> "push_back_throw", t |-> 1, k |-> "call", i |-> 0, v |-> 11, w |-> 0],gh |-> [uaf |-> FALSE, dbl |-> FALSE, nulld |-> FALSE, early |-> FALSE, ref |-> <<>>, erased |-> {}, inserted |-> {}, must |-> <<{}, {}>>, badtrav |-> FALSE],th |-> <<[pc |-> "g1", op |-> 9, opi |-> 1, myrec |-> 1, exp |-> 0, cur |-> 0, n |-> 0, lastf |-> TRUE, nn |-> 0, zr |-> 0, oprev |-> 0, onext |-> 0, cached |-> 0, sawdel |-> FALSE, vis |-> <<>>, skip |-> 0, live0 |-> {}, er0 |-> {}], [pc |-> "idle", op |-> 0, opi |-> 1, myrec |-> 0, exp |-> 0, cur |-> 0, n |-> 0, lastf |-> TRUE, nn |-> 0, zr |-> 0, oprev |-> 0, onext |-> 0, cached |-> 0, sawdel |-> FALSE, vis |-> <<>>, skip |-> 0, live0 |-> {}, er0 |-> {}]>>,sh |-> [head |-> 0, tail |-> 0, zhead |-> 0, wm |-> 0, node |-> <<[next |-> 0, back |-> 0, deleted |-> FALSE, val |-> 0, st |-> "none"], [next |-> 0, back |-> 0, deleted |-> FALSE, val |-> 0, st |-> "none"]>>, rec |-> <<[next |-> 0, st |-> "live", owner |-> 1, znode |-> 0], [next |-> 0, st |-> "none", owner |-> 0, znode |-> 0], [next |-> 0, st |-> "none", owner |-> 0, znode |-> 0], [next |-> 0, st |-> "none", owner |-> 0, znode |-> 0], [next |-> 0, st |-> "none", owner |-> 0, znode |-> 0], [next |-> 0, st |-> "none", owner |-> 0, znode |-> 0]>>, nnode |-> 0, nrec |-> 1],prog |-> <<<<<<1, 2, 9>>, <<3>>>>, <<<<0, 5, 8>>>>>>]),
    ([ev |-> [o |-> "zhead", t |-> 1, k |-> "ald", i |-> 1, v |-> 0, w |-> 0],gh |-> [uaf |-> FALSE, dbl |-> FALSE, nulld |-> FALSE, early |-> FALSE, ref |-> <<>>, erased |-> {}, inserted |-> {}, must |-> <<{}, {}>>, badtrav |-> FALSE],th |-> <<[pc |-> "g2", op |-> 9, opi |-> 1, myrec |-> 1, exp |-> 0, cur |-> 0, n |-> 0, lastf |-> TRUE, nn |-> 0, zr |-> 0, oprev |-> 0, onext |-> 0, cached |-> 0, sawdel |-> FALSE, vis |-> <<>>, skip |-> 0, live0 |-> {}, er0 |-> {}], [pc |-> "idle", op |-> 0, opi |-> 1, myrec |-> 0, exp |-> 0, cur |-> 0, n |-> 0, lastf |-> TRUE, nn |-> 0, zr |-> 0, oprev |-> 0, onext |-> 0, cached |-> 0, sawdel |-> FALSE, vis |-> <<>>, skip |-> 0, live0 |-> {}, er0 |-> {}]>>,sh |-> [head |-> 0, tail |-> 0, zhead |-> 0, wm |-> 0, node |-> <<[next |-> 0, back |-> 0, deleted |-> FALSE, val |-> 0, st |-> "none"], [next |-> 0, back |-> 0, deleted |-> FALSE, val |-> 0, st |-> "none"]>>, rec |-> <<[next |-> 0, st |-> "live", owner |-> 1, znode |-> 0], [next |-> 0, st |-> "none", owner |-> 0, znode |-> 0], [next |-> 0, st |-> "none", owner |-> 0, znode |-> 0], [next |-> 0, st |-> "none", owner |-> 0, znode |-> 0], [next |-> 0, st |-> "none", owner |-> 0, znode |-> 0], [next |-> 0, st |-> "none", owner |-> 0, znode |-> 0]>>, nnode |-> 0, nrec |-> 1],prog |-> <<<<<<1, 2, 9>>, <<3>>>>, <<<<0, 5, 8>>>>>>]),
    ([ev |-> [o |-> "r.next", t |-> 1, k |-> "ast", i |-> 1, v |-> 0, w |-> 0],gh |-> [uaf |-> FALSE, dbl |-> FALSE, nulld |-> FALSE, early |-> FALSE, ref |-> <<>>, erased |-> {}, inserted |-> {}, must |-> <<{}, {}>>, badtrav |-> FALSE],th |-> <<[pc |-> "g3", op |-> 9, opi |-> 1, myrec |-> 1, exp |-> 0, cur |-> 0, n |-> 0, lastf |-> TRUE, nn |-> 0, zr |-> 0, oprev |-> 0, onext |-> 0, cached |-> 0, sawdel |-> FALSE, vis |-> <<>>, skip |-> 0, live0 |-> {}, er0 |-> {}], [pc |-> "idle", op |-> 0, opi |-> 1, myrec |-> 0, exp |-> 0, cur |-> 0, n |-> 0, lastf |-> TRUE, nn |-> 0, zr |-> 0, oprev |-> 0, onext |-> 0, cached |-> 0, sawdel |-> FALSE, vis |-> <<>>, skip |-> 0, live0 |-> {}, er0 |-> {}]>>,sh |-> [head |-> 0, tail |-> 0, zhead |-> 0, wm |-> 0, node |-> <<[next |-> 0, back |-> 0, deleted |-> FALSE, val |-> 0, st |-> "none"], [next |-> 0, back |-> 0, deleted |-> FALSE, val |-> 0, st |-> "none"]>>, rec |-> <<[next |-> 0, st |-> "live", owner |-> 1, znode |-> 0], [next |-> 0, st |-> "none", owner |-> 0, znode |-> 0], [next |-> 0, st |-> "none", owner |-> 0, znode |-> 0], [next |-> 0, st |-> "none", owner |-> 0, znode |-> 0], [next |-> 0, st |-> "none", owner |-> 0, znode |-> 0], [next |-> 0, st |-> "none", owner |-> 0, znode |-> 0]>>, nnode |-> 0, nrec |-> 1],prog |-> <<<<<<1, 2, 9>>, <<3>>>>, <<<<0, 5, 8>>>>>>]),
    ([ev |-> [o |-> "zhead", t |-> 1, k |-> "cas", i |-> 1, v |-> 0, w |-> 1, u |-> 1],gh |-> [uaf |-> FALSE, dbl |-> FALSE, nulld |-> FALSE, early |-> FALSE, ref |-> <<>>, erased |-> {}, inserted |-> {}, must |-> <<{}, {}>>, badtrav |-> FALSE],th |-> <<[pc |-> "p1", op |-> 9, opi |-> 1, myrec |-> 1, exp |-> 0, cur |-> 0, n |-> 0, lastf |-> TRUE, nn |-> 0, zr |-> 0, oprev |-> 0, onext |-> 0, cached |-> 0, sawdel |-> FALSE, vis |-> <<>>, skip |-> 0, live0 |-> {}, er0 |-> {}], [pc |-> "idle", op |-> 0, opi |-> 1, myrec |-> 0, exp |-> 0, cur |-> 0, n |-> 0, lastf |-> TRUE, nn |-> 0, zr |-> 0, oprev |-> 0, onext |-> 0, cached |-> 0, sawdel |-> FALSE, vis |-> <<>>, skip |-> 0, live0 |-> {}, er0 |-> {}]>>,sh |-> [head |-> 0, tail |-> 0, zhead |-> 1, wm |-> 0, node |-> <<[next |-> 0, back |-> 0, deleted |-> FALSE, val |-> 0, st |-> "none"], [next |-> 0, back |-> 0, deleted |-> FALSE, val |-> 0, st |-> "none"]>>, rec |-> <<[next |-> 0, st |-> "live", owner |-> 1, znode |-> 0], [next |-> 0, st |-> "none", owner |-> 0, znode |-> 0], [next |-> 0, st |-> "none", owner |-> 0, znode |-> 0], [next |-> 0, st |-> "none", owner |-> 0, znode |-> 0], [next |-> 0, st |-> "none", owner |-> 0, znode |-> 0], [next |-> 0, st |-> "none", owner |-> 0, znode |-> 0]>>, nnode |-> 0, nrec |-> 1],prog |-> <<<<<<1, 2, 9>>, <<3>>>>, <<<<0, 5, 8>>>>>>]),
    ([ev |-> [o |-> "wm", t |-> 1, k |-> "mlock", i |-> 1, v |-> 0, w |-> 0],gh |-> [uaf |-> FALSE, dbl |-> FALSE, nulld |-> FALSE, early |-> FALSE, ref |-> <<>>, erased |-> {}, inserted |-> {}, must |-> <<{}, {}>>, badtrav |-> FALSE],th |-> <<[pc |-> "p6", op |-> 9, opi |-> 1, myrec |-> 1, exp |-> 0, cur |-> 0, n |-> 0, lastf |-> TRUE, nn |-> 0, zr |-> 0, oprev |-> 0, onext |-> 0, cached |-> 0, sawdel |-> FALSE, vis |-> <<>>, skip |-> 0, live0 |-> {}, er0 |-> {}], [pc |-> "idle", op |-> 0, opi |-> 1, myrec |-> 0, exp |-> 0, cur |-> 0, n |-> 0, lastf |-> TRUE, nn |-> 0, zr |-> 0, oprev |-> 0, onext |-> 0, cached |-> 0, sawdel |-> FALSE, vis |-> <<>>, skip |-> 0, live0 |-> {}, er0 |-> {}]>>,sh |-> [head |-> 0, tail |-> 0, zhead |-> 1, wm |-> 1, node |-> <<[next |-> 0, back |-> 0, deleted |-> FALSE, val |-> 0, st |-> "freed"], [next |-> 0, back |-> 0, deleted |-> FALSE, val |-> 0, st |-> "none"]>>, rec |-> <<[next |-> 0, st |-> "live", owner |-> 1, znode |-> 0], [next |-> 0, st |-> "none", owner |-> 0, znode |-> 0], [next |-> 0, st |-> "none", owner |-> 0, znode |-> 0], [next |-> 0, st |-> "none", owner |-> 0, znode |-> 0], [next |-> 0, st |-> "none", owner |-> 0, znode |-> 0], [next |-> 0, st |-> "none", owner |-> 0, znode |-> 0]>>, nnode |-> 1, nrec |-> 1],prog |-> <<<<<<1, 2, 9>>, <<3>>>>, <<<<0, 5, 8>>>>>>])
    >>
----


=============================================================================

---- CONFIG RcuListMC_TTrace_1790882035 ----
CONSTANTS
    Progs <- ConfProgs
    MaxN = 2
    MaxR = 6
    UnlinkBeforeLog = TRUE
    ScanOlder = TRUE
    NullCheck = TRUE
    EraseLocked = TRUE

INVARIANT
    _inv

CHECK_DEADLOCK
    \* CHECK_DEADLOCK off because of PROPERTY or INVARIANT above.
    FALSE

INIT
    _init

NEXT
    _next

CONSTANT
    _TETrace <- _trace

ALIAS
    _expression
=============================================================================
\* Generated on Thu Oct 01 19:13:56 UTC 2026
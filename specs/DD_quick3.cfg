SPECIFICATION Spec
CONSTANTS
  Progs <- Quick3
  Cbs = {TRUE}
  Reenters = {0, 1}
  Lockeds = {TRUE}
  Timeouts = TRUE
  CbThrows = {FALSE}
  ClearOutsideLock = TRUE
  SoleOwnerOnly = TRUE
VIEW View
INVARIANTS TypeOK DestroyedOnce NeverWhileOwned UserCodeOutsideLock CallbackFirst NoDeadlock NoLossNoDup EndState
CHECK_DEADLOCK FALSE

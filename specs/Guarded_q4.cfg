SPECIFICATION Spec
CONSTANTS
  Progs <- ThrowProgs
  Shareds = {TRUE, FALSE}
  Enableds = {TRUE}
  LoadShareds = {TRUE}
  MaxThrows = 2
  StoreLocked = TRUE
  ReadLocked = TRUE
  TryHonest = TRUE
VIEW View
INVARIANTS TypeOK Exclusive NoTornRead HandleTruth ReleaseOnce NoLeakedLock NoDeadlock TryNeverBlocks DisabledNeverWaits SharedNotBlockedByReaders NoLostUpdate 
CHECK_DEADLOCK FALSE

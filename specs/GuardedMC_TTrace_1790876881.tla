---- MODULE GuardedMC_TTrace_1790876881 ----
EXTENDS Sequences, TLCExt, GuardedMC, Toolbox, Naturals, TLC

_expression ==
    LET GuardedMC_TEExpression == INSTANCE GuardedMC_TEExpression
    IN GuardedMC_TEExpression!expression
----

_trace ==
    LET GuardedMC_TETrace == INSTANCE GuardedMC_TETrace
    IN GuardedMC_TETrace!trace
----

_inv ==
    ~(
        TLCGet("level") = Len(_TETrace)
        /\
        ev = ([t |-> 1, k |-> "call", o |-> "store", i |-> 0, v |-> 0, w |-> 0])
        /\
        th = (<<[v |-> 0, pc |-> 1, scr |-> <<<<"cb", 1>>, <<"ce", 1>>>>, op |-> 9, opi |-> 1, res |-> 0, ra |-> 0, tmp |-> 3], [v |-> 0, pc |-> 0, scr |-> <<>>, op |-> 0, opi |-> 1, res |-> 0, ra |-> 0, tmp |-> 0]>>)
        /\
        cfg = ([enabled |-> TRUE, loadshared |-> TRUE, shared |-> FALSE])
        /\
        nupd = (0)
        /\
        nid = (4)
        /\
        mx = (<<[x |-> 0, s |-> {}], [x |-> 0, s |-> {}]>>)
        /\
        cp = (<<[a |-> 0, b |-> 0], [a |-> 0, b |-> 0]>>)
        /\
        prog = (<<<<<<8, 9, 11, 12, 5, 6>>>>, <<<<8, 9, 11, 12, 5, 6>>>>>>)
        /\
        nst = (0)
        /\
        thr = (0)
    )
----

_init ==
    /\ prog = _TETrace[1].prog
    /\ nupd = _TETrace[1].nupd
    /\ mx = _TETrace[1].mx
    /\ cp = _TETrace[1].cp
    /\ ev = _TETrace[1].ev
    /\ nst = _TETrace[1].nst
    /\ th = _TETrace[1].th
    /\ nid = _TETrace[1].nid
    /\ thr = _TETrace[1].thr
    /\ cfg = _TETrace[1].cfg
----

_next ==
    /\ \E i,j \in DOMAIN _TETrace:
        /\ \/ /\ j = i + 1
              /\ i = TLCGet("level")
        /\ prog  = _TETrace[i].prog
        /\ prog' = _TETrace[j].prog
        /\ nupd  = _TETrace[i].nupd
        /\ nupd' = _TETrace[j].nupd
        /\ mx  = _TETrace[i].mx
        /\ mx' = _TETrace[j].mx
        /\ cp  = _TETrace[i].cp
        /\ cp' = _TETrace[j].cp
        /\ ev  = _TETrace[i].ev
        /\ ev' = _TETrace[j].ev
        /\ nst  = _TETrace[i].nst
        /\ nst' = _TETrace[j].nst
        /\ th  = _TETrace[i].th
        /\ th' = _TETrace[j].th
        /\ nid  = _TETrace[i].nid
        /\ nid' = _TETrace[j].nid
        /\ thr  = _TETrace[i].thr
        /\ thr' = _TETrace[j].thr
        /\ cfg  = _TETrace[i].cfg
        /\ cfg' = _TETrace[j].cfg

\* Uncomment the ASSUME below to write the states of the error trace
\* to the given file in Json format. Note that you can pass any tuple
\* to `JsonSerialize`. For example, a sub-sequence of _TETrace.
    \* ASSUME
    \*     LET J == INSTANCE Json
    \*         IN J!JsonSerialize("GuardedMC_TTrace_1790876881.json", _TETrace)

=============================================================================

 Note that you can extract this module `GuardedMC_TEExpression`
  to a dedicated file to reuse `expression` (the module in the 
  dedicated `GuardedMC_TEExpression.tla` file takes precedence 
  over the module `GuardedMC_TEExpression` below).

---- MODULE GuardedMC_TEExpression ----
EXTENDS Sequences, TLCExt, GuardedMC, Toolbox, Naturals, TLC

expression == 
    [
        \* To hide variables of the `GuardedMC` spec from the error trace,
        \* remove the variables below.  The trace will be written in the order
        \* of the fields of this record.
        prog |-> prog
        ,nupd |-> nupd
        ,mx |-> mx
        ,cp |-> cp
        ,ev |-> ev
        ,nst |-> nst
        ,th |-> th
        ,nid |-> nid
        ,thr |-> thr
        ,cfg |-> cfg
        
        \* Put additional constant-, state-, and action-level expressions here:
        \* ,_stateNumber |-> _TEPosition
        \* ,_progUnchanged |-> prog = prog'
        
        \* Format the `prog` variable as Json value.
        \* ,_progJson |->
        \*     LET J == INSTANCE Json
        \*     IN J!ToJson(prog)
        
        \* Lastly, you may build expressions over arbitrary sets of states by
        \* leveraging the _TETrace operator.  For example, this is how to
        \* count the number of times a spec variable changed up to the current
        \* state in the trace.
        \* ,_progModCount |->
        \*     LET F[s \in DOMAIN _TETrace] ==
        \*         IF s = 1 THEN 0
        \*         ELSE IF _TETrace[s].prog # _TETrace[s-1].prog
        \*             THEN 1 + F[s-1] ELSE F[s-1]
        \*     IN F[_TEPosition - 1]
    ]

=============================================================================



Parsing and semantic processing can take forever if the trace below is long.
 In this case, it is advised to uncomment the module below to deserialize the
 trace from a generated binary file.

\*
\*---- MODULE GuardedMC_TETrace ----
\*EXTENDS IOUtils, GuardedMC, TLC
\*
\*trace == IODeserialize("GuardedMC_TTrace_1790876881.bin", TRUE)
\*
\*=============================================================================
\*

---- MODULE GuardedMC_TETrace ----
EXTENDS GuardedMC, TLC

trace == 
    <<
    ([ev |-> [t |-> 0, k |-> "init", o |-> "", i |-> 0, v |-> 0, w |-> 0],th |-> <<[v |-> 0, pc |-> 0, scr |-> <<>>, op |-> 0, opi |-> 1, res |-> 0, ra |-> 0, tmp |-> 0], [v |-> 0, pc |-> 0, scr |-> <<>>, op |-> 0, opi |-> 1, res |-> 0, ra |-> 0, tmp |-> 0]>>,cfg |-> [enabled |-> TRUE, loadshared |-> TRUE, shared |-> FALSE],nupd |-> 0,nid |-> 3,mx |-> <<[x |-> 0, s |-> {}], [x |-> 0, s |-> {}]>>,cp |-> <<[a |-> 0, b |-> 0], [a |-> 0, b |-> 0]>>,prog |-> <<<<<<8, 9, 11, 12, 5, 6>>>>, <<<<8, 9, 11, 12, 5, 6>>>>>>,nst |-> 0,thr |-> 0]),
    ([ev |-> [t |-> 1, k |-> "call", o |-> "store", i |-> 0, v |-> 0, w |-> 0],th |-> <<[v |-> 0, pc |-> 1, scr |-> <<<<"cb", 1>>, <<"ce", 1>>>>, op |-> 9, opi |-> 1, res |-> 0, ra |-> 0, tmp |-> 3], [v |-> 0, pc |-> 0, scr |-> <<>>, op |-> 0, opi |-> 1, res |-> 0, ra |-> 0, tmp |-> 0]>>,cfg |-> [enabled |-> TRUE, loadshared |-> TRUE, shared |-> FALSE],nupd |-> 0,nid |-> 4,mx |-> <<[x |-> 0, s |-> {}], [x |-> 0, s |-> {}]>>,cp |-> <<[a |-> 0, b |-> 0], [a |-> 0, b |-> 0]>>,prog |-> <<<<<<8, 9, 11, 12, 5, 6>>>>, <<<<8, 9, 11, 12, 5, 6>>>>>>,nst |-> 0,thr |-> 0])
    >>
----


=============================================================================

---- CONFIG GuardedMC_TTrace_1790876881 ----
CONSTANTS
    Progs <- OrderedProgs
    Shareds = { TRUE , FALSE }
    Enableds = { TRUE }
    LoadShareds = { TRUE }
    MaxThrows = 0
    StoreLocked = FALSE
    ReadLocked = TRUE
    TryHonest = TRUE

INVARIANT
    _inv

CHECK_DEADLOCK
    \* CHECK_DEADLOCK off because of PROPERTY or INVARIANT above.
    FALSE

INIT
    _init

NEXT
    _next

CONSTANT
    _TETrace <- _trace

ALIAS
    _expression
=============================================================================
\* Generated on Thu Oct 01 17:48:02 UTC 2026
SPECIFICATION Spec
CONSTANTS
  Counts = {1, 2}
  Progs <- ConfProgs
  Spurious = TRUE
  ArriveLocked = TRUE
  WaitLoops = TRUE
  NotifyAll = TRUE
INVARIANTS TypeOK OpensOnCount NoLostWakeup ArriveDoesNotWait NoLeakedLock
CHECK_DEADLOCK FALSE

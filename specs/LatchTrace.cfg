SPECIFICATION TSpec
CONSTANTS
  Counts = {1}
  Progs = {}
  Spurious = TRUE
  ArriveLocked = TRUE
  WaitLoops = TRUE
  NotifyAll = TRUE
INVARIANTS OpensOnCount NoLeakedLock
POSTCONDITION Accepted
CHECK_DEADLOCK FALSE

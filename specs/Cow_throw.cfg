SPECIFICATION Spec
CONSTANTS
  Progs <- QuickProgs
  MaxV = 3
  CopyThrows = {1, 2}
  CopyUnderMutex = TRUE
  CancelUnlocks = TRUE
VIEW View
INVARIANTS TypeOK SnapshotValid NoTornSnapshot WriterSerial NoLostCommit RefsOK CleanEnd ReaderWaitFree NoDeadlock
PROPERTY SnapshotImmutable
CHECK_DEADLOCK FALSE

----------------------------- MODULE GuardedMon -----------------------------
(* Property monitor for the guarded family over API-level and payload events. *)
(* C01 exclusion / lost updates / deadlock, C02 reader-writer exclusion and    *)
(* reader sharing, C08 handle truth / release once / try never blocks /        *)
(* disabled mode, C20 lock released after an exception.  Texts carry the tag.  *)
EXTENDS TraceBase
VARIABLES l, en, shc, hx, hs, rwin, wwin, inop, use1, clean, nupd, nst, nthrow, blk
mv == <<en, shc, hx, hs, rwin, wwin, inop, use1, clean, nupd, nst, nthrow, blk>>
MaxT == 8
TT == 1..MaxT
ZT == [t \in 0..MaxT |-> 0]
Digits(v) == IF v <= 0 THEN 0 ELSE IF v < 8 THEN 1 ELSE IF v < 64 THEN 2 ELSE IF v < 512 THEN 3 ELSE IF v < 4096 THEN 4 ELSE IF v < 32768 THEN 5 ELSE 6
TInit == /\ l = 1 /\ en = TRUE /\ shc = FALSE /\ hx = ZT /\ hs = ZT /\ rwin = ZT /\ wwin = ZT /\ inop = [t \in 0..MaxT |-> ""] /\ use1 = [t \in 0..MaxT |-> FALSE]
         /\ clean = [t \in 0..MaxT |-> FALSE] /\ nupd = 0 /\ nst = 0 /\ nthrow = 0 /\ blk = {} /\ TLCSet(1, 0)
Viol(what) == MonViol(l, what)
TryOps == {"try_rmw", "timed_rmw", "try_shared_read", "timed_shared_read"}
SharedOps == {"shared_read", "try_shared_read", "timed_shared_read", "readf", "readf_void", "const_lock_read"}
HandleOps == {"lock_rmw", "try_rmw", "timed_rmw", "lock_rmw_unlock", "lock_move_rmw", "shared_read", "try_shared_read",
              "timed_shared_read", "handover", "const_lock_read"}
\* object (1 or 2) a payload event refers to: the wrapped cells are instances 1 and 2; temporaries have larger ids
Obj(e) == IF e.i \in {1, 2} THEN e.i ELSE IF e.u \in {1, 2} THEN e.u ELSE 0
IsWrite(e) == e.k \in {"wb", "we", "cb", "ce"} /\ e.i \in {1, 2}
Others(t) == TT \ {t}
TNext ==
    /\ l <= Len(Tr)
    /\ l' = l + 1
    /\ LET e == Tr[l]
           t == e.t IN
       CASE e.k = "reset" ->
              /\ en' = (e.p.enabled = 1) /\ shc' = (e.p.mk \in {2, 3}) /\ hx' = ZT /\ hs' = ZT /\ rwin' = ZT /\ wwin' = ZT
              /\ inop' = [u \in 0..MaxT |-> ""] /\ use1' = [u \in 0..MaxT |-> FALSE] /\ clean' = [u \in 0..MaxT |-> FALSE] /\ nupd' = 0 /\ nst' = 0 /\ nthrow' = 0 /\ blk' = {}
         [] e.k = "call" ->
              /\ inop' = [inop EXCEPT ![t] = e.o] /\ use1' = [use1 EXCEPT ![t] = TRUE]
              \* clean[t]: from this call on, no other thread may have been using object 1
              /\ clean' = [u \in 0..MaxT |-> IF u = t THEN \A x \in Others(t) : ~use1[x] ELSE FALSE]
              /\ UNCHANGED <<en, shc, hx, hs, rwin, wwin, nupd, nst, nthrow, blk>>
         [] e.k = "ret" ->
              /\ (e.o = "lock_rmw_unlock" /\ e.v >= 0 /\ e.w # 1) => Viol("C08: handle is not null after unlock()")
              /\ (e.o \in TryOps /\ e.v = -1 /\ en /\ clean[t]) => Viol("C08: try/timed acquisition returned a null handle although nobody else used the object during the call")
              /\ (e.o \in HandleOps /\ e.v = -1 /\ ~en) => Viol("C08: null handle with locking disabled")
              /\ inop' = [inop EXCEPT ![t] = ""] /\ use1' = [use1 EXCEPT ![t] = FALSE]
              /\ UNCHANGED <<en, shc, hx, hs, rwin, wwin, clean, nupd, nst, nthrow, blk>>
         [] e.k = "hget" /\ e.v = 1 ->
              /\ (en /\ \E u \in Others(t) : hx[u] = e.i \/ hs[u] = e.i \/ rwin[u] = e.i \/ wwin[u] = e.i)
                    => Viol("C01: exclusive handle granted while another thread is inside the object (C08: non-null without the lock)")
              /\ hx' = [hx EXCEPT ![t] = e.i]
              /\ UNCHANGED <<en, shc, hs, rwin, wwin, inop, use1, clean, nupd, nst, nthrow, blk>>
         [] e.k = "hget" /\ e.v = 0 ->
              /\ (en /\ \E u \in Others(t) : hx[u] = e.i \/ wwin[u] = e.i)
                    => Viol("C02: shared handle granted while a writer is inside the object (C08: non-null without the lock)")
              /\ (en /\ \E u \in Others(t) : hs[u] = e.i) => PrintT("MONNOTE|" \o ToString(l) \o "|shared-overlap")
              /\ hs' = [hs EXCEPT ![t] = e.i]
              /\ UNCHANGED <<en, shc, hx, rwin, wwin, inop, use1, clean, nupd, nst, nthrow, blk>>
         [] e.k = "hfree" -> use1' = [use1 EXCEPT ![t] = FALSE] /\ UNCHANGED <<en, shc, hx, hs, rwin, wwin, inop, clean, nupd, nst, nthrow, blk>>
         [] e.k = "hrel" ->
              /\ hx' = IF e.v = 1 /\ hx[t] = e.i THEN [hx EXCEPT ![t] = 0] ELSE hx
              /\ hs' = IF e.v = 0 THEN [hs EXCEPT ![t] = 0] ELSE hs
              /\ UNCHANGED <<en, shc, rwin, wwin, inop, use1, clean, nupd, nst, nthrow, blk>>
         [] e.k \in {"rb", "kb", "wb", "cb"} /\ Obj(e) # 0 ->
              LET o == Obj(e) IN
              /\ (en /\ \E u \in Others(t) : hx[u] = o) => Viol("C01: a thread accesses the object while another holds an exclusive handle")
              /\ (en /\ IsWrite(e) /\ \E u \in Others(t) : hs[u] = o) => Viol("C02: a modification runs while a shared handle is alive")
              /\ (en /\ \E u \in Others(t) : wwin[u] = o) => Viol("C01: access overlaps a write by another thread")
              /\ (en /\ IsWrite(e) /\ \E u \in Others(t) : rwin[u] = o) => Viol("C02: a write overlaps a read by another thread")
              /\ IF IsWrite(e) THEN wwin' = [wwin EXCEPT ![t] = o] /\ rwin' = rwin
                               ELSE rwin' = [rwin EXCEPT ![t] = o] /\ wwin' = wwin
              /\ UNCHANGED <<en, shc, hx, hs, inop, use1, clean, nupd, nst, nthrow, blk>>
         [] e.k \in {"re", "ke", "we", "ce"} /\ Obj(e) # 0 ->
              /\ (e.k = "re" /\ en /\ nthrow = 0 /\ e.v # e.w) => Viol("C01: torn read")
              /\ rwin' = [rwin EXCEPT ![t] = 0] /\ wwin' = [wwin EXCEPT ![t] = 0]
              /\ nupd' = IF e.k = "we" THEN nupd + 1 ELSE nupd
              /\ nst' = IF e.k = "ce" THEN nst + 1 ELSE nst
              /\ UNCHANGED <<en, shc, hx, hs, inop, use1, clean, nthrow, blk>>
         [] e.k = "throw" ->
              /\ nthrow' = nthrow + 1 /\ rwin' = [rwin EXCEPT ![t] = 0] /\ wwin' = [wwin EXCEPT ![t] = 0]
              /\ UNCHANGED <<en, shc, hx, hs, inop, use1, clean, nupd, nst, blk>>
         [] e.k \in {"munlock", "sunlock"} ->
              /\ (e.w = 1) => Viol("C08: a lock is released by a thread that does not own it (released twice)")
              /\ UNCHANGED mv
         [] e.k = "final" ->
              /\ (en /\ nst = 0 /\ nthrow = 0 /\ nupd <= 5 /\ Digits(e.v) + Digits(e.w) # nupd) => Viol("C01: an update made under the lock was lost")
              /\ UNCHANGED mv
         [] e.k = "starved" ->
              /\ (~en /\ inop[t] \in HandleOps) => Viol("C08: an acquisition waits although locking is disabled")
              /\ (en /\ inop[t] \in TryOps) => Viol("C08: a try/timed acquisition blocks")
              /\ (en /\ shc /\ inop[t] \in SharedOps /\ \A u \in Others(t) : inop[u] \in SharedOps \cup {""})
                    => Viol("C02: a reader is blocked merely by another reader")
              /\ UNCHANGED mv
         [] e.k = "blocked" -> blk' = blk \cup {t} /\ UNCHANGED <<en, shc, hx, hs, rwin, wwin, inop, use1, clean, nupd, nst, nthrow>>
         [] e.k = "deadlock" ->
              /\ Viol(IF nthrow > 0 THEN "C20: the lock is still held after user code threw (C01: leaked lock / deadlock)"
                                    ELSE "C01: deadlock - a blocked acquirer never proceeds (C08: lock not released)")
              /\ UNCHANGED mv
         [] e.k \in {"crash", "terminate"} -> Viol("C01: crash") /\ UNCHANGED mv
         [] OTHER -> UNCHANGED mv
    /\ Mark(l)
TSpec == TInit /\ [][TNext]_<<l, mv>>
Accepted == IF TLCGet(1) = Len(Tr) THEN TRUE ELSE Rejected(TLCGet(1) + 1)
=============================================================================

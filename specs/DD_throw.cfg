SPECIFICATION Spec
CONSTANTS
  Progs <- QuickProgs
  Cbs = {TRUE, FALSE}
  Reenters = {0, 1}
  Lockeds = {TRUE}
  Timeouts = TRUE
  CbThrows = {TRUE}
  ClearOutsideLock = TRUE
  SoleOwnerOnly = TRUE
VIEW View
INVARIANTS TypeOK DestroyedOnce NeverWhileOwned UserCodeOutsideLock CallbackFirst NoDeadlock NoLossNoDup EndState
CHECK_DEADLOCK FALSE

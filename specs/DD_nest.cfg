SPECIFICATION Spec
CONSTANTS
  Progs <- QuickProgs
  Cbs = {TRUE, FALSE}
  Reenters = {3, 4}
  Lockeds = {TRUE}
  Timeouts = TRUE
  CbThrows = {FALSE}
  ClearOutsideLock = TRUE
  SoleOwnerOnly = TRUE
VIEW View
INVARIANTS TypeOK DestroyedOnce NeverWhileOwned UserCodeOutsideLock CallbackFirst NoDeadlock NoLossNoDup EndState
CHECK_DEADLOCK FALSE

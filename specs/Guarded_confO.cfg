SPECIFICATION Spec
CONSTANTS
  Progs <- ConfO
  Shareds = {TRUE}
  Enableds = {TRUE}
  LoadShareds = {TRUE}
  MaxThrows = 0
  StoreLocked = TRUE
  ReadLocked = TRUE
  TryHonest = TRUE

INVARIANTS TypeOK Exclusive NoTornRead HandleTruth ReleaseOnce NoLeakedLock NoDeadlock TryNeverBlocks DisabledNeverWaits SharedNotBlockedByReaders NoLostUpdate 
CHECK_DEADLOCK FALSE

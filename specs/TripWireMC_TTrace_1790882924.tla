---- MODULE TripWireMC_TTrace_1790882924 ----
EXTENDS Sequences, TLCExt, Toolbox, Naturals, TLC, TripWireMC

_expression ==
    LET TripWireMC_TEExpression == INSTANCE TripWireMC_TEExpression
    IN TripWireMC_TEExpression!expression
----

_trace ==
    LET TripWireMC_TETrace == INSTANCE TripWireMC_TETrace
    IN TripWireMC_TETrace!trace
----

_inv ==
    ~(
        TLCGet("level") = Len(_TETrace)
        /\
        ev = ([t |-> 1, k |-> "ast", o |-> "line1", i |-> 0, v |-> 1, w |-> 0])
        /\
        th = (<<[pc |-> "load", op |-> 21, opi |-> 1, res |-> 0], [pc |-> "idle", op |-> 0, opi |-> 1, res |-> 0], [pc |-> "idle", op |-> 0, opi |-> 1, res |-> 0]>>)
        /\
        began = (<<FALSE, FALSE, FALSE, FALSE, FALSE>>)
        /\
        line = (<<TRUE, FALSE, FALSE, FALSE, FALSE>>)
        /\
        prog = (<<<<<<1, 11, 21, 31, 41, 12, 2, 50>>>>, <<<<1, 11, 21, 31, 41, 12, 2, 50>>>>, <<<<11, 41, 12>>, <<11, 41, 12>>>>>>)
    )
----

_init ==
    /\ prog = _TETrace[1].prog
    /\ line = _TETrace[1].line
    /\ began = _TETrace[1].began
    /\ ev = _TETrace[1].ev
    /\ th = _TETrace[1].th
----

_next ==
    /\ \E i,j \in DOMAIN _TETrace:
        /\ \/ /\ j = i + 1
              /\ i = TLCGet("level")
        /\ prog  = _TETrace[i].prog
        /\ prog' = _TETrace[j].prog
        /\ line  = _TETrace[i].line
        /\ line' = _TETrace[j].line
        /\ began  = _TETrace[i].began
        /\ began' = _TETrace[j].began
        /\ ev  = _TETrace[i].ev
        /\ ev' = _TETrace[j].ev
        /\ th  = _TETrace[i].th
        /\ th' = _TETrace[j].th

\* Uncomment the ASSUME below to write the states of the error trace
\* to the given file in Json format. Note that you can pass any tuple
\* to `JsonSerialize`. For example, a sub-sequence of _TETrace.
    \* ASSUME
    \*     LET J == INSTANCE Json
    \*         IN J!JsonSerialize("TripWireMC_TTrace_1790882924.json", _TETrace)

=============================================================================

 Note that you can extract this module `TripWireMC_TEExpression`
  to a dedicated file to reuse `expression` (the module in the 
  dedicated `TripWireMC_TEExpression.tla` file takes precedence 
  over the module `TripWireMC_TEExpression` below).

---- MODULE TripWireMC_TEExpression ----
EXTENDS Sequences, TLCExt, Toolbox, Naturals, TLC, TripWireMC

expression == 
    [
        \* To hide variables of the `TripWireMC` spec from the error trace,
        \* remove the variables below.  The trace will be written in the order
        \* of the fields of this record.
        prog |-> prog
        ,line |-> line
        ,began |-> began
        ,ev |-> ev
        ,th |-> th
        
        \* Put additional constant-, state-, and action-level expressions here:
        \* ,_stateNumber |-> _TEPosition
        \* ,_progUnchanged |-> prog = prog'
        
        \* Format the `prog` variable as Json value.
        \* ,_progJson |->
        \*     LET J == INSTANCE Json
        \*     IN J!ToJson(prog)
        
        \* Lastly, you may build expressions over arbitrary sets of states by
        \* leveraging the _TETrace operator.  For example, this is how to
        \* count the number of times a spec variable changed up to the current
        \* state in the trace.
        \* ,_progModCount |->
        \*     LET F[s \in DOMAIN _TETrace] ==
        \*         IF s = 1 THEN 0
        \*         ELSE IF _TETrace[s].prog # _TETrace[s-1].prog
        \*             THEN 1 + F[s-1] ELSE F[s-1]
        \*     IN F[_TEPosition - 1]
    ]

=============================================================================



Parsing and semantic processing can take forever if the trace below is long.
 In this case, it is advised to uncomment the module below to deserialize the
 trace from a generated binary file.

\*
\*---- MODULE TripWireMC_TETrace ----
\*EXTENDS IOUtils, TLC, TripWireMC
\*
\*trace == IODeserialize("TripWireMC_TTrace_1790882924.bin", TRUE)
\*
\*=============================================================================
\*

---- MODULE TripWireMC_TETrace ----
EXTENDS TLC, TripWireMC

trace == 
    <<
    ([ev |-> [t |-> 0, k |-> "init", o |-> "", i |-> 0, v |-> 0, w |-> 0],th |-> <<[pc |-> "idle", op |-> 0, opi |-> 1, res |-> 0], [pc |-> "idle", op |-> 0, opi |-> 1, res |-> 0], [pc |-> "idle", op |-> 0, opi |-> 1, res |-> 0]>>,began |-> <<FALSE, FALSE, FALSE, FALSE, FALSE>>,line |-> <<FALSE, FALSE, FALSE, FALSE, FALSE>>,prog |-> <<<<<<1, 11, 21, 31, 41, 12, 2, 50>>>>, <<<<1, 11, 21, 31, 41, 12, 2, 50>>>>, <<<<11, 41, 12>>, <<11, 41, 12>>>>>>]),
    ([ev |-> [t |-> 1, k |-> "call", o |-> "movetrip1", i |-> 0, v |-> 0, w |-> 0],th |-> <<[pc |-> "mstore", op |-> 21, opi |-> 1, res |-> 0], [pc |-> "idle", op |-> 0, opi |-> 1, res |-> 0], [pc |-> "idle", op |-> 0, opi |-> 1, res |-> 0]>>,began |-> <<FALSE, FALSE, FALSE, FALSE, FALSE>>,line |-> <<FALSE, FALSE, FALSE, FALSE, FALSE>>,prog |-> <<<<<<1, 11, 21, 31, 41, 12, 2, 50>>>>, <<<<1, 11, 21, 31, 41, 12, 2, 50>>>>, <<<<11, 41, 12>>, <<11, 41, 12>>>>>>]),
    ([ev |-> [t |-> 1, k |-> "ast", o |-> "line1", i |-> 0, v |-> 1, w |-> 0],th |-> <<[pc |-> "load", op |-> 21, opi |-> 1, res |-> 0], [pc |-> "idle", op |-> 0, opi |-> 1, res |-> 0], [pc |-> "idle", op |-> 0, opi |-> 1, res |-> 0]>>,began |-> <<FALSE, FALSE, FALSE, FALSE, FALSE>>,line |-> <<TRUE, FALSE, FALSE, FALSE, FALSE>>,prog |-> <<<<<<1, 11, 21, 31, 41, 12, 2, 50>>>>, <<<<1, 11, 21, 31, 41, 12, 2, 50>>>>, <<<<11, 41, 12>>, <<11, 41, 12>>>>>>])
    >>
----


=============================================================================

---- CONFIG TripWireMC_TTrace_1790882924 ----
CONSTANTS
    Progs <- QuickProgs
    NullCheckInDtor = TRUE
    MoveEmpties = FALSE

INVARIANT
    _inv

CHECK_DEADLOCK
    \* CHECK_DEADLOCK off because of PROPERTY or INVARIANT above.
    FALSE

INIT
    _init

NEXT
    _next

CONSTANT
    _TETrace <- _trace

ALIAS
    _expression
=============================================================================
\* Generated on Thu Oct 01 19:28:45 UTC 2026
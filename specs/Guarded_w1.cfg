SPECIFICATION Spec
CONSTANTS
  Progs <- SharedProgs
  Shareds = {TRUE}
  Enableds = {TRUE}
  LoadShareds = {FALSE}
  MaxThrows = 0
  StoreLocked = TRUE
  ReadLocked = TRUE
  TryHonest = TRUE
VIEW View
INVARIANTS TypeOK Exclusive NoTornRead HandleTruth ReleaseOnce NoLeakedLock NoDeadlock TryNeverBlocks DisabledNeverWaits SharedNotBlockedByReaders NoLostUpdate AtMostOneSharedHolder
CHECK_DEADLOCK FALSE

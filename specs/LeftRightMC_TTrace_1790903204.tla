---- MODULE LeftRightMC_TTrace_1790903204 ----
EXTENDS Sequences, TLCExt, Toolbox, LeftRightMC, Naturals, TLC

_expression ==
    LET LeftRightMC_TEExpression == INSTANCE LeftRightMC_TEExpression
    IN LeftRightMC_TEExpression!expression
----

_trace ==
    LET LeftRightMC_TETrace == INSTANCE LeftRightMC_TETrace
    IN LeftRightMC_TETrace!trace
----

_inv ==
    ~(
        TLCGet("level") = Len(_TETrace)
        /\
        ev = ([k |-> "ald", t |-> 1, o |-> "rl", v |-> 1, w |-> 0])
        /\
        th = (<<[pc |-> "m3", op |-> 0, opi |-> 1, res |-> 0, lrl |-> TRUE, lcl |-> TRUE, c |-> 1, side |-> 0, ra |-> 0, seen |-> 0, nrd |-> 0, need |-> 0, last |-> 0, tk |-> 0], [pc |-> "idle", op |-> 0, opi |-> 1, res |-> 0, lrl |-> TRUE, lcl |-> TRUE, c |-> 1, side |-> 0, ra |-> 0, seen |-> 0, nrd |-> 0, need |-> 0, last |-> 0, tk |-> 0], [pc |-> "idle", op |-> 0, opi |-> 1, res |-> 0, lrl |-> TRUE, lcl |-> TRUE, c |-> 1, side |-> 0, ra |-> 0, seen |-> 0, nrd |-> 0, need |-> 0, last |-> 0, tk |-> 0]>>)
        /\
        sh = ([rl |-> TRUE, cl |-> TRUE, cnt |-> <<0, 0>>, wm |-> 1, cp |-> <<[b |-> 0, a |-> 0], [b |-> 0, a |-> 0]>>, thr |-> 0])
        /\
        retmax = (0)
        /\
        prog = (<<<<<<0>>>>, <<<<0>>>>, <<<<1>>>>>>)
        /\
        acq = (0)
    )
----

_init ==
    /\ prog = _TETrace[1].prog
    /\ ev = _TETrace[1].ev
    /\ sh = _TETrace[1].sh
    /\ retmax = _TETrace[1].retmax
    /\ th = _TETrace[1].th
    /\ acq = _TETrace[1].acq
----

_next ==
    /\ \E i,j \in DOMAIN _TETrace:
        /\ \/ /\ j = i + 1
              /\ i = TLCGet("level")
        /\ prog  = _TETrace[i].prog
        /\ prog' = _TETrace[j].prog
        /\ ev  = _TETrace[i].ev
        /\ ev' = _TETrace[j].ev
        /\ sh  = _TETrace[i].sh
        /\ sh' = _TETrace[j].sh
        /\ retmax  = _TETrace[i].retmax
        /\ retmax' = _TETrace[j].retmax
        /\ th  = _TETrace[i].th
        /\ th' = _TETrace[j].th
        /\ acq  = _TETrace[i].acq
        /\ acq' = _TETrace[j].acq

\* Uncomment the ASSUME below to write the states of the error trace
\* to the given file in Json format. Note that you can pass any tuple
\* to `JsonSerialize`. For example, a sub-sequence of _TETrace.
    \* ASSUME
    \*     LET J == INSTANCE Json
    \*         IN J!JsonSerialize("LeftRightMC_TTrace_1790903204.json", _TETrace)

=============================================================================

 Note that you can extract this module `LeftRightMC_TEExpression`
  to a dedicated file to reuse `expression` (the module in the 
  dedicated `LeftRightMC_TEExpression.tla` file takes precedence 
  over the module `LeftRightMC_TEExpression` below).

---- MODULE LeftRightMC_TEExpression ----
EXTENDS Sequences, TLCExt, Toolbox, LeftRightMC, Naturals, TLC

expression == 
    [
        \* To hide variables of the `LeftRightMC` spec from the error trace,
        \* remove the variables below.  The trace will be written in the order
        \* of the fields of this record.
        prog |-> prog
        ,ev |-> ev
        ,sh |-> sh
        ,retmax |-> retmax
        ,th |-> th
        ,acq |-> acq
        
        \* Put additional constant-, state-, and action-level expressions here:
        \* ,_stateNumber |-> _TEPosition
        \* ,_progUnchanged |-> prog = prog'
        
        \* Format the `prog` variable as Json value.
        \* ,_progJson |->
        \*     LET J == INSTANCE Json
        \*     IN J!ToJson(prog)
        
        \* Lastly, you may build expressions over arbitrary sets of states by
        \* leveraging the _TETrace operator.  For example, this is how to
        \* count the number of times a spec variable changed up to the current
        \* state in the trace.
        \* ,_progModCount |->
        \*     LET F[s \in DOMAIN _TETrace] ==
        \*         IF s = 1 THEN 0
        \*         ELSE IF _TETrace[s].prog # _TETrace[s-1].prog
        \*             THEN 1 + F[s-1] ELSE F[s-1]
        \*     IN F[_TEPosition - 1]
    ]

=============================================================================



Parsing and semantic processing can take forever if the trace below is long.
 In this case, it is advised to uncomment the module below to deserialize the
 trace from a generated binary file.

\*
\*---- MODULE LeftRightMC_TETrace ----
\*EXTENDS IOUtils, LeftRightMC, TLC
\*
\*trace == IODeserialize("LeftRightMC_TTrace_1790903204.bin", TRUE)
\*
\*=============================================================================
\*

---- MODULE LeftRightMC_TETrace ----
EXTENDS LeftRightMC, TLC

trace == 
    <<
    ([ev |-> [k |-> "init", t |-> 0, o |-> "", v |-> 0, w |-> 0],th |-> <<[pc |-> "idle", op |-> 0, opi |-> 1, res |-> 0, lrl |-> TRUE, lcl |-> TRUE, c |-> 1, side |-> 0, ra |-> 0, seen |-> 0, nrd |-> 0, need |-> 0, last |-> 0, tk |-> 0], [pc |-> "idle", op |-> 0, opi |-> 1, res |-> 0, lrl |-> TRUE, lcl |-> TRUE, c |-> 1, side |-> 0, ra |-> 0, seen |-> 0, nrd |-> 0, need |-> 0, last |-> 0, tk |-> 0], [pc |-> "idle", op |-> 0, opi |-> 1, res |-> 0, lrl |-> TRUE, lcl |-> TRUE, c |-> 1, side |-> 0, ra |-> 0, seen |-> 0, nrd |-> 0, need |-> 0, last |-> 0, tk |-> 0]>>,sh |-> [rl |-> TRUE, cl |-> TRUE, cnt |-> <<0, 0>>, wm |-> 0, cp |-> <<[b |-> 0, a |-> 0], [b |-> 0, a |-> 0]>>, thr |-> 0],retmax |-> 0,prog |-> <<<<<<0>>>>, <<<<0>>>>, <<<<1>>>>>>,acq |-> 0]),
    ([ev |-> [k |-> "call", t |-> 1, o |-> "modify", v |-> 0, w |-> 0],th |-> <<[pc |-> "m1", op |-> 0, opi |-> 1, res |-> 0, lrl |-> TRUE, lcl |-> TRUE, c |-> 1, side |-> 0, ra |-> 0, seen |-> 0, nrd |-> 0, need |-> 0, last |-> 0, tk |-> 0], [pc |-> "idle", op |-> 0, opi |-> 1, res |-> 0, lrl |-> TRUE, lcl |-> TRUE, c |-> 1, side |-> 0, ra |-> 0, seen |-> 0, nrd |-> 0, need |-> 0, last |-> 0, tk |-> 0], [pc |-> "idle", op |-> 0, opi |-> 1, res |-> 0, lrl |-> TRUE, lcl |-> TRUE, c |-> 1, side |-> 0, ra |-> 0, seen |-> 0, nrd |-> 0, need |-> 0, last |-> 0, tk |-> 0]>>,sh |-> [rl |-> TRUE, cl |-> TRUE, cnt |-> <<0, 0>>, wm |-> 0, cp |-> <<[b |-> 0, a |-> 0], [b |-> 0, a |-> 0]>>, thr |-> 0],retmax |-> 0,prog |-> <<<<<<0>>>>, <<<<0>>>>, <<<<1>>>>>>,acq |-> 0]),
    ([ev |-> [k |-> "mlock", t |-> 1, o |-> "wm", v |-> 0, w |-> 0],th |-> <<[pc |-> "m2", op |-> 0, opi |-> 1, res |-> 0, lrl |-> TRUE, lcl |-> TRUE, c |-> 1, side |-> 0, ra |-> 0, seen |-> 0, nrd |-> 0, need |-> 0, last |-> 0, tk |-> 0], [pc |-> "idle", op |-> 0, opi |-> 1, res |-> 0, lrl |-> TRUE, lcl |-> TRUE, c |-> 1, side |-> 0, ra |-> 0, seen |-> 0, nrd |-> 0, need |-> 0, last |-> 0, tk |-> 0], [pc |-> "idle", op |-> 0, opi |-> 1, res |-> 0, lrl |-> TRUE, lcl |-> TRUE, c |-> 1, side |-> 0, ra |-> 0, seen |-> 0, nrd |-> 0, need |-> 0, last |-> 0, tk |-> 0]>>,sh |-> [rl |-> TRUE, cl |-> TRUE, cnt |-> <<0, 0>>, wm |-> 1, cp |-> <<[b |-> 0, a |-> 0], [b |-> 0, a |-> 0]>>, thr |-> 0],retmax |-> 0,prog |-> <<<<<<0>>>>, <<<<0>>>>, <<<<1>>>>>>,acq |-> 0]),
    ([ev |-> [k |-> "ald", t |-> 1, o |-> "rl", v |-> 1, w |-> 0],th |-> <<[pc |-> "m3", op |-> 0, opi |-> 1, res |-> 0, lrl |-> TRUE, lcl |-> TRUE, c |-> 1, side |-> 0, ra |-> 0, seen |-> 0, nrd |-> 0, need |-> 0, last |-> 0, tk |-> 0], [pc |-> "idle", op |-> 0, opi |-> 1, res |-> 0, lrl |-> TRUE, lcl |-> TRUE, c |-> 1, side |-> 0, ra |-> 0, seen |-> 0, nrd |-> 0, need |-> 0, last |-> 0, tk |-> 0], [pc |-> "idle", op |-> 0, opi |-> 1, res |-> 0, lrl |-> TRUE, lcl |-> TRUE, c |-> 1, side |-> 0, ra |-> 0, seen |-> 0, nrd |-> 0, need |-> 0, last |-> 0, tk |-> 0]>>,sh |-> [rl |-> TRUE, cl |-> TRUE, cnt |-> <<0, 0>>, wm |-> 1, cp |-> <<[b |-> 0, a |-> 0], [b |-> 0, a |-> 0]>>, thr |-> 0],retmax |-> 0,prog |-> <<<<<<0>>>>, <<<<0>>>>, <<<<1>>>>>>,acq |-> 0])
    >>
----


=============================================================================

---- CONFIG LeftRightMC_TTrace_1790903204 ----
CONSTANTS
    Progs <- LiveProgs
    MaxThrows = 0
    Drain1 = TRUE
    Drain2 = TRUE
    RegisterFirst = TRUE
    WriterMutex = TRUE

INVARIANT
    _inv

CHECK_DEADLOCK
    \* CHECK_DEADLOCK off because of PROPERTY or INVARIANT above.
    FALSE

INIT
    _init

NEXT
    _next

CONSTANT
    _TETrace <- _trace

ALIAS
    _expression
=============================================================================
\* Generated on Fri Oct 02 01:06:45 UTC 2026
SPECIFICATION Spec
CONSTANTS
  Progs <- Quick3
  Shareds = {TRUE}
  MaxThrows = 0
  PushBeforeFlag = TRUE
  DrainNeedsLock = TRUE
  DrainFifo = TRUE
VIEW View
INVARIANTS TypeOK AtMostOnce Exclusive NoTornRead Order NoStranding NoLoss NoLeakedLock NoDeadlock TryNeverBlocks
CHECK_DEADLOCK FALSE

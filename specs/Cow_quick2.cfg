SPECIFICATION Spec
CONSTANTS
  Progs <- Quick2
  MaxV = 3
  CopyThrows = {0}
  CopyUnderMutex = TRUE
  CancelUnlocks = TRUE
VIEW View
INVARIANTS TypeOK SnapshotValid NoTornSnapshot WriterSerial NoLostCommit RefsOK CleanEnd ReaderWaitFree NoDeadlock
PROPERTY SnapshotImmutable
CHECK_DEADLOCK FALSE

----------------------------- MODULE CowGuarded -----------------------------
(***************************************************************************)
(* gmlc::libguarded::cow_guarded<T> = lr_guarded<shared_ptr<const T>> +     *)
(* a writer mutex (cow_guarded.hpp over lr_guarded.hpp).                    *)
(*  lock():   lock cw; inner read section (cl.load, cnt++, rl.load);        *)
(*            deep copy of the committed value (copy window: kb, ke); cnt-- ; handle returned  *)
(*  release:  shared_ptr newPtr(ptr); m_data.modify(slot = newPtr) - the    *)
(*            whole left-right writer protocol, slot assignment twice -;    *)
(*            unlock cw.   cancel(): unlock cw; delete the private copy     *)
(*  lock_shared(): inner read section, copy the slot's shared_ptr, cnt--    *)
(* Versions are payload instances (Cell ids) with reference counts; the     *)
(* uninstrumented shared_ptr operations belong to the step after which they *)
(* run; a version whose count drops to zero is destroyed (a dtor step).     *)
(* A committed modification with digit d maps the value v to 8v+d.          *)
(***************************************************************************)
EXTENDS Naturals, Integers, Sequences, FiniteSets, TLC

CONSTANTS Progs, MaxV,
          CopyThrows,       \* set of Nat: how many copy constructions of the payload may throw (C20); {0} in the C04 configurations
          CopyUnderMutex,   \* knob: lock() copies the committed value after taking the writer mutex (code as read)
          CancelUnlocks     \* knob: cancel() releases the writer mutex (code as read)

VARIABLES prog, sh, ver, th, gh, ev
vars == <<prog, sh, ver, th, gh, ev>>
View == <<prog, sh, ver, th, gh>>

\* write_move_stale_cancel: the handle is moved, cancel() is called on the moved-from (empty) handle - a no-op - and the new handle commits
OpName == <<"write_commit", "write_cancel", "write_move_commit", "snap_read", "snap_hold", "try_snap", "write_move_stale_cancel">>
Threads == 1..Len(prog)
NoEv == [t |-> 0, k |-> "init", o |-> "", i |-> 0, v |-> 0, w |-> 0]
E(t, k, o, i, v, w) == [t |-> t, k |-> k, o |-> o, i |-> i, v |-> v, w |-> w]
B(b) == IF b THEN 1 ELSE 0
Enc(x, y) == IF x = y THEN x ELSE 0 - (x * 1000 + y) - 1
F(d, v) == IF v < 0 \/ v >= 32768 THEN d ELSE 8 * v + d
CntName == <<"cntL", "cntR">>
Digit(t) == 2 * (t - 1) + th[t].opi

Ver0 == [a |-> 0, b |-> 0, refs |-> 0, alive |-> FALSE, committed |-> FALSE]
Th0 == [pc |-> "idle", op |-> 0, opi |-> 1, res |-> 0, c |-> 1, side |-> 1, lrl |-> TRUE, lcl |-> TRUE, n |-> 0, snap |-> 0, ra |-> 0,
        nrd |-> 0, first |-> 0, dying |-> 0, after |-> "", d |-> 0]
Init0(p, ct) == [prog |-> p,
             sh |-> [rl |-> TRUE, cl |-> TRUE, cnt |-> <<0, 0>>, lwm |-> 0, cwm |-> 0, slot |-> <<1, 1>>, nver |-> 1],
             ver |-> [i \in 1..MaxV |-> IF i = 1 THEN [a |-> 0, b |-> 0, refs |-> 2, alive |-> TRUE, committed |-> TRUE] ELSE Ver0],
             th |-> [t \in 1..Len(p) |-> Th0],
             gh |-> [ncommit |-> 0, bad |-> FALSE, latest |-> 0, tleft |-> ct],
             ev |-> NoEv]
InitWith(p, ct) == LET z == Init0(p, ct) IN prog = z.prog /\ sh = z.sh /\ ver = z.ver /\ th = z.th /\ gh = z.gh /\ ev = z.ev
ResetTo(p, ct) == LET z == Init0(p, ct) IN prog' = z.prog /\ sh' = z.sh /\ ver' = z.ver /\ th' = z.th /\ gh' = z.gh /\ ev' = z.ev
Init == \E p \in Progs, ct \in CopyThrows : InitWith(p, ct)

Do(t, from, guard, sh2, ver2, th2, gh2, e) ==
    /\ th[t].pc = from /\ guard
    /\ sh' = sh2 /\ ver' = ver2 /\ th' = [th EXCEPT ![t] = th2] /\ gh' = gh2 /\ ev' = e /\ UNCHANGED prog
Pc(t, l) == [th[t] EXCEPT !.pc = l]
Inc(i, d) == [sh EXCEPT !.cnt[i] = @ + d]
\* drop one reference of version v; the caller continues at `next` unless the version dies (then a dtor step comes first)
Drop(v) == [ver EXCEPT ![v].refs = @ - 1]
Dies(v) == ver[v].refs = 1
AfterDrop(t, v, next) == IF Dies(v) THEN [th[t] EXCEPT !.pc = "dtor", !.dying = v, !.after = next] ELSE Pc(t, next)

IsWrite(o) == o \in {0, 1, 2, 6}
Call(t) ==
    /\ th[t].pc = "idle" /\ th[t].opi <= Len(prog[t])
    /\ \E j \in 1..Len(prog[t][th[t].opi]) :
         LET o == prog[t][th[t].opi][j] IN
         /\ th' = [th EXCEPT ![t] = [Th0 EXCEPT !.opi = th[t].opi, !.op = o, !.d = IF IsWrite(o) THEN Digit(t) ELSE 0,
                                                !.pc = IF IsWrite(o) THEN (IF CopyUnderMutex THEN "c1" ELSE "c2") ELSE "r1"]]
         /\ ev' = E(t, "call", OpName[o + 1], 0, IF IsWrite(o) THEN Digit(t) ELSE 0, 0)
    /\ UNCHANGED <<prog, sh, ver, gh>>
Ret(t) ==
    /\ th[t].pc = "ret"
    /\ th' = [th EXCEPT ![t] = [@ EXCEPT !.pc = "idle", !.opi = @ + 1]]
    /\ ev' = E(t, "ret", OpName[th[t].op + 1], 0, th[t].res, 0)
    /\ UNCHANGED <<prog, sh, ver, gh>>

\* destruction of a version whose last reference went away (the payload's destructor is user code: a step)
Dtor(t) == LET v == th[t].dying IN
    Do(t, "dtor", TRUE, sh, [ver EXCEPT ![v].alive = FALSE, ![v].refs = 0], Pc(t, th[t].after), gh, E(t, "dtor", "cell", v, ver[v].a, 0))

\* ---- writer ---------------------------------------------------------------------------------------
Writer(t) == LET n == th[t].n
                 d == th[t].d IN
    \/ Do(t, "c1", sh.cwm = 0, [sh EXCEPT !.cwm = t], ver, Pc(t, IF CopyUnderMutex THEN "c2" ELSE "c8"), gh, E(t, "mlock", "cw", 1, 0, 0))
    \* inner read section + deep copy
    \/ Do(t, "c2", TRUE, sh, ver, [th[t] EXCEPT !.pc = "c3", !.c = IF sh.cl THEN 1 ELSE 2], gh, E(t, "ald", "cl", 1, B(sh.cl), 0))
    \/ Do(t, "c3", TRUE, Inc(th[t].c, 1), ver, Pc(t, "c4"), gh, E(t, "arm", CntName[th[t].c], 1, sh.cnt[th[t].c], sh.cnt[th[t].c] + 1))
    \* the copy constructor is entered right after the side flag is read: the new version gets its id here
    \/ Do(t, "c4", sh.nver < MaxV, [sh EXCEPT !.nver = @ + 1], [ver EXCEPT ![sh.nver + 1] = [Ver0 EXCEPT !.alive = TRUE, !.refs = 1]],
          [th[t] EXCEPT !.pc = "c5", !.side = IF sh.rl THEN 1 ELSE 2, !.n = sh.nver + 1, !.snap = sh.slot[IF sh.rl THEN 1 ELSE 2]], gh,
          E(t, "ald", "rl", 1, B(sh.rl), 0))
    \/ Do(t, "c5", TRUE, sh, [ver EXCEPT ![n].a = ver[th[t].snap].a], Pc(t, "c6"),
          [gh EXCEPT !.bad = @ \/ ~ver[th[t].snap].alive], E(t, "kb", "cell", n, ver[th[t].snap].a, 0))
    \* C20: the payload's copy constructor throws (before it copied anything): the half-built version is gone, lock() unwinds -
    \* the inner read section is left, the writer mutex released - and the caller gets the exception
    \/ Do(t, "c5", gh.tleft > 0, sh, [ver EXCEPT ![n].alive = FALSE, ![n].refs = 0], Pc(t, "t1"), [gh EXCEPT !.tleft = @ - 1],
          E(t, "throw", "cell", n, 0, 2))
    \/ Do(t, "t1", TRUE, Inc(th[t].c, -1), ver, Pc(t, "t2"), gh, E(t, "arm", CntName[th[t].c], 1, sh.cnt[th[t].c], sh.cnt[th[t].c] - 1))
    \/ Do(t, "t2", TRUE, [sh EXCEPT !.cwm = 0], ver, [th[t] EXCEPT !.pc = "ret", !.res = -2], gh, E(t, "munlock", "cw", 1, 0, 0))
    \/ Do(t, "c6", TRUE, sh, [ver EXCEPT ![n].b = ver[th[t].snap].b], Pc(t, "c7"),
          [gh EXCEPT !.bad = @ \/ ~ver[th[t].snap].alive], E(t, "ke", "cell", n, ver[th[t].snap].b, 0))
    \/ Do(t, "c7", TRUE, Inc(th[t].c, -1), ver, Pc(t, IF CopyUnderMutex THEN "c8" ELSE "c1"), gh,
          E(t, "arm", CntName[th[t].c], 1, sh.cnt[th[t].c], sh.cnt[th[t].c] - 1))
    \* the user modifies the private copy through the handle
    \/ Do(t, "c8", TRUE, sh, [ver EXCEPT ![n].a = F(d, ver[n].a)], Pc(t, "c9"), gh, E(t, "wb", "cell", n, ver[n].a, F(d, ver[n].a)))
    \/ Do(t, "c9", TRUE, sh, [ver EXCEPT ![n].b = F(d, ver[n].b)], [th[t] EXCEPT !.pc = IF th[t].op = 1 THEN (IF CancelUnlocks THEN "x1" ELSE "dtor") ELSE "m1", !.res = IF th[t].op = 1 THEN -1 ELSE ver[n].a,
                        !.dying = IF th[t].op = 1 THEN n ELSE 0, !.after = "ret"], gh,
          E(t, "we", "cell", n, F(d, ver[n].b), 0))
    \* cancel(): unlock, then delete the private copy
    \/ Do(t, "x1", CancelUnlocks, [sh EXCEPT !.cwm = 0], ver, [th[t] EXCEPT !.pc = "dtor", !.dying = n, !.after = "ret", !.res = -1], gh,
          E(t, "munlock", "cw", 1, 0, 0))
    \* commit: the deleter wraps the copy (newPtr + lambda capture = 2 references) and runs lr_guarded::modify
    \/ Do(t, "m1", sh.lwm = 0, [sh EXCEPT !.lwm = t], [ver EXCEPT ![n].refs = 2, ![n].committed = TRUE], Pc(t, "m2"), gh, E(t, "mlock", "wm", 1, 0, 0))
    \* rl.load, then the first slot assignment (uninstrumented shared_ptr assignment)
    \/ LET f == IF sh.rl THEN 2 ELSE 1
           old == sh.slot[f] IN
       Do(t, "m2", TRUE, [sh EXCEPT !.slot[f] = n], [Drop(old) EXCEPT ![n].refs = ver[n].refs + 1],
          [AfterDrop(t, old, "m5") EXCEPT !.lrl = sh.rl, !.first = f], gh, E(t, "ald", "rl", 1, B(sh.rl), 0))
    \/ Do(t, "m5", TRUE, [sh EXCEPT !.rl = ~th[t].lrl], ver, Pc(t, "m6"), gh, E(t, "ast", "rl", 1, B(~th[t].lrl), 0))
    \/ Do(t, "m6", TRUE, sh, ver, [th[t] EXCEPT !.pc = "m7", !.lcl = sh.cl], gh, E(t, "ald", "cl", 1, B(sh.cl), 0))
    \/ LET i == IF th[t].lcl THEN 2 ELSE 1 IN
       Do(t, "m7", TRUE, sh, ver, Pc(t, IF sh.cnt[i] # 0 THEN "m7y" ELSE "m8"), gh, E(t, "ald", CntName[i], 1, sh.cnt[i], 0))
    \/ Do(t, "m7y", TRUE, sh, ver, Pc(t, "m7"), gh, E(t, "yield", "", 0, 0, 0))
    \/ Do(t, "m8", TRUE, [sh EXCEPT !.cl = ~th[t].lcl], ver, Pc(t, "m9"), gh, E(t, "ast", "cl", 1, B(~th[t].lcl), 0))
    \* second drain; when it ends the second slot is assigned in the same segment
    \/ LET i == IF th[t].lcl THEN 1 ELSE 2
           s == 3 - th[t].first
           old == sh.slot[s] IN
       \/ Do(t, "m9", sh.cnt[i] # 0, sh, ver, Pc(t, "m9y"), gh, E(t, "ald", CntName[i], 1, sh.cnt[i], 0))
       \/ Do(t, "m9", sh.cnt[i] = 0, [sh EXCEPT !.slot[s] = n], [Drop(old) EXCEPT ![n].refs = ver[n].refs + 1],
             AfterDrop(t, old, "m12"), [gh EXCEPT !.ncommit = @ + 1, !.latest = n], E(t, "ald", CntName[i], 1, 0, 0))
    \/ Do(t, "m9y", TRUE, sh, ver, Pc(t, "m9"), gh, E(t, "yield", "", 0, 0, 0))
    \* unlock lr mutex; the lambda and newPtr go away (two references less), unlock the cow mutex
    \/ Do(t, "m12", TRUE, [sh EXCEPT !.lwm = 0], [ver EXCEPT ![n].refs = @ - 2], Pc(t, "m13"), gh, E(t, "munlock", "wm", 1, 0, 0))
    \/ Do(t, "m13", TRUE, [sh EXCEPT !.cwm = 0], ver, Pc(t, "ret"), gh, E(t, "munlock", "cw", 1, 0, 0))

\* ---- reader: snapshot -------------------------------------------------------------------------------
Reader(t) == LET v == th[t].snap IN
    \/ Do(t, "r1", TRUE, sh, ver, [th[t] EXCEPT !.pc = "r2", !.c = IF sh.cl THEN 1 ELSE 2], gh, E(t, "ald", "cl", 1, B(sh.cl), 0))
    \/ Do(t, "r2", TRUE, Inc(th[t].c, 1), ver, Pc(t, "r3"), gh, E(t, "arm", CntName[th[t].c], 1, sh.cnt[th[t].c], sh.cnt[th[t].c] + 1))
    \* rl.load, then the shared_ptr copy of the slot
    \/ LET s == IF sh.rl THEN 1 ELSE 2 IN
       Do(t, "r3", TRUE, sh, [ver EXCEPT ![sh.slot[s]].refs = @ + 1], [th[t] EXCEPT !.pc = "r4", !.snap = sh.slot[s]],
          [gh EXCEPT !.bad = @ \/ ~ver[sh.slot[s]].alive], E(t, "ald", "rl", 1, B(sh.rl), 0))
    \/ Do(t, "r4", TRUE, Inc(th[t].c, -1), ver, Pc(t, "r5"), gh, E(t, "arm", CntName[th[t].c], 1, sh.cnt[th[t].c], sh.cnt[th[t].c] - 1))
    \/ Do(t, "r5", TRUE, sh, ver, [th[t] EXCEPT !.pc = "r6", !.ra = ver[v].a], [gh EXCEPT !.bad = @ \/ ~ver[v].alive], E(t, "rb", "cell", v, ver[v].a, 0))
    \* second word; after the last read the snapshot is released in the same segment: its version may die here
    \/ LET last == ~(th[t].op = 4 /\ th[t].nrd = 0)
           val == Enc(th[t].ra, ver[v].b)
           r2 == [th[t] EXCEPT !.nrd = @ + 1, !.res = IF th[t].nrd = 0 THEN val ELSE (IF val = th[t].res THEN @ ELSE -1)] IN
       /\ th[t].pc = "r6"
       /\ sh' = sh /\ ver' = (IF last THEN Drop(v) ELSE ver)
       /\ th' = [th EXCEPT ![t] = IF ~last THEN [r2 EXCEPT !.pc = "r5"]
                                  ELSE IF Dies(v) THEN [r2 EXCEPT !.pc = "dtor", !.dying = v, !.after = "ret"] ELSE [r2 EXCEPT !.pc = "ret"]]
       /\ gh' = [gh EXCEPT !.bad = @ \/ ~ver[v].alive] /\ ev' = E(t, "re", "cell", v, th[t].ra, ver[v].b) /\ UNCHANGED prog

Step(t) == Call(t) \/ Ret(t) \/ Dtor(t) \/ Writer(t) \/ Reader(t)
Next == \E t \in Threads : Step(t)
Spec == Init /\ [][Next]_vars
FairSpec == Spec /\ \A t \in 1..4 : WF_vars(t \in Threads /\ Step(t))
-----------------------------------------------------------------------------
AllDone == \A t \in Threads : th[t].pc = "idle" /\ th[t].opi > Len(prog[t])
Holding(t) == th[t].pc \in {"r4", "r5", "r6"}
TypeOK == sh.cwm \in 0..Len(prog) /\ sh.lwm \in 0..Len(prog) /\ \A v \in 1..MaxV : ver[v].refs \in 0..8
\* C04: a held snapshot (and the version a writer copies from) is alive
SnapshotValid == ~gh.bad /\ \A t \in Threads : Holding(t) => ver[th[t].snap].alive
\* C04: a committed version never changes
SnapshotImmutable == [][\A v \in 1..MaxV : (ver[v].committed /\ ver'[v].alive) => (ver'[v].a = ver[v].a /\ ver'[v].b = ver[v].b)]_vars
NoTornSnapshot == \A t \in Threads : (th[t].pc = "ret" /\ th[t].op \in {3, 4, 5}) => th[t].res >= 0
\* C04: writers are serialised from lock() to release
InWrite(t) == th[t].pc \in {"c8", "c9", "x1", "m1", "m2", "m5", "m6", "m7", "m7y", "m8", "m9", "m9y", "m12", "m13"}
                \/ (CopyUnderMutex /\ th[t].pc \in {"c2", "c3", "c4", "c5", "c6", "c7", "t1", "t2"})
WriterSerial == Cardinality({t \in Threads : InWrite(t)}) <= 1
\* C04: no lost update: when nobody is writing both slots hold the latest commit, whose value consists of exactly the commits
Digits(v) == IF v <= 0 THEN 0 ELSE IF v < 8 THEN 1 ELSE IF v < 64 THEN 2 ELSE IF v < 512 THEN 3 ELSE IF v < 4096 THEN 4 ELSE 5
NoLostCommit == (\A t \in Threads : ~InWrite(t) /\ th[t].pc \notin {"c1", "dtor"}) =>
                   (sh.slot[1] = sh.slot[2] /\ Digits(ver[sh.slot[1]].a) = gh.ncommit /\ ver[sh.slot[1]].a = ver[sh.slot[1]].b)
\* C04: reference counts: a live version is referenced, a dead one is not
RefsOK == \A v \in 1..sh.nver : (ver[v].alive => ver[v].refs >= 1) \/ \E t \in Threads : th[t].pc = "dtor" /\ th[t].dying = v
\* C04: at the end everything but the committed version is destroyed, the writer lock is free
CleanEnd == AllDone => (sh.cwm = 0 /\ sh.lwm = 0 /\ \A v \in 1..sh.nver : ver[v].alive <=> v = sh.slot[1])
\* C14: snapshot acquisition never waits
ReaderWaitFree == \A t \in Threads : th[t].pc \in {"r1", "r2", "r3", "r4"} => ENABLED Reader(t)
NoDeadlock == (\A t \in Threads : ~ENABLED Step(t)) => AllDone
Termination == <>AllDone
=============================================================================

SPECIFICATION Spec
CONSTANTS
  Progs <- ConfLD
  Wraps = {4}
  Shareds = {TRUE}
  ExchangeReturnsOld = TRUE
  CasReportsCurrent = TRUE
INVARIANTS TypeOK Linearizable NoTornLoad NoDeadlock
CHECK_DEADLOCK FALSE

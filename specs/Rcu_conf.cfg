SPECIFICATION Spec
CONSTANTS
  Progs <- ConfProgs
  MaxN = 2
  MaxR = 6
  UnlinkBeforeLog = TRUE
  ScanOlder = TRUE
  NullCheck = TRUE
  EraseLocked = TRUE
INVARIANTS TypeOK NoUseAfterFree NoPrematureFree ExactlyOnce OnlyConstructedDestroyed HandlesOnlyFreeRecords TraversalsConsistent FinalContents WritersOneAtATime ReaderNeverBlocked DtorFreesAll
CHECK_DEADLOCK FALSE

SPECIFICATION Spec
CONSTANTS
  Progs <- SeqProgs
  Cbs = {TRUE}
  Reenters = {0}
  Lockeds = {FALSE}
  Timeouts = TRUE
  CbThrows = {FALSE}
  ClearOutsideLock = TRUE
  SoleOwnerOnly = TRUE

INVARIANTS TypeOK DestroyedOnce NeverWhileOwned UserCodeOutsideLock CallbackFirst NoDeadlock NoLossNoDup EndState
CHECK_DEADLOCK FALSE

---- MODULE HolderMon_TTrace_1790894539 ----
EXTENDS Sequences, TLCExt, Toolbox, Naturals, TLC, HolderMon

_expression ==
    LET HolderMon_TEExpression == INSTANCE HolderMon_TEExpression
    IN HolderMon_TEExpression!expression
----

_trace ==
    LET HolderMon_TETrace == INSTANCE HolderMon_TETrace
    IN HolderMon_TETrace!trace
----

_inv ==
    ~(
        TLCGet("level") = Len(_TETrace)
        /\
        lin = ()
        /\
        ops = ()
        /\
        thrown = ()
        /\
        l = (20)
    )
----

_init ==
    /\ thrown = _TETrace[1].thrown
    /\ l = _TETrace[1].l
    /\ lin = _TETrace[1].lin
    /\ ops = _TETrace[1].ops
----

_next ==
    /\ \E i,j \in DOMAIN _TETrace:
        /\ \/ /\ j = i + 1
              /\ i = TLCGet("level")
        /\ thrown  = _TETrace[i].thrown
        /\ thrown' = _TETrace[j].thrown
        /\ l  = _TETrace[i].l
        /\ l' = _TETrace[j].l
        /\ lin  = _TETrace[i].lin
        /\ lin' = _TETrace[j].lin
        /\ ops  = _TETrace[i].ops
        /\ ops' = _TETrace[j].ops

\* Uncomment the ASSUME below to write the states of the error trace
\* to the given file in Json format. Note that you can pass any tuple
\* to `JsonSerialize`. For example, a sub-sequence of _TETrace.
    \* ASSUME
    \*     LET J == INSTANCE Json
    \*         IN J!JsonSerialize("HolderMon_TTrace_1790894539.json", _TETrace)

=============================================================================

 Note that you can extract this module `HolderMon_TEExpression`
  to a dedicated file to reuse `expression` (the module in the 
  dedicated `HolderMon_TEExpression.tla` file takes precedence 
  over the module `HolderMon_TEExpression` below).

---- MODULE HolderMon_TEExpression ----
EXTENDS Sequences, TLCExt, Toolbox, Naturals, TLC, HolderMon

expression == 
    [
        \* To hide variables of the `HolderMon` spec from the error trace,
        \* remove the variables below.  The trace will be written in the order
        \* of the fields of this record.
        thrown |-> thrown
        ,l |-> l
        ,lin |-> lin
        ,ops |-> ops
        
        \* Put additional constant-, state-, and action-level expressions here:
        \* ,_stateNumber |-> _TEPosition
        \* ,_thrownUnchanged |-> thrown = thrown'
        
        \* Format the `thrown` variable as Json value.
        \* ,_thrownJson |->
        \*     LET J == INSTANCE Json
        \*     IN J!ToJson(thrown)
        
        \* Lastly, you may build expressions over arbitrary sets of states by
        \* leveraging the _TETrace operator.  For example, this is how to
        \* count the number of times a spec variable changed up to the current
        \* state in the trace.
        \* ,_thrownModCount |->
        \*     LET F[s \in DOMAIN _TETrace] ==
        \*         IF s = 1 THEN 0
        \*         ELSE IF _TETrace[s].thrown # _TETrace[s-1].thrown
        \*             THEN 1 + F[s-1] ELSE F[s-1]
        \*     IN F[_TEPosition - 1]
    ]

=============================================================================



Parsing and semantic processing can take forever if the trace below is long.
 In this case, it is advised to uncomment the module below to deserialize the
 trace from a generated binary file.

\*
\*---- MODULE HolderMon_TETrace ----
\*EXTENDS IOUtils, TLC, HolderMon
\*
\*trace == IODeserialize("HolderMon_TTrace_1790894539.bin", TRUE)
\*
\*=============================================================================
\*

---- MODULE HolderMon_TETrace ----
EXTENDS TLC, HolderMon

trace == 
    <<
    ([lin |-> {[s |-> [obj |-> <<0, 0, 0>>, tags |-> <<<<>>, <<>>, <<>>>>, has |-> <<FALSE, FALSE, FALSE>>], st |-> <<[k |-> "none", r |-> 0], [k |-> "none", r |-> 0], [k |-> "none", r |-> 0], [k |-> "none", r |-> 0], [k |-> "none", r |-> 0], [k |-> "none", r |-> 0], [k |-> "none", r |-> 0], [k |-> "none", r |-> 0]>>]},ops |-> <<[n |-> "none", a |-> 0, b |-> 0], [n |-> "none", a |-> 0, b |-> 0], [n |-> "none", a |-> 0, b |-> 0], [n |-> "none", a |-> 0, b |-> 0], [n |-> "none", a |-> 0, b |-> 0], [n |-> "none", a |-> 0, b |-> 0], [n |-> "none", a |-> 0, b |-> 0], [n |-> "none", a |-> 0, b |-> 0]>>,thrown |-> FALSE,l |-> 1]),
    ([lin |-> {[s |-> [obj |-> <<0, 0, 0>>, tags |-> <<<<>>, <<>>, <<>>>>, has |-> <<FALSE, FALSE, FALSE>>], st |-> <<[k |-> "none", r |-> 0], [k |-> "none", r |-> 0], [k |-> "none", r |-> 0], [k |-> "none", r |-> 0], [k |-> "none", r |-> 0], [k |-> "none", r |-> 0], [k |-> "none", r |-> 0], [k |-> "none", r |-> 0]>>]},ops |-> <<[n |-> "none", a |-> 0, b |-> 0], [n |-> "none", a |-> 0, b |-> 0], [n |-> "none", a |-> 0, b |-> 0], [n |-> "none", a |-> 0, b |-> 0], [n |-> "none", a |-> 0, b |-> 0], [n |-> "none", a |-> 0, b |-> 0], [n |-> "none", a |-> 0, b |-> 0], [n |-> "none", a |-> 0, b |-> 0]>>,thrown |-> FALSE,l |-> 2]),
    ([lin |-> {[s |-> [obj |-> <<0, 0, 0>>, tags |-> <<<<>>, <<>>, <<>>>>, has |-> <<FALSE, FALSE, FALSE>>], st |-> <<[k |-> "none", r |-> 0], [k |-> "none", r |-> 0], [k |-> "none", r |-> 0], [k |-> "none", r |-> 0], [k |-> "none", r |-> 0], [k |-> "none", r |-> 0], [k |-> "none", r |-> 0], [k |-> "none", r |-> 0]>>]},ops |-> <<[n |-> "none", a |-> 0, b |-> 0], [n |-> "none", a |-> 0, b |-> 0], [n |-> "none", a |-> 0, b |-> 0], [n |-> "none", a |-> 0, b |-> 0], [n |-> "none", a |-> 0, b |-> 0], [n |-> "none", a |-> 0, b |-> 0], [n |-> "none", a |-> 0, b |-> 0], [n |-> "none", a |-> 0, b |-> 0]>>,thrown |-> FALSE,l |-> 3]),
    ([lin |-> {[s |-> [obj |-> <<0, 0, 0>>, tags |-> <<<<>>, <<>>, <<>>>>, has |-> <<FALSE, FALSE, FALSE>>], st |-> <<[k |-> "none", r |-> 0], [k |-> "none", r |-> 0], [k |-> "none", r |-> 0], [k |-> "none", r |-> 0], [k |-> "none", r |-> 0], [k |-> "none", r |-> 0], [k |-> "none", r |-> 0], [k |-> "none", r |-> 0]>>]},ops |-> <<[n |-> "none", a |-> 0, b |-> 0], [n |-> "none", a |-> 0, b |-> 0], [n |-> "none", a |-> 0, b |-> 0], [n |-> "none", a |-> 0, b |-> 0], [n |-> "none", a |-> 0, b |-> 0], [n |-> "none", a |-> 0, b |-> 0], [n |-> "none", a |-> 0, b |-> 0], [n |-> "none", a |-> 0, b |-> 0]>>,thrown |-> FALSE,l |-> 4]),
    ([lin |-> {[s |-> [obj |-> <<0, 0, 0>>, tags |-> <<<<>>, <<>>, <<>>>>, has |-> <<FALSE, FALSE, FALSE>>], st |-> <<[k |-> "done", r |-> 0], [k |-> "none", r |-> 0], [k |-> "none", r |-> 0], [k |-> "none", r |-> 0], [k |-> "none", r |-> 0], [k |-> "none", r |-> 0], [k |-> "none", r |-> 0], [k |-> "none", r |-> 0]>>], [s |-> [obj |-> <<0, 0, 0>>, tags |-> <<<<>>, <<>>, <<>>>>, has |-> <<FALSE, FALSE, FALSE>>], st |-> <<[k |-> "pend", r |-> 0], [k |-> "none", r |-> 0], [k |-> "none", r |-> 0], [k |-> "none", r |-> 0], [k |-> "none", r |-> 0], [k |-> "none", r |-> 0], [k |-> "none", r |-> 0], [k |-> "none", r |-> 0]>>]},ops |-> <<[n |-> "findPredType", a |-> 2, b |-> 1], [n |-> "none", a |-> 0, b |-> 0], [n |-> "none", a |-> 0, b |-> 0], [n |-> "none", a |-> 0, b |-> 0], [n |-> "none", a |-> 0, b |-> 0], [n |-> "none", a |-> 0, b |-> 0], [n |-> "none", a |-> 0, b |-> 0], [n |-> "none", a |-> 0, b |-> 0]>>,thrown |-> FALSE,l |-> 5]),
    ([lin |-> {[s |-> [obj |-> <<0, 0, 0>>, tags |-> <<<<>>, <<>>, <<>>>>, has |-> <<FALSE, FALSE, FALSE>>], st |-> <<[k |-> "done", r |-> 0], [k |-> "none", r |-> 0], [k |-> "none", r |-> 0], [k |-> "none", r |-> 0], [k |-> "none", r |-> 0], [k |-> "none", r |-> 0], [k |-> "none", r |-> 0], [k |-> "none", r |-> 0]>>], [s |-> [obj |-> <<0, 0, 0>>, tags |-> <<<<>>, <<>>, <<>>>>, has |-> <<FALSE, FALSE, FALSE>>], st |-> <<[k |-> "pend", r |-> 0], [k |-> "none", r |-> 0], [k |-> "none", r |-> 0], [k |-> "none", r |-> 0], [k |-> "none", r |-> 0], [k |-> "none", r |-> 0], [k |-> "none", r |-> 0], [k |-> "none", r |-> 0]>>]},ops |-> <<[n |-> "findPredType", a |-> 2, b |-> 1], [n |-> "none", a |-> 0, b |-> 0], [n |-> "none", a |-> 0, b |-> 0], [n |-> "none", a |-> 0, b |-> 0], [n |-> "none", a |-> 0, b |-> 0], [n |-> "none", a |-> 0, b |-> 0], [n |-> "none", a |-> 0, b |-> 0], [n |-> "none", a |-> 0, b |-> 0]>>,thrown |-> FALSE,l |-> 6]),
    ([lin |-> {[s |-> [obj |-> <<0, 0, 0>>, tags |-> <<<<>>, <<>>, <<>>>>, has |-> <<FALSE, FALSE, FALSE>>], st |-> <<[k |-> "done", r |-> 0], [k |-> "none", r |-> 0], [k |-> "none", r |-> 0], [k |-> "none", r |-> 0], [k |-> "none", r |-> 0], [k |-> "none", r |-> 0], [k |-> "none", r |-> 0], [k |-> "none", r |-> 0]>>], [s |-> [obj |-> <<0, 0, 0>>, tags |-> <<<<>>, <<>>, <<>>>>, has |-> <<FALSE, FALSE, FALSE>>], st |-> <<[k |-> "pend", r |-> 0], [k |-> "none", r |-> 0], [k |-> "none", r |-> 0], [k |-> "none", r |-> 0], [k |-> "none", r |-> 0], [k |-> "none", r |-> 0], [k |-> "none", r |-> 0], [k |-> "none", r |-> 0]>>]},ops |-> <<[n |-> "findPredType", a |-> 2, b |-> 1], [n |-> "none", a |-> 0, b |-> 0], [n |-> "none", a |-> 0, b |-> 0], [n |-> "none", a |-> 0, b |-> 0], [n |-> "none", a |-> 0, b |-> 0], [n |-> "none", a |-> 0, b |-> 0], [n |-> "none", a |-> 0, b |-> 0], [n |-> "none", a |-> 0, b |-> 0]>>,thrown |-> FALSE,l |-> 7]),
    ([lin |-> {[s |-> [obj |-> <<0, 0, 0>>, tags |-> <<<<>>, <<>>, <<>>>>, has |-> <<FALSE, FALSE, FALSE>>], st |-> <<[k |-> "done", r |-> 0], [k |-> "none", r |-> 0], [k |-> "none", r |-> 0], [k |-> "none", r |-> 0], [k |-> "none", r |-> 0], [k |-> "none", r |-> 0], [k |-> "none", r |-> 0], [k |-> "none", r |-> 0]>>], [s |-> [obj |-> <<0, 0, 0>>, tags |-> <<<<>>, <<>>, <<>>>>, has |-> <<FALSE, FALSE, FALSE>>], st |-> <<[k |-> "pend", r |-> 0], [k |-> "none", r |-> 0], [k |-> "none", r |-> 0], [k |-> "none", r |-> 0], [k |-> "none", r |-> 0], [k |-> "none", r |-> 0], [k |-> "none", r |-> 0], [k |-> "none", r |-> 0]>>]},ops |-> <<[n |-> "findPredType", a |-> 2, b |-> 1], [n |-> "none", a |-> 0, b |-> 0], [n |-> "none", a |-> 0, b |-> 0], [n |-> "none", a |-> 0, b |-> 0], [n |-> "none", a |-> 0, b |-> 0], [n |-> "none", a |-> 0, b |-> 0], [n |-> "none", a |-> 0, b |-> 0], [n |-> "none", a |-> 0, b |-> 0]>>,thrown |-> FALSE,l |-> 8]),
    ([lin |-> {[s |-> [obj |-> <<0, 0, 0>>, tags |-> <<<<>>, <<>>, <<>>>>, has |-> <<FALSE, FALSE, FALSE>>], st |-> <<[k |-> "done", r |-> 0], [k |-> "done", r |-> 0], [k |-> "none", r |-> 0], [k |-> "none", r |-> 0], [k |-> "none", r |-> 0], [k |-> "none", r |-> 0], [k |-> "none", r |-> 0], [k |-> "none", r |-> 0]>>], [s |-> [obj |-> <<0, 0, 0>>, tags |-> <<<<>>, <<>>, <<>>>>, has |-> <<FALSE, FALSE, FALSE>>], st |-> <<[k |-> "done", r |-> 0], [k |-> "pend", r |-> 0], [k |-> "none", r |-> 0], [k |-> "none", r |-> 0], [k |-> "none", r |-> 0], [k |-> "none", r |-> 0], [k |-> "none", r |-> 0], [k |-> "none", r |-> 0]>>], [s |-> [obj |-> <<0, 0, 0>>, tags |-> <<<<>>, <<>>, <<>>>>, has |-> <<FALSE, FALSE, FALSE>>], st |-> <<[k |-> "pend", r |-> 0], [k |-> "done", r |-> 0], [k |-> "none", r |-> 0], [k |-> "none", r |-> 0], [k |-> "none", r |-> 0], [k |-> "none", r |-> 0], [k |-> "none", r |-> 0], [k |-> "none", r |-> 0]>>], [s |-> [obj |-> <<0, 0, 0>>, tags |-> <<<<>>, <<>>, <<>>>>, has |-> <<FALSE, FALSE, FALSE>>], st |-> <<[k |-> "pend", r |-> 0], [k |-> "pend", r |-> 0], [k |-> "none", r |-> 0], [k |-> "none", r |-> 0], [k |-> "none", r |-> 0], [k |-> "none", r |-> 0], [k |-> "none", r |-> 0], [k |-> "none", r |-> 0]>>]},ops |-> <<[n |-> "findPredType", a |-> 2, b |-> 1], [n |-> "findPredType", a |-> 2, b |-> 1], [n |-> "none", a |-> 0, b |-> 0], [n |-> "none", a |-> 0, b |-> 0], [n |-> "none", a |-> 0, b |-> 0], [n |-> "none", a |-> 0, b |-> 0], [n |-> "none", a |-> 0, b |-> 0], [n |-> "none", a |-> 0, b |-> 0]>>,thrown |-> FALSE,l |-> 9]),
    ([lin |-> {[s |-> [obj |-> <<0, 0, 0>>, tags |-> <<<<>>, <<>>, <<>>>>, has |-> <<FALSE, FALSE, FALSE>>], st |-> <<[k |-> "done", r |-> 0], [k |-> "done", r |-> 0], [k |-> "none", r |-> 0], [k |-> "none", r |-> 0], [k |-> "none", r |-> 0], [k |-> "none", r |-> 0], [k |-> "none", r |-> 0], [k |-> "none", r |-> 0]>>], [s |-> [obj |-> <<0, 0, 0>>, tags |-> <<<<>>, <<>>, <<>>>>, has |-> <<FALSE, FALSE, FALSE>>], st |-> <<[k |-> "done", r |-> 0], [k |-> "pend", r |-> 0], [k |-> "none", r |-> 0], [k |-> "none", r |-> 0], [k |-> "none", r |-> 0], [k |-> "none", r |-> 0], [k |-> "none", r |-> 0], [k |-> "none", r |-> 0]>>], [s |-> [obj |-> <<0, 0, 0>>, tags |-> <<<<>>, <<>>, <<>>>>, has |-> <<FALSE, FALSE, FALSE>>], st |-> <<[k |-> "pend", r |-> 0], [k |-> "done", r |-> 0], [k |-> "none", r |-> 0], [k |-> "none", r |-> 0], [k |-> "none", r |-> 0], [k |-> "none", r |-> 0], [k |-> "none", r |-> 0], [k |-> "none", r |-> 0]>>], [s |-> [obj |-> <<0, 0, 0>>, tags |-> <<<<>>, <<>>, <<>>>>, has |-> <<FALSE, FALSE, FALSE>>], st |-> <<[k |-> "pend", r |-> 0], [k |-> "pend", r |-> 0], [k |-> "none", r |-> 0], [k |-> "none", r |-> 0], [k |-> "none", r |-> 0], [k |-> "none", r |-> 0], [k |-> "none", r |-> 0], [k |-> "none", r |-> 0]>>]},ops |-> <<[n |-> "findPredType", a |-> 2, b |-> 1], [n |-> "findPredType", a |-> 2, b |-> 1], [n |-> "none", a |-> 0, b |-> 0], [n |-> "none", a |-> 0, b |-> 0], [n |-> "none", a |-> 0, b |-> 0], [n |-> "none", a |-> 0, b |-> 0], [n |-> "none", a |-> 0, b |-> 0], [n |-> "none", a |-> 0, b |-> 0]>>,thrown |-> FALSE,l |-> 10]),
    ([lin |-> {[s |-> [obj |-> <<0, 0, 0>>, tags |-> <<<<>>, <<>>, <<>>>>, has |-> <<FALSE, FALSE, FALSE>>], st |-> <<[k |-> "done", r |-> 0], [k |-> "done", r |-> 0], [k |-> "none", r |-> 0], [k |-> "none", r |-> 0], [k |-> "none", r |-> 0], [k |-> "none", r |-> 0], [k |-> "none", r |-> 0], [k |-> "none", r |-> 0]>>], [s |-> [obj |-> <<0, 0, 0>>, tags |-> <<<<>>, <<>>, <<>>>>, has |-> <<FALSE, FALSE, FALSE>>], st |-> <<[k |-> "done", r |-> 0], [k |-> "pend", r |-> 0], [k |-> "none", r |-> 0], [k |-> "none", r |-> 0], [k |-> "none", r |-> 0], [k |-> "none", r |-> 0], [k |-> "none", r |-> 0], [k |-> "none", r |-> 0]>>], [s |-> [obj |-> <<0, 0, 0>>, tags |-> <<<<>>, <<>>, <<>>>>, has |-> <<FALSE, FALSE, FALSE>>], st |-> <<[k |-> "pend", r |-> 0], [k |-> "done", r |-> 0], [k |-> "none", r |-> 0], [k |-> "none", r |-> 0], [k |-> "none", r |-> 0], [k |-> "none", r |-> 0], [k |-> "none", r |-> 0], [k |-> "none", r |-> 0]>>], [s |-> [obj |-> <<0, 0, 0>>, tags |-> <<<<>>, <<>>, <<>>>>, has |-> <<FALSE, FALSE, FALSE>>], st |-> <<[k |-> "pend", r |-> 0], [k |-> "pend", r |-> 0], [k |-> "none", r |-> 0], [k |-> "none", r |-> 0], [k |-> "none", r |-> 0], [k |-> "none", r |-> 0], [k |-> "none", r |-> 0], [k |-> "none", r |-> 0]>>]},ops |-> <<[n |-> "findPredType", a |-> 2, b |-> 1], [n |-> "findPredType", a |-> 2, b |-> 1], [n |-> "none", a |-> 0, b |-> 0], [n |-> "none", a |-> 0, b |-> 0], [n |-> "none", a |-> 0, b |-> 0], [n |-> "none", a |-> 0, b |-> 0], [n |-> "none", a |-> 0, b |-> 0], [n |-> "none", a |-> 0, b |-> 0]>>,thrown |-> FALSE,l |-> 11]),
    ([lin |-> {[s |-> [obj |-> <<0, 0, 0>>, tags |-> <<<<>>, <<>>, <<>>>>, has |-> <<FALSE, FALSE, FALSE>>], st |-> <<[k |-> "done", r |-> 0], [k |-> "done", r |-> 0], [k |-> "none", r |-> 0], [k |-> "none", r |-> 0], [k |-> "none", r |-> 0], [k |-> "none", r |-> 0], [k |-> "none", r |-> 0], [k |-> "none", r |-> 0]>>], [s |-> [obj |-> <<0, 0, 0>>, tags |-> <<<<>>, <<>>, <<>>>>, has |-> <<FALSE, FALSE, FALSE>>], st |-> <<[k |-> "done", r |-> 0], [k |-> "pend", r |-> 0], [k |-> "none", r |-> 0], [k |-> "none", r |-> 0], [k |-> "none", r |-> 0], [k |-> "none", r |-> 0], [k |-> "none", r |-> 0], [k |-> "none", r |-> 0]>>], [s |-> [obj |-> <<0, 0, 0>>, tags |-> <<<<>>, <<>>, <<>>>>, has |-> <<FALSE, FALSE, FALSE>>], st |-> <<[k |-> "pend", r |-> 0], [k |-> "done", r |-> 0], [k |-> "none", r |-> 0], [k |-> "none", r |-> 0], [k |-> "none", r |-> 0], [k |-> "none", r |-> 0], [k |-> "none", r |-> 0], [k |-> "none", r |-> 0]>>], [s |-> [obj |-> <<0, 0, 0>>, tags |-> <<<<>>, <<>>, <<>>>>, has |-> <<FALSE, FALSE, FALSE>>], st |-> <<[k |-> "pend", r |-> 0], [k |-> "pend", r |-> 0], [k |-> "none", r |-> 0], [k |-> "none", r |-> 0], [k |-> "none", r |-> 0], [k |-> "none", r |-> 0], [k |-> "none", r |-> 0], [k |-> "none", r |-> 0]>>]},ops |-> <<[n |-> "findPredType", a |-> 2, b |-> 1], [n |-> "findPredType", a |-> 2, b |-> 1], [n |-> "none", a |-> 0, b |-> 0], [n |-> "none", a |-> 0, b |-> 0], [n |-> "none", a |-> 0, b |-> 0], [n |-> "none", a |-> 0, b |-> 0], [n |-> "none", a |-> 0, b |-> 0], [n |-> "none", a |-> 0, b |-> 0]>>,thrown |-> FALSE,l |-> 12]),
    ([lin |-> {[s |-> [obj |-> <<0, 0, 0>>, tags |-> <<<<>>, <<>>, <<>>>>, has |-> <<FALSE, FALSE, FALSE>>], st |-> <<[k |-> "none", r |-> 0], [k |-> "done", r |-> 0], [k |-> "none", r |-> 0], [k |-> "none", r |-> 0], [k |-> "none", r |-> 0], [k |-> "none", r |-> 0], [k |-> "none", r |-> 0], [k |-> "none", r |-> 0]>>], [s |-> [obj |-> <<0, 0, 0>>, tags |-> <<<<>>, <<>>, <<>>>>, has |-> <<FALSE, FALSE, FALSE>>], st |-> <<[k |-> "none", r |-> 0], [k |-> "pend", r |-> 0], [k |-> "none", r |-> 0], [k |-> "none", r |-> 0], [k |-> "none", r |-> 0], [k |-> "none", r |-> 0], [k |-> "none", r |-> 0], [k |-> "none", r |-> 0]>>]},ops |-> <<[n |-> "none", a |-> 0, b |-> 0], [n |-> "findPredType", a |-> 2, b |-> 1], [n |-> "none", a |-> 0, b |-> 0], [n |-> "none", a |-> 0, b |-> 0], [n |-> "none", a |-> 0, b |-> 0], [n |-> "none", a |-> 0, b |-> 0], [n |-> "none", a |-> 0, b |-> 0], [n |-> "none", a |-> 0, b |-> 0]>>,thrown |-> FALSE,l |-> 13]),
    ([lin |-> {[s |-> [obj |-> <<0, 0, 0>>, tags |-> <<<<>>, <<>>, <<>>>>, has |-> <<FALSE, FALSE, FALSE>>], st |-> <<[k |-> "none", r |-> 0], [k |-> "done", r |-> 0], [k |-> "none", r |-> 0], [k |-> "none", r |-> 0], [k |-> "none", r |-> 0], [k |-> "none", r |-> 0], [k |-> "none", r |-> 0], [k |-> "none", r |-> 0]>>], [s |-> [obj |-> <<0, 0, 0>>, tags |-> <<<<>>, <<>>, <<>>>>, has |-> <<FALSE, FALSE, FALSE>>], st |-> <<[k |-> "none", r |-> 0], [k |-> "pend", r |-> 0], [k |-> "none", r |-> 0], [k |-> "none", r |-> 0], [k |-> "none", r |-> 0], [k |-> "none", r |-> 0], [k |-> "none", r |-> 0], [k |-> "none", r |-> 0]>>]},ops |-> <<[n |-> "none", a |-> 0, b |-> 0], [n |-> "findPredType", a |-> 2, b |-> 1], [n |-> "none", a |-> 0, b |-> 0], [n |-> "none", a |-> 0, b |-> 0], [n |-> "none", a |-> 0, b |-> 0], [n |-> "none", a |-> 0, b |-> 0], [n |-> "none", a |-> 0, b |-> 0], [n |-> "none", a |-> 0, b |-> 0]>>,thrown |-> FALSE,l |-> 14]),
    ([lin |-> {[s |-> [obj |-> <<0, 0, 0>>, tags |-> <<<<>>, <<>>, <<>>>>, has |-> <<FALSE, FALSE, FALSE>>], st |-> <<[k |-> "none", r |-> 0], [k |-> "done", r |-> 0], [k |-> "done", r |-> 0], [k |-> "none", r |-> 0], [k |-> "none", r |-> 0], [k |-> "none", r |-> 0], [k |-> "none", r |-> 0], [k |-> "none", r |-> 0]>>], [s |-> [obj |-> <<0, 0, 0>>, tags |-> <<<<>>, <<>>, <<>>>>, has |-> <<FALSE, FALSE, FALSE>>], st |-> <<[k |-> "none", r |-> 0], [k |-> "done", r |-> 0], [k |-> "pend", r |-> 0], [k |-> "none", r |-> 0], [k |-> "none", r |-> 0], [k |-> "none", r |-> 0], [k |-> "none", r |-> 0], [k |-> "none", r |-> 0]>>], [s |-> [obj |-> <<0, 0, 0>>, tags |-> <<<<>>, <<>>, <<>>>>, has |-> <<FALSE, FALSE, FALSE>>], st |-> <<[k |-> "none", r |-> 0], [k |-> "pend", r |-> 0], [k |-> "done", r |-> 0], [k |-> "none", r |-> 0], [k |-> "none", r |-> 0], [k |-> "none", r |-> 0], [k |-> "none", r |-> 0], [k |-> "none", r |-> 0]>>], [s |-> [obj |-> <<0, 0, 0>>, tags |-> <<<<>>, <<>>, <<>>>>, has |-> <<FALSE, FALSE, FALSE>>], st |-> <<[k |-> "none", r |-> 0], [k |-> "pend", r |-> 0], [k |-> "pend", r |-> 0], [k |-> "none", r |-> 0], [k |-> "none", r |-> 0], [k |-> "none", r |-> 0], [k |-> "none", r |-> 0], [k |-> "none", r |-> 0]>>]},ops |-> <<[n |-> "none", a |-> 0, b |-> 0], [n |-> "findPredType", a |-> 2, b |-> 1], [n |-> "findPredType", a |-> 2, b |-> 1], [n |-> "none", a |-> 0, b |-> 0], [n |-> "none", a |-> 0, b |-> 0], [n |-> "none", a |-> 0, b |-> 0], [n |-> "none", a |-> 0, b |-> 0], [n |-> "none", a |-> 0, b |-> 0]>>,thrown |-> FALSE,l |-> 15]),
    ([lin |-> {[s |-> [obj |-> <<0, 0, 0>>, tags |-> <<<<>>, <<>>, <<>>>>, has |-> <<FALSE, FALSE, FALSE>>], st |-> <<[k |-> "none", r |-> 0], [k |-> "done", r |-> 0], [k |-> "done", r |-> 0], [k |-> "none", r |-> 0], [k |-> "none", r |-> 0], [k |-> "none", r |-> 0], [k |-> "none", r |-> 0], [k |-> "none", r |-> 0]>>], [s |-> [obj |-> <<0, 0, 0>>, tags |-> <<<<>>, <<>>, <<>>>>, has |-> <<FALSE, FALSE, FALSE>>], st |-> <<[k |-> "none", r |-> 0], [k |-> "done", r |-> 0], [k |-> "pend", r |-> 0], [k |-> "none", r |-> 0], [k |-> "none", r |-> 0], [k |-> "none", r |-> 0], [k |-> "none", r |-> 0], [k |-> "none", r |-> 0]>>], [s |-> [obj |-> <<0, 0, 0>>, tags |-> <<<<>>, <<>>, <<>>>>, has |-> <<FALSE, FALSE, FALSE>>], st |-> <<[k |-> "none", r |-> 0], [k |-> "pend", r |-> 0], [k |-> "done", r |-> 0], [k |-> "none", r |-> 0], [k |-> "none", r |-> 0], [k |-> "none", r |-> 0], [k |-> "none", r |-> 0], [k |-> "none", r |-> 0]>>], [s |-> [obj |-> <<0, 0, 0>>, tags |-> <<<<>>, <<>>, <<>>>>, has |-> <<FALSE, FALSE, FALSE>>], st |-> <<[k |-> "none", r |-> 0], [k |-> "pend", r |-> 0], [k |-> "pend", r |-> 0], [k |-> "none", r |-> 0], [k |-> "none", r |-> 0], [k |-> "none", r |-> 0], [k |-> "none", r |-> 0], [k |-> "none", r |-> 0]>>]},ops |-> <<[n |-> "none", a |-> 0, b |-> 0], [n |-> "findPredType", a |-> 2, b |-> 1], [n |-> "findPredType", a |-> 2, b |-> 1], [n |-> "none", a |-> 0, b |-> 0], [n |-> "none", a |-> 0, b |-> 0], [n |-> "none", a |-> 0, b |-> 0], [n |-> "none", a |-> 0, b |-> 0], [n |-> "none", a |-> 0, b |-> 0]>>,thrown |-> FALSE,l |-> 16]),
    ([lin |-> {[s |-> [obj |-> <<0, 0, 0>>, tags |-> <<<<>>, <<>>, <<>>>>, has |-> <<FALSE, FALSE, FALSE>>], st |-> <<[k |-> "none", r |-> 0], [k |-> "done", r |-> 0], [k |-> "done", r |-> 0], [k |-> "none", r |-> 0], [k |-> "none", r |-> 0], [k |-> "none", r |-> 0], [k |-> "none", r |-> 0], [k |-> "none", r |-> 0]>>], [s |-> [obj |-> <<0, 0, 0>>, tags |-> <<<<>>, <<>>, <<>>>>, has |-> <<FALSE, FALSE, FALSE>>], st |-> <<[k |-> "none", r |-> 0], [k |-> "done", r |-> 0], [k |-> "pend", r |-> 0], [k |-> "none", r |-> 0], [k |-> "none", r |-> 0], [k |-> "none", r |-> 0], [k |-> "none", r |-> 0], [k |-> "none", r |-> 0]>>], [s |-> [obj |-> <<0, 0, 0>>, tags |-> <<<<>>, <<>>, <<>>>>, has |-> <<FALSE, FALSE, FALSE>>], st |-> <<[k |-> "none", r |-> 0], [k |-> "pend", r |-> 0], [k |-> "done", r |-> 0], [k |-> "none", r |-> 0], [k |-> "none", r |-> 0], [k |-> "none", r |-> 0], [k |-> "none", r |-> 0], [k |-> "none", r |-> 0]>>], [s |-> [obj |-> <<0, 0, 0>>, tags |-> <<<<>>, <<>>, <<>>>>, has |-> <<FALSE, FALSE, FALSE>>], st |-> <<[k |-> "none", r |-> 0], [k |-> "pend", r |-> 0], [k |-> "pend", r |-> 0], [k |-> "none", r |-> 0], [k |-> "none", r |-> 0], [k |-> "none", r |-> 0], [k |-> "none", r |-> 0], [k |-> "none", r |-> 0]>>]},ops |-> <<[n |-> "none", a |-> 0, b |-> 0], [n |-> "findPredType", a |-> 2, b |-> 1], [n |-> "findPredType", a |-> 2, b |-> 1], [n |-> "none", a |-> 0, b |-> 0], [n |-> "none", a |-> 0, b |-> 0], [n |-> "none", a |-> 0, b |-> 0], [n |-> "none", a |-> 0, b |-> 0], [n |-> "none", a |-> 0, b |-> 0]>>,thrown |-> FALSE,l |-> 17]),
    ([lin |-> {[s |-> [obj |-> <<0, 0, 0>>, tags |-> <<<<>>, <<>>, <<>>>>, has |-> <<FALSE, FALSE, FALSE>>], st |-> <<[k |-> "none", r |-> 0], [k |-> "done", r |-> 0], [k |-> "done", r |-> 0], [k |-> "none", r |-> 0], [k |-> "none", r |-> 0], [k |-> "none", r |-> 0], [k |-> "none", r |-> 0], [k |-> "none", r |-> 0]>>], [s |-> [obj |-> <<0, 0, 0>>, tags |-> <<<<>>, <<>>, <<>>>>, has |-> <<FALSE, FALSE, FALSE>>], st |-> <<[k |-> "none", r |-> 0], [k |-> "done", r |-> 0], [k |-> "pend", r |-> 0], [k |-> "none", r |-> 0], [k |-> "none", r |-> 0], [k |-> "none", r |-> 0], [k |-> "none", r |-> 0], [k |-> "none", r |-> 0]>>], [s |-> [obj |-> <<0, 0, 0>>, tags |-> <<<<>>, <<>>, <<>>>>, has |-> <<FALSE, FALSE, FALSE>>], st |-> <<[k |-> "none", r |-> 0], [k |-> "pend", r |-> 0], [k |-> "done", r |-> 0], [k |-> "none", r |-> 0], [k |-> "none", r |-> 0], [k |-> "none", r |-> 0], [k |-> "none", r |-> 0], [k |-> "none", r |-> 0]>>], [s |-> [obj |-> <<0, 0, 0>>, tags |-> <<<<>>, <<>>, <<>>>>, has |-> <<FALSE, FALSE, FALSE>>], st |-> <<[k |-> "none", r |-> 0], [k |-> "pend", r |-> 0], [k |-> "pend", r |-> 0], [k |-> "none", r |-> 0], [k |-> "none", r |-> 0], [k |-> "none", r |-> 0], [k |-> "none", r |-> 0], [k |-> "none", r |-> 0]>>]},ops |-> <<[n |-> "none", a |-> 0, b |-> 0], [n |-> "findPredType", a |-> 2, b |-> 1], [n |-> "findPredType", a |-> 2, b |-> 1], [n |-> "none", a |-> 0, b |-> 0], [n |-> "none", a |-> 0, b |-> 0], [n |-> "none", a |-> 0, b |-> 0], [n |-> "none", a |-> 0, b |-> 0], [n |-> "none", a |-> 0, b |-> 0]>>,thrown |-> FALSE,l |-> 18]),
    ([lin |-> {[s |-> [obj |-> <<0, 0, 0>>, tags |-> <<<<>>, <<>>, <<>>>>, has |-> <<FALSE, FALSE, FALSE>>], st |-> <<[k |-> "none", r |-> 0], [k |-> "done", r |-> 0], [k |-> "none", r |-> 0], [k |-> "none", r |-> 0], [k |-> "none", r |-> 0], [k |-> "none", r |-> 0], [k |-> "none", r |-> 0], [k |-> "none", r |-> 0]>>], [s |-> [obj |-> <<0, 0, 0>>, tags |-> <<<<>>, <<>>, <<>>>>, has |-> <<FALSE, FALSE, FALSE>>], st |-> <<[k |-> "none", r |-> 0], [k |-> "pend", r |-> 0], [k |-> "none", r |-> 0], [k |-> "none", r |-> 0], [k |-> "none", r |-> 0], [k |-> "none", r |-> 0], [k |-> "none", r |-> 0], [k |-> "none", r |-> 0]>>]},ops |-> <<[n |-> "none", a |-> 0, b |-> 0], [n |-> "findPredType", a |-> 2, b |-> 1], [n |-> "none", a |-> 0, b |-> 0], [n |-> "none", a |-> 0, b |-> 0], [n |-> "none", a |-> 0, b |-> 0], [n |-> "none", a |-> 0, b |-> 0], [n |-> "none", a |-> 0, b |-> 0], [n |-> "none", a |-> 0, b |-> 0]>>,thrown |-> FALSE,l |-> 19]),
    ([lin |-> ,ops |-> ,thrown |-> ,l |-> 20])
    >>
----


=============================================================================

---- CONFIG HolderMon_TTrace_1790894539 ----

INVARIANT
    _inv

CHECK_DEADLOCK
    \* CHECK_DEADLOCK off because of PROPERTY or INVARIANT above.
    FALSE

INIT
    _init

NEXT
    _next

CONSTANT
    _TETrace <- _trace

ALIAS
    _expression
=============================================================================
\* Generated on Thu Oct 01 22:42:20 UTC 2026
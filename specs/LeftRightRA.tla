----------------------------- MODULE LeftRightRA -----------------------------
(***************************************************************************)
(* The left-right protocol of lr_guarded under a view-based operational     *)
(* model of the C++ memory orders (a restriction of the C++20 model: no     *)
(* load buffering, no early relaxed stores, so every behaviour here is one  *)
(* the standard allows).  Per atomic location an append-only list of        *)
(* messages [val, view]; per thread a view (location -> timestamp).         *)
(*   load:  may read any message not older than the thread's view of the    *)
(*          location; acquire-or-stronger joins the message's view;         *)
(*          seq_cst additionally may not read older than the last seq_cst   *)
(*          write to that location (per-location, nothing fence-like)       *)
(*   store: appends; release-or-stronger publishes the thread's view in the *)
(*          message; a relaxed store publishes nothing                      *)
(*   RMW:   reads the newest message, continues its release sequence        *)
(* The memory order of every access site is a CONSTANT, generated from the  *)
(* orders the real code passed at run time (recorded trace).                *)
(* Orders: 0 relaxed 2 acquire 3 release 4 acq_rel 5 seq_cst.               *)
(* One writer (NW modify calls) and NR readers (one or two reads each);     *)
(* the payload copies are ordinary memory: an open write window on a copy   *)
(* while a reader reads that copy is the violation (ReaderIsolation); an    *)
(* access to a copy that does not happen-after the previous conflicting     *)
(* access is the other (NoRace; happens-before through per-thread           *)
(* pseudo-locations carried by the same views).                             *)
(***************************************************************************)
EXTENDS Naturals, Integers, Sequences, FiniteSets, TLC
CONSTANTS NW, NR, NReads,
          O_WLoadRL, O_StoreRL, O_WLoadCL, O_Drain, O_StoreCL,     \* writer sites
          O_RLoadCL, O_RInc, O_RLoadRL, O_RDec                     \* reader sites
VARIABLES mem, view, lastsc, busy, wpc, wn, wl, rpc, rn, rc, rside, pacc, race
vars == <<mem, view, lastsc, busy, wpc, wn, wl, rpc, rn, rc, rside, pacc, race>>
Locs == {"rl", "cl", "cntL", "cntR"}
Readers == 1..NR
W == 0                       \* the writer's thread id
Thr == {W} \cup Readers
\* Happens-before for the (plain) payload copies: every thread has a private pseudo-location; finishing an access window
\* advances the thread's own timestamp there, and views carry it along release/acquire edges exactly like atomic timestamps.
\* An access to a copy races with an earlier conflicting access by thread u unless the accessor's view of u's pseudo-location
\* has reached the timestamp of that access.
PLoc(t) == <<"p0", "p1", "p2", "p3", "p4">>[t + 1]
VLocs == Locs \cup {PLoc(t) : t \in Thr}
Bot == [l \in VLocs |-> 1]   \* every location starts with its initial message (timestamp 1)
Acq(o) == o \in {2, 4, 5}
Rel(o) == o \in {3, 4, 5}
Join(a, b) == [l \in VLocs |-> IF a[l] >= b[l] THEN a[l] ELSE b[l]]
Init ==
    /\ mem = [l \in Locs |-> <<[val |-> IF l \in {"rl", "cl"} THEN 1 ELSE 0, view |-> Bot]>>]
    /\ view = [t \in Thr |-> Bot] /\ lastsc = [l \in Locs |-> 1]
    /\ busy = [s \in {"L", "R"} |-> FALSE]
    /\ wpc = "w1" /\ wn = 1 /\ wl = [rl |-> 1, cl |-> 1]
    /\ rpc = [r \in Readers |-> "r1"] /\ rn = [r \in Readers |-> 1] /\ rc = [r \in Readers |-> "cntL"] /\ rside = [r \in Readers |-> "L"]
    /\ pacc = [s \in {"L", "R"} |-> [t \in Thr |-> 0]]     \* timestamp (in PLoc(t)) of t's last finished access to copy s; 0 = none
    /\ race = FALSE

\* timestamps thread t may read from location l with order o
Readable(t, l, o) == {i \in 1..Len(mem[l]) : i >= view[t][l] /\ (o = 5 => i >= lastsc[l])}
\* effect of a load of message i
LoadView(t, l, o, i) == LET v1 == [view[t] EXCEPT ![l] = i] IN IF Acq(o) THEN Join(v1, mem[l][i].view) ELSE v1
\* store by t of value x with order o
StoreEff(t, l, o, x) ==
    LET i == Len(mem[l]) + 1
        v1 == [view[t] EXCEPT ![l] = i]
        mv == IF Rel(o) THEN v1 ELSE [Bot EXCEPT ![l] = i] IN
    /\ mem' = [mem EXCEPT ![l] = Append(@, [val |-> x, view |-> mv])]
    /\ view' = [view EXCEPT ![t] = v1]
    /\ lastsc' = IF o = 5 THEN [lastsc EXCEPT ![l] = i] ELSE lastsc
\* RMW by t adding d with order o: reads the newest message and continues its release sequence
RmwEff(t, l, o, d) ==
    LET n == Len(mem[l])
        i == n + 1
        v0 == [view[t] EXCEPT ![l] = i]
        v1 == IF Acq(o) THEN Join(v0, mem[l][n].view) ELSE v0
        mv == IF Rel(o) THEN Join(v1, mem[l][n].view) ELSE [mem[l][n].view EXCEPT ![l] = i] IN
    /\ mem' = [mem EXCEPT ![l] = Append(@, [val |-> mem[l][n].val + d, view |-> mv])]
    /\ view' = [view EXCEPT ![t] = v1]
    /\ lastsc' = IF o = 5 THEN [lastsc EXCEPT ![l] = i] ELSE lastsc

Side(b) == IF b = 1 THEN "L" ELSE "R"
Other(s) == IF s = "L" THEN "R" ELSE "L"
Cnt(b) == IF b = 1 THEN "cntL" ELSE "cntR"
URW == UNCHANGED <<rpc, rn, rc, rside>>
URR == UNCHANGED <<wpc, wn, wl>>
UP == UNCHANGED <<pacc, race>>
\* a write to copy s begins: it must happen after every earlier access (read or write) to s
WBegin(s) == race' = (race \/ \E u \in Readers : view[W][PLoc(u)] < pacc[s][u])
\* a read of copy s by r begins: it must happen after the writer's last write to s
RBegin(r, s) == race' = (race \/ view[r][PLoc(W)] < pacc[s][W])
\* an access window of t on copy s ends: t's own pseudo-location advances
AccEnd(t, s) == LET n == view[t][PLoc(t)] + 1 IN
    /\ view' = [view EXCEPT ![t][PLoc(t)] = n]
    /\ pacc' = [pacc EXCEPT ![s][t] = n]

\* ---- writer: load rl; f(first); store !rl; load cl; drain other counter; store !cl; drain this counter; f(second)
Writer ==
    \/ /\ wpc = "w1" /\ wn <= NW
       /\ \E i \in Readable(W, "rl", O_WLoadRL) :
            /\ wl' = [wl EXCEPT !.rl = mem["rl"][i].val] /\ view' = [view EXCEPT ![W] = LoadView(W, "rl", O_WLoadRL, i)]
       /\ wpc' = "f1b" /\ UNCHANGED <<mem, lastsc, busy, wn>> /\ URW /\ UP
    \/ /\ wpc = "f1b" /\ busy' = [busy EXCEPT ![Other(Side(wl.rl))] = TRUE] /\ wpc' = "f1e" /\ WBegin(Other(Side(wl.rl))) /\ UNCHANGED <<mem, view, lastsc, wn, wl, pacc>> /\ URW
    \/ /\ wpc = "f1e" /\ busy' = [busy EXCEPT ![Other(Side(wl.rl))] = FALSE] /\ wpc' = "w2" /\ AccEnd(W, Other(Side(wl.rl))) /\ UNCHANGED <<mem, lastsc, wn, wl, race>> /\ URW
    \/ /\ wpc = "w2" /\ StoreEff(W, "rl", O_StoreRL, 1 - wl.rl) /\ wpc' = "w3" /\ UNCHANGED <<busy, wn, wl>> /\ URW /\ UP
    \/ /\ wpc = "w3"
       /\ \E i \in Readable(W, "cl", O_WLoadCL) :
            /\ wl' = [wl EXCEPT !.cl = mem["cl"][i].val] /\ view' = [view EXCEPT ![W] = LoadView(W, "cl", O_WLoadCL, i)]
       /\ wpc' = "d1" /\ UNCHANGED <<mem, lastsc, busy, wn>> /\ URW /\ UP
    \* drain loops: a load that reads 0 leaves the loop, any other value spins
    \/ /\ wpc = "d1"
       /\ \E i \in Readable(W, Cnt(1 - wl.cl), O_Drain) :
            /\ view' = [view EXCEPT ![W] = LoadView(W, Cnt(1 - wl.cl), O_Drain, i)]
            /\ wpc' = IF mem[Cnt(1 - wl.cl)][i].val = 0 THEN "w4" ELSE "d1"
       /\ UNCHANGED <<mem, lastsc, busy, wn, wl>> /\ URW /\ UP
    \/ /\ wpc = "w4" /\ StoreEff(W, "cl", O_StoreCL, 1 - wl.cl) /\ wpc' = "d2" /\ UNCHANGED <<busy, wn, wl>> /\ URW /\ UP
    \/ /\ wpc = "d2"
       /\ \E i \in Readable(W, Cnt(wl.cl), O_Drain) :
            /\ view' = [view EXCEPT ![W] = LoadView(W, Cnt(wl.cl), O_Drain, i)]
            /\ wpc' = IF mem[Cnt(wl.cl)][i].val = 0 THEN "f2b" ELSE "d2"
       /\ UNCHANGED <<mem, lastsc, busy, wn, wl>> /\ URW /\ UP
    \/ /\ wpc = "f2b" /\ busy' = [busy EXCEPT ![Side(wl.rl)] = TRUE] /\ wpc' = "f2e" /\ WBegin(Side(wl.rl)) /\ UNCHANGED <<mem, view, lastsc, wn, wl, pacc>> /\ URW
    \/ /\ wpc = "f2e" /\ busy' = [busy EXCEPT ![Side(wl.rl)] = FALSE] /\ wpc' = "w1" /\ wn' = wn + 1 /\ AccEnd(W, Side(wl.rl)) /\ UNCHANGED <<mem, lastsc, wl, race>> /\ URW

\* ---- reader: load cl; counter++; load rl; read the copy (two steps); counter--
Reader(r) ==
    \/ /\ rpc[r] = "r1" /\ rn[r] <= NReads
       /\ \E i \in Readable(r, "cl", O_RLoadCL) :
            /\ rc' = [rc EXCEPT ![r] = Cnt(mem["cl"][i].val)] /\ view' = [view EXCEPT ![r] = LoadView(r, "cl", O_RLoadCL, i)]
       /\ rpc' = [rpc EXCEPT ![r] = "r2"] /\ UNCHANGED <<mem, lastsc, busy, rn, rside>> /\ URR /\ UP
    \/ /\ rpc[r] = "r2" /\ RmwEff(r, rc[r], O_RInc, 1) /\ rpc' = [rpc EXCEPT ![r] = "r3"] /\ UNCHANGED <<busy, rn, rc, rside>> /\ URR /\ UP
    \/ /\ rpc[r] = "r3"
       /\ \E i \in Readable(r, "rl", O_RLoadRL) :
            /\ rside' = [rside EXCEPT ![r] = Side(mem["rl"][i].val)] /\ view' = [view EXCEPT ![r] = LoadView(r, "rl", O_RLoadRL, i)]
       /\ rpc' = [rpc EXCEPT ![r] = "r4"] /\ UNCHANGED <<mem, lastsc, busy, rn, rc>> /\ URR /\ UP
    \/ /\ rpc[r] = "r4" /\ rpc' = [rpc EXCEPT ![r] = "r5"] /\ RBegin(r, rside[r]) /\ UNCHANGED <<mem, view, lastsc, busy, rn, rc, rside, pacc>> /\ URR
    \/ /\ rpc[r] = "r5" /\ rpc' = [rpc EXCEPT ![r] = "r6"] /\ AccEnd(r, rside[r]) /\ UNCHANGED <<mem, lastsc, busy, rn, rc, rside, race>> /\ URR
    \/ /\ rpc[r] = "r6" /\ RmwEff(r, rc[r], O_RDec, -1) /\ rpc' = [rpc EXCEPT ![r] = "r1"] /\ rn' = [rn EXCEPT ![r] = @ + 1]
       /\ UNCHANGED <<busy, rc, rside>> /\ URR /\ UP
Next == Writer \/ \E r \in Readers : Reader(r)
Spec == Init /\ [][Next]_vars
-----------------------------------------------------------------------------
\* C07 / C03: a reader that has determined its side and not yet left never coincides with a write window on that copy
ReaderIsolation == \A r \in Readers : rpc[r] \in {"r4", "r5", "r6"} => ~busy[rside[r]]
\* C07: every access to a payload copy happens-after the conflicting accesses that precede it (no data race)
NoRace == ~race
\* keep the message lists finite: the drain loops may re-read, the counters are bounded by the program
Bound == \A l \in Locs : Len(mem[l]) <= 2 + 2 * NW + 2 * NR * NReads
=============================================================================

---------------------------- MODULE DelayedObjSeq ----------------------------
(* What C18 states: the sequential meaning of DelayedObjects<X> over keys      *)
(* 1, 2 (int keys) and 3 (a string key), values = integers.                    *)
(* abstract state: st[k] in {"none","pending","used"}, fut[k] = -1 (not ready) *)
(* or the value the future of key k holds.                                     *)
EXTENDS Naturals, Integers, FiniteSets, Sequences
Keys == 1..3
S0 == [st |-> [k \in Keys |-> "none"], fut |-> [k \in Keys |-> -1]]
B(b) == IF b THEN 1 ELSE 0
R(s, r) == [s |-> s, r |-> r]
\* o = [n |-> operation name, k |-> key, v |-> value]
Eff(s, o) ==
  CASE o.n = "getFuture" -> {R([st |-> [s.st EXCEPT ![o.k] = "pending"], fut |-> [s.fut EXCEPT ![o.k] = -1]], 0)}
    [] o.n \in {"set_copy", "set_move"} ->
         IF s.st[o.k] = "pending" THEN {R([st |-> [s.st EXCEPT ![o.k] = "used"], fut |-> [s.fut EXCEPT ![o.k] = o.v]], 0)} ELSE {R(s, 0)}
    [] o.n = "fulfillAll" ->
         {R([st |-> [k \in Keys |-> IF s.st[k] = "pending" THEN "used" ELSE s.st[k]],
             fut |-> [k \in Keys |-> IF s.st[k] = "pending" THEN o.v ELSE s.fut[k]]], 0)}
    [] o.n = "finished" -> IF s.st[o.k] = "used" THEN {R([s EXCEPT !.st[o.k] = "none"], 0)} ELSE {R(s, 0)}
    [] o.n = "isRecognized" -> {R(s, B(s.st[o.k] \in {"pending", "used"}))}
    [] o.n = "isCompleted" -> {R(s, B(s.st[o.k] = "used"))}
    \* a consumer blocked on the future: takes effect only once the future is ready
    [] o.n = "wait" -> IF s.fut[o.k] # -1 THEN {R(s, s.fut[o.k])} ELSE {}
    \* destruction: whatever is still pending is satisfied with a default-constructed value
    [] o.n = "destroy" -> {R([s EXCEPT !.fut = [k \in Keys |-> IF s.st[k] = "pending" THEN 0 ELSE s.fut[k]]], 0)}
    \* final inspection of a future that was handed out: ready with its value (-5 = never became ready)
    [] o.n = "final" -> {R(s, IF s.fut[o.k] = -1 THEN -5 ELSE s.fut[o.k])}
    [] o.n = "none" -> {R(s, -3)}      \* an operation the client skipped (future already requested / nothing to wait for)
    [] OTHER -> {R(s, 0)}
=============================================================================

------------------------------ MODULE CowTrace ------------------------------
EXTENDS CowGuarded, TraceBase
VARIABLE l
TInit == l = 1 /\ InitWith(<<>>, 0) /\ TLCSet(1, 0)
Skip == LifeKinds \cup {"blocked", "wget", "wrel", "wdone", "sget", "srel", "final", "starved", "soloyield"}
TNext ==
    /\ l <= Len(Tr)
    /\ l' = l + 1
    /\ LET e == Tr[l] IN
       \/ e.k = "reset" /\ ResetTo(e.prog, IF "copythrows" \in DOMAIN e.p THEN e.p.copythrows ELSE 0)
       \/ (e.k \in Skip \/ (e.t = 0 /\ e.k # "reset")) /\ UNCHANGED vars
       \/ e.k \in EndKinds /\ e.t # 0 /\ UNCHANGED vars
       \/ e.t # 0 /\ e.k \notin (Skip \cup EndKinds \cup {"reset"}) /\ Next /\ Matches(ev', e)
    /\ Mark(l)
TSpec == TInit /\ [][TNext]_<<vars, l>>
Accepted == IF TLCGet(1) = Len(Tr) THEN TRUE ELSE Rejected(TLCGet(1) + 1)
=============================================================================

SPECIFICATION TSpec
CONSTANTS
  Progs = {}
  MaxN = 8
  MaxR = 24
  UnlinkBeforeLog = TRUE
  ScanOlder = TRUE
  NullCheck = TRUE
  EraseLocked = TRUE
INVARIANTS NoUseAfterFree NoPrematureFree ExactlyOnce OnlyConstructedDestroyed HandlesOnlyFreeRecords TraversalsConsistent FinalContents WritersOneAtATime
POSTCONDITION Accepted
CHECK_DEADLOCK FALSE

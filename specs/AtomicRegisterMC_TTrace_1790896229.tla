---- MODULE AtomicRegisterMC_TTrace_1790896229 ----
EXTENDS AtomicRegisterMC, Sequences, TLCExt, Toolbox, Naturals, TLC

_expression ==
    LET AtomicRegisterMC_TEExpression == INSTANCE AtomicRegisterMC_TEExpression
    IN AtomicRegisterMC_TEExpression!expression
----

_trace ==
    LET AtomicRegisterMC_TETrace == INSTANCE AtomicRegisterMC_TETrace
    IN AtomicRegisterMC_TETrace!trace
----

_inv ==
    ~(
        TLCGet("level") = Len(_TETrace)
        /\
        lin = ({})
        /\
        ev = ([t |-> 1, k |-> "ret", o |-> "cas12", i |-> 0, v |-> 1, w |-> 0])
        /\
        th = (<<[o |-> [n |-> "cas", a |-> 1, b |-> 2], pc |-> "idle", op |-> 412, opi |-> 2, res |-> 1, ra |-> 0, got |-> 0, ph |-> 0]>>)
        /\
        reg = ([a |-> 0, b |-> 0])
        /\
        cfg = ([wrap |-> 0, shared |-> FALSE])
        /\
        mx = ([x |-> 0, s |-> {}])
        /\
        prog = (<<<<<<0, 101, 102, 201, 202, 301, 302, 401, 412, 420, 402>>, <<0, 101, 102, 201, 202, 301, 302, 401, 412, 420, 402>>, <<0, 101, 102, 201, 202, 301, 302, 401, 412, 420, 402>>, <<0, 101, 102, 201, 202, 301, 302, 401, 412, 420, 402>>>>>>)
    )
----

_init ==
    /\ prog = _TETrace[1].prog
    /\ mx = _TETrace[1].mx
    /\ ev = _TETrace[1].ev
    /\ reg = _TETrace[1].reg
    /\ th = _TETrace[1].th
    /\ lin = _TETrace[1].lin
    /\ cfg = _TETrace[1].cfg
----

_next ==
    /\ \E i,j \in DOMAIN _TETrace:
        /\ \/ /\ j = i + 1
              /\ i = TLCGet("level")
        /\ prog  = _TETrace[i].prog
        /\ prog' = _TETrace[j].prog
        /\ mx  = _TETrace[i].mx
        /\ mx' = _TETrace[j].mx
        /\ ev  = _TETrace[i].ev
        /\ ev' = _TETrace[j].ev
        /\ reg  = _TETrace[i].reg
        /\ reg' = _TETrace[j].reg
        /\ th  = _TETrace[i].th
        /\ th' = _TETrace[j].th
        /\ lin  = _TETrace[i].lin
        /\ lin' = _TETrace[j].lin
        /\ cfg  = _TETrace[i].cfg
        /\ cfg' = _TETrace[j].cfg

\* Uncomment the ASSUME below to write the states of the error trace
\* to the given file in Json format. Note that you can pass any tuple
\* to `JsonSerialize`. For example, a sub-sequence of _TETrace.
    \* ASSUME
    \*     LET J == INSTANCE Json
    \*         IN J!JsonSerialize("AtomicRegisterMC_TTrace_1790896229.json", _TETrace)

=============================================================================

 Note that you can extract this module `AtomicRegisterMC_TEExpression`
  to a dedicated file to reuse `expression` (the module in the 
  dedicated `AtomicRegisterMC_TEExpression.tla` file takes precedence 
  over the module `AtomicRegisterMC_TEExpression` below).

---- MODULE AtomicRegisterMC_TEExpression ----
EXTENDS AtomicRegisterMC, Sequences, TLCExt, Toolbox, Naturals, TLC

expression == 
    [
        \* To hide variables of the `AtomicRegisterMC` spec from the error trace,
        \* remove the variables below.  The trace will be written in the order
        \* of the fields of this record.
        prog |-> prog
        ,mx |-> mx
        ,ev |-> ev
        ,reg |-> reg
        ,th |-> th
        ,lin |-> lin
        ,cfg |-> cfg
        
        \* Put additional constant-, state-, and action-level expressions here:
        \* ,_stateNumber |-> _TEPosition
        \* ,_progUnchanged |-> prog = prog'
        
        \* Format the `prog` variable as Json value.
        \* ,_progJson |->
        \*     LET J == INSTANCE Json
        \*     IN J!ToJson(prog)
        
        \* Lastly, you may build expressions over arbitrary sets of states by
        \* leveraging the _TETrace operator.  For example, this is how to
        \* count the number of times a spec variable changed up to the current
        \* state in the trace.
        \* ,_progModCount |->
        \*     LET F[s \in DOMAIN _TETrace] ==
        \*         IF s = 1 THEN 0
        \*         ELSE IF _TETrace[s].prog # _TETrace[s-1].prog
        \*             THEN 1 + F[s-1] ELSE F[s-1]
        \*     IN F[_TEPosition - 1]
    ]

=============================================================================



Parsing and semantic processing can take forever if the trace below is long.
 In this case, it is advised to uncomment the module below to deserialize the
 trace from a generated binary file.

\*
\*---- MODULE AtomicRegisterMC_TETrace ----
\*EXTENDS AtomicRegisterMC, IOUtils, TLC
\*
\*trace == IODeserialize("AtomicRegisterMC_TTrace_1790896229.bin", TRUE)
\*
\*=============================================================================
\*

---- MODULE AtomicRegisterMC_TETrace ----
EXTENDS AtomicRegisterMC, TLC

trace == 
    <<
    ([lin |-> {[s |-> 0, st |-> <<[k |-> "none", r |-> 0]>>]},ev |-> [t |-> 0, k |-> "init", o |-> "", i |-> 0, v |-> 0, w |-> 0],th |-> <<[o |-> [n |-> "none", a |-> 0, b |-> 0], pc |-> "idle", op |-> 0, opi |-> 1, res |-> 0, ra |-> 0, got |-> 0, ph |-> 0]>>,reg |-> [a |-> 0, b |-> 0],cfg |-> [wrap |-> 0, shared |-> FALSE],mx |-> [x |-> 0, s |-> {}],prog |-> <<<<<<0, 101, 102, 201, 202, 301, 302, 401, 412, 420, 402>>, <<0, 101, 102, 201, 202, 301, 302, 401, 412, 420, 402>>, <<0, 101, 102, 201, 202, 301, 302, 401, 412, 420, 402>>, <<0, 101, 102, 201, 202, 301, 302, 401, 412, 420, 402>>>>>>]),
    ([lin |-> {[s |-> 0, st |-> <<[k |-> "pend", r |-> 0]>>], [s |-> 0, st |-> <<[k |-> "done", r |-> 0]>>]},ev |-> [t |-> 1, k |-> "call", o |-> "cas12", i |-> 0, v |-> 0, w |-> 0],th |-> <<[o |-> [n |-> "cas", a |-> 1, b |-> 2], pc |-> "lock", op |-> 412, opi |-> 1, res |-> 0, ra |-> 0, got |-> 0, ph |-> 0]>>,reg |-> [a |-> 0, b |-> 0],cfg |-> [wrap |-> 0, shared |-> FALSE],mx |-> [x |-> 0, s |-> {}],prog |-> <<<<<<0, 101, 102, 201, 202, 301, 302, 401, 412, 420, 402>>, <<0, 101, 102, 201, 202, 301, 302, 401, 412, 420, 402>>, <<0, 101, 102, 201, 202, 301, 302, 401, 412, 420, 402>>, <<0, 101, 102, 201, 202, 301, 302, 401, 412, 420, 402>>>>>>]),
    ([lin |-> {[s |-> 0, st |-> <<[k |-> "pend", r |-> 0]>>], [s |-> 0, st |-> <<[k |-> "done", r |-> 0]>>]},ev |-> [t |-> 1, k |-> "mlock", o |-> "m", i |-> 1, v |-> 0, w |-> 0],th |-> <<[o |-> [n |-> "cas", a |-> 1, b |-> 2], pc |-> "rb", op |-> 412, opi |-> 1, res |-> 0, ra |-> 0, got |-> 0, ph |-> 0]>>,reg |-> [a |-> 0, b |-> 0],cfg |-> [wrap |-> 0, shared |-> FALSE],mx |-> [x |-> 1, s |-> {}],prog |-> <<<<<<0, 101, 102, 201, 202, 301, 302, 401, 412, 420, 402>>, <<0, 101, 102, 201, 202, 301, 302, 401, 412, 420, 402>>, <<0, 101, 102, 201, 202, 301, 302, 401, 412, 420, 402>>, <<0, 101, 102, 201, 202, 301, 302, 401, 412, 420, 402>>>>>>]),
    ([lin |-> {[s |-> 0, st |-> <<[k |-> "pend", r |-> 0]>>], [s |-> 0, st |-> <<[k |-> "done", r |-> 0]>>]},ev |-> [t |-> 1, k |-> "rb", o |-> "reg", i |-> 1, v |-> 0, w |-> 0],th |-> <<[o |-> [n |-> "cas", a |-> 1, b |-> 2], pc |-> "re", op |-> 412, opi |-> 1, res |-> 0, ra |-> 0, got |-> 0, ph |-> 0]>>,reg |-> [a |-> 0, b |-> 0],cfg |-> [wrap |-> 0, shared |-> FALSE],mx |-> [x |-> 1, s |-> {}],prog |-> <<<<<<0, 101, 102, 201, 202, 301, 302, 401, 412, 420, 402>>, <<0, 101, 102, 201, 202, 301, 302, 401, 412, 420, 402>>, <<0, 101, 102, 201, 202, 301, 302, 401, 412, 420, 402>>, <<0, 101, 102, 201, 202, 301, 302, 401, 412, 420, 402>>>>>>]),
    ([lin |-> {[s |-> 0, st |-> <<[k |-> "pend", r |-> 0]>>], [s |-> 0, st |-> <<[k |-> "done", r |-> 0]>>]},ev |-> [t |-> 1, k |-> "re", o |-> "reg", i |-> 1, v |-> 0, w |-> 0],th |-> <<[o |-> [n |-> "cas", a |-> 1, b |-> 2], pc |-> "unlock", op |-> 412, opi |-> 1, res |-> 1, ra |-> 0, got |-> 0, ph |-> 0]>>,reg |-> [a |-> 0, b |-> 0],cfg |-> [wrap |-> 0, shared |-> FALSE],mx |-> [x |-> 1, s |-> {}],prog |-> <<<<<<0, 101, 102, 201, 202, 301, 302, 401, 412, 420, 402>>, <<0, 101, 102, 201, 202, 301, 302, 401, 412, 420, 402>>, <<0, 101, 102, 201, 202, 301, 302, 401, 412, 420, 402>>, <<0, 101, 102, 201, 202, 301, 302, 401, 412, 420, 402>>>>>>]),
    ([lin |-> {[s |-> 0, st |-> <<[k |-> "pend", r |-> 0]>>], [s |-> 0, st |-> <<[k |-> "done", r |-> 0]>>]},ev |-> [t |-> 1, k |-> "munlock", o |-> "m", i |-> 1, v |-> 0, w |-> 0],th |-> <<[o |-> [n |-> "cas", a |-> 1, b |-> 2], pc |-> "ret", op |-> 412, opi |-> 1, res |-> 1, ra |-> 0, got |-> 0, ph |-> 0]>>,reg |-> [a |-> 0, b |-> 0],cfg |-> [wrap |-> 0, shared |-> FALSE],mx |-> [x |-> 0, s |-> {}],prog |-> <<<<<<0, 101, 102, 201, 202, 301, 302, 401, 412, 420, 402>>, <<0, 101, 102, 201, 202, 301, 302, 401, 412, 420, 402>>, <<0, 101, 102, 201, 202, 301, 302, 401, 412, 420, 402>>, <<0, 101, 102, 201, 202, 301, 302, 401, 412, 420, 402>>>>>>]),
    ([lin |-> {},ev |-> [t |-> 1, k |-> "ret", o |-> "cas12", i |-> 0, v |-> 1, w |-> 0],th |-> <<[o |-> [n |-> "cas", a |-> 1, b |-> 2], pc |-> "idle", op |-> 412, opi |-> 2, res |-> 1, ra |-> 0, got |-> 0, ph |-> 0]>>,reg |-> [a |-> 0, b |-> 0],cfg |-> [wrap |-> 0, shared |-> FALSE],mx |-> [x |-> 0, s |-> {}],prog |-> <<<<<<0, 101, 102, 201, 202, 301, 302, 401, 412, 420, 402>>, <<0, 101, 102, 201, 202, 301, 302, 401, 412, 420, 402>>, <<0, 101, 102, 201, 202, 301, 302, 401, 412, 420, 402>>, <<0, 101, 102, 201, 202, 301, 302, 401, 412, 420, 402>>>>>>])
    >>
----


=============================================================================

---- CONFIG AtomicRegisterMC_TTrace_1790896229 ----
CONSTANTS
    Progs <- SeqAG
    Wraps = { 0 }
    Shareds = { FALSE }
    ExchangeReturnsOld = TRUE
    CasReportsCurrent = FALSE

INVARIANT
    _inv

CHECK_DEADLOCK
    \* CHECK_DEADLOCK off because of PROPERTY or INVARIANT above.
    FALSE

INIT
    _init

NEXT
    _next

CONSTANT
    _TETrace <- _trace

ALIAS
    _expression
=============================================================================
\* Generated on Thu Oct 01 23:10:30 UTC 2026
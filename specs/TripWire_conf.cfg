SPECIFICATION Spec
CONSTANTS
  Progs <- ConfProgs
  NullCheckInDtor = TRUE
  MoveEmpties = TRUE
  AssignSwaps = FALSE
INVARIANTS FalseUntilFirstDestroy PollTruth NoCrash
PROPERTY OneWay
CHECK_DEADLOCK FALSE

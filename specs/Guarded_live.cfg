SPECIFICATION FairSpec
CONSTANTS
  Progs <- SharedProgs
  Shareds = {TRUE, FALSE}
  Enableds = {TRUE}
  LoadShareds = {FALSE}
  MaxThrows = 0
  StoreLocked = TRUE
  ReadLocked = TRUE
  TryHonest = TRUE
VIEW View
PROPERTY Termination
CHECK_DEADLOCK FALSE

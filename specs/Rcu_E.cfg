SPECIFICATION Spec
CONSTANTS
  Progs <- ProgsE
  MaxN = 1
  MaxR = 5
  UnlinkBeforeLog = TRUE
  ScanOlder = TRUE
  NullCheck = TRUE
  EraseLocked = TRUE
VIEW View
INVARIANTS TypeOK NoUseAfterFree NoPrematureFree ExactlyOnce OnlyConstructedDestroyed HandlesOnlyFreeRecords TraversalsConsistent FinalContents WritersOneAtATime ReaderNeverBlocked DtorFreesAll
CHECK_DEADLOCK FALSE

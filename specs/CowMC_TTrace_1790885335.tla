---- MODULE CowMC_TTrace_1790885335 ----
EXTENDS Sequences, TLCExt, CowMC, Toolbox, Naturals, TLC

_expression ==
    LET CowMC_TEExpression == INSTANCE CowMC_TEExpression
    IN CowMC_TEExpression!expression
----

_trace ==
    LET CowMC_TETrace == INSTANCE CowMC_TETrace
    IN CowMC_TETrace!trace
----

_inv ==
    ~(
        TLCGet("level") = Len(_TETrace)
        /\
        ev = ([t |-> 1, k |-> "ret", o |-> "write_cancel", i |-> 0, v |-> -1, w |-> 0])
        /\
        gh = ([ncommit |-> 0, bad |-> FALSE, latest |-> 0])
        /\
        ver = (<<[b |-> 0, a |-> 0, refs |-> 2, alive |-> TRUE, committed |-> TRUE], [b |-> 1, a |-> 1, refs |-> 0, alive |-> FALSE, committed |-> FALSE], [b |-> 0, a |-> 0, refs |-> 0, alive |-> FALSE, committed |-> FALSE]>>)
        /\
        th = (<<[d |-> 1, opi |-> 2, pc |-> "idle", op |-> 1, res |-> -1, c |-> 1, side |-> 1, lrl |-> TRUE, lcl |-> TRUE, n |-> 2, snap |-> 1, ra |-> 0, nrd |-> 0, first |-> 0, dying |-> 2, after |-> "ret"], [d |-> 3, opi |-> 1, pc |-> "c1", op |-> 1, res |-> 0, c |-> 1, side |-> 1, lrl |-> TRUE, lcl |-> TRUE, n |-> 0, snap |-> 0, ra |-> 0, nrd |-> 0, first |-> 0, dying |-> 0, after |-> ""], [d |-> 0, opi |-> 2, pc |-> "idle", op |-> 3, res |-> 0, c |-> 1, side |-> 1, lrl |-> TRUE, lcl |-> TRUE, n |-> 0, snap |-> 1, ra |-> 0, nrd |-> 1, first |-> 0, dying |-> 0, after |-> ""]>>)
        /\
        sh = ([rl |-> TRUE, cl |-> TRUE, cnt |-> <<0, 0>>, lwm |-> 0, cwm |-> 1, slot |-> <<1, 1>>, nver |-> 2])
        /\
        prog = (<<<<<<0, 1, 2>>>>, <<<<0, 1, 2>>>>, <<<<3, 4>>>>>>)
    )
----

_init ==
    /\ prog = _TETrace[1].prog
    /\ ev = _TETrace[1].ev
    /\ ver = _TETrace[1].ver
    /\ sh = _TETrace[1].sh
    /\ gh = _TETrace[1].gh
    /\ th = _TETrace[1].th
----

_next ==
    /\ \E i,j \in DOMAIN _TETrace:
        /\ \/ /\ j = i + 1
              /\ i = TLCGet("level")
        /\ prog  = _TETrace[i].prog
        /\ prog' = _TETrace[j].prog
        /\ ev  = _TETrace[i].ev
        /\ ev' = _TETrace[j].ev
        /\ ver  = _TETrace[i].ver
        /\ ver' = _TETrace[j].ver
        /\ sh  = _TETrace[i].sh
        /\ sh' = _TETrace[j].sh
        /\ gh  = _TETrace[i].gh
        /\ gh' = _TETrace[j].gh
        /\ th  = _TETrace[i].th
        /\ th' = _TETrace[j].th

\* Uncomment the ASSUME below to write the states of the error trace
\* to the given file in Json format. Note that you can pass any tuple
\* to `JsonSerialize`. For example, a sub-sequence of _TETrace.
    \* ASSUME
    \*     LET J == INSTANCE Json
    \*         IN J!JsonSerialize("CowMC_TTrace_1790885335.json", _TETrace)

=============================================================================

 Note that you can extract this module `CowMC_TEExpression`
  to a dedicated file to reuse `expression` (the module in the 
  dedicated `CowMC_TEExpression.tla` file takes precedence 
  over the module `CowMC_TEExpression` below).

---- MODULE CowMC_TEExpression ----
EXTENDS Sequences, TLCExt, CowMC, Toolbox, Naturals, TLC

expression == 
    [
        \* To hide variables of the `CowMC` spec from the error trace,
        \* remove the variables below.  The trace will be written in the order
        \* of the fields of this record.
        prog |-> prog
        ,ev |-> ev
        ,ver |-> ver
        ,sh |-> sh
        ,gh |-> gh
        ,th |-> th
        
        \* Put additional constant-, state-, and action-level expressions here:
        \* ,_stateNumber |-> _TEPosition
        \* ,_progUnchanged |-> prog = prog'
        
        \* Format the `prog` variable as Json value.
        \* ,_progJson |->
        \*     LET J == INSTANCE Json
        \*     IN J!ToJson(prog)
        
        \* Lastly, you may build expressions over arbitrary sets of states by
        \* leveraging the _TETrace operator.  For example, this is how to
        \* count the number of times a spec variable changed up to the current
        \* state in the trace.
        \* ,_progModCount |->
        \*     LET F[s \in DOMAIN _TETrace] ==
        \*         IF s = 1 THEN 0
        \*         ELSE IF _TETrace[s].prog # _TETrace[s-1].prog
        \*             THEN 1 + F[s-1] ELSE F[s-1]
        \*     IN F[_TEPosition - 1]
    ]

=============================================================================



Parsing and semantic processing can take forever if the trace below is long.
 In this case, it is advised to uncomment the module below to deserialize the
 trace from a generated binary file.

\*
\*---- MODULE CowMC_TETrace ----
\*EXTENDS IOUtils, CowMC, TLC
\*
\*trace == IODeserialize("CowMC_TTrace_1790885335.bin", TRUE)
\*
\*=============================================================================
\*

---- MODULE CowMC_TETrace ----
EXTENDS CowMC, TLC

trace == 
    <<
    ([ev |-> [t |-> 0, k |-> "init", o |-> "", i |-> 0, v |-> 0, w |-> 0],gh |-> [ncommit |-> 0, bad |-> FALSE, latest |-> 0],ver |-> <<[b |-> 0, a |-> 0, refs |-> 2, alive |-> TRUE, committed |-> TRUE], [b |-> 0, a |-> 0, refs |-> 0, alive |-> FALSE, committed |-> FALSE], [b |-> 0, a |-> 0, refs |-> 0, alive |-> FALSE, committed |-> FALSE]>>,th |-> <<[d |-> 0, opi |-> 1, pc |-> "idle", op |-> 0, res |-> 0, c |-> 1, side |-> 1, lrl |-> TRUE, lcl |-> TRUE, n |-> 0, snap |-> 0, ra |-> 0, nrd |-> 0, first |-> 0, dying |-> 0, after |-> ""], [d |-> 0, opi |-> 1, pc |-> "idle", op |-> 0, res |-> 0, c |-> 1, side |-> 1, lrl |-> TRUE, lcl |-> TRUE, n |-> 0, snap |-> 0, ra |-> 0, nrd |-> 0, first |-> 0, dying |-> 0, after |-> ""], [d |-> 0, opi |-> 1, pc |-> "idle", op |-> 0, res |-> 0, c |-> 1, side |-> 1, lrl |-> TRUE, lcl |-> TRUE, n |-> 0, snap |-> 0, ra |-> 0, nrd |-> 0, first |-> 0, dying |-> 0, after |-> ""]>>,sh |-> [rl |-> TRUE, cl |-> TRUE, cnt |-> <<0, 0>>, lwm |-> 0, cwm |-> 0, slot |-> <<1, 1>>, nver |-> 1],prog |-> <<<<<<0, 1, 2>>>>, <<<<0, 1, 2>>>>, <<<<3, 4>>>>>>]),
    ([ev |-> [t |-> 1, k |-> "call", o |-> "write_cancel", i |-> 0, v |-> 1, w |-> 0],gh |-> [ncommit |-> 0, bad |-> FALSE, latest |-> 0],ver |-> <<[b |-> 0, a |-> 0, refs |-> 2, alive |-> TRUE, committed |-> TRUE], [b |-> 0, a |-> 0, refs |-> 0, alive |-> FALSE, committed |-> FALSE], [b |-> 0, a |-> 0, refs |-> 0, alive |-> FALSE, committed |-> FALSE]>>,th |-> <<[d |-> 1, opi |-> 1, pc |-> "c1", op |-> 1, res |-> 0, c |-> 1, side |-> 1, lrl |-> TRUE, lcl |-> TRUE, n |-> 0, snap |-> 0, ra |-> 0, nrd |-> 0, first |-> 0, dying |-> 0, after |-> ""], [d |-> 0, opi |-> 1, pc |-> "idle", op |-> 0, res |-> 0, c |-> 1, side |-> 1, lrl |-> TRUE, lcl |-> TRUE, n |-> 0, snap |-> 0, ra |-> 0, nrd |-> 0, first |-> 0, dying |-> 0, after |-> ""], [d |-> 0, opi |-> 1, pc |-> "idle", op |-> 0, res |-> 0, c |-> 1, side |-> 1, lrl |-> TRUE, lcl |-> TRUE, n |-> 0, snap |-> 0, ra |-> 0, nrd |-> 0, first |-> 0, dying |-> 0, after |-> ""]>>,sh |-> [rl |-> TRUE, cl |-> TRUE, cnt |-> <<0, 0>>, lwm |-> 0, cwm |-> 0, slot |-> <<1, 1>>, nver |-> 1],prog |-> <<<<<<0, 1, 2>>>>, <<<<0, 1, 2>>>>, <<<<3, 4>>>>>>]),
    ([ev |-> [t |-> 1, k |-> "mlock", o |-> "cw", i |-> 1, v |-> 0, w |-> 0],gh |-> [ncommit |-> 0, bad |-> FALSE, latest |-> 0],ver |-> <<[b |-> 0, a |-> 0, refs |-> 2, alive |-> TRUE, committed |-> TRUE], [b |-> 0, a |-> 0, refs |-> 0, alive |-> FALSE, committed |-> FALSE], [b |-> 0, a |-> 0, refs |-> 0, alive |-> FALSE, committed |-> FALSE]>>,th |-> <<[d |-> 1, opi |-> 1, pc |-> "c2", op |-> 1, res |-> 0, c |-> 1, side |-> 1, lrl |-> TRUE, lcl |-> TRUE, n |-> 0, snap |-> 0, ra |-> 0, nrd |-> 0, first |-> 0, dying |-> 0, after |-> ""], [d |-> 0, opi |-> 1, pc |-> "idle", op |-> 0, res |-> 0, c |-> 1, side |-> 1, lrl |-> TRUE, lcl |-> TRUE, n |-> 0, snap |-> 0, ra |-> 0, nrd |-> 0, first |-> 0, dying |-> 0, after |-> ""], [d |-> 0, opi |-> 1, pc |-> "idle", op |-> 0, res |-> 0, c |-> 1, side |-> 1, lrl |-> TRUE, lcl |-> TRUE, n |-> 0, snap |-> 0, ra |-> 0, nrd |-> 0, first |-> 0, dying |-> 0, after |-> ""]>>,sh |-> [rl |-> TRUE, cl |-> TRUE, cnt |-> <<0, 0>>, lwm |-> 0, cwm |-> 1, slot |-> <<1, 1>>, nver |-> 1],prog |-> <<<<<<0, 1, 2>>>>, <<<<0, 1, 2>>>>, <<<<3, 4>>>>>>]),
    ([ev |-> [t |-> 1, k |-> "ald", o |-> "cl", i |-> 1, v |-> 1, w |-> 0],gh |-> [ncommit |-> 0, bad |-> FALSE, latest |-> 0],ver |-> <<[b |-> 0, a |-> 0, refs |-> 2, alive |-> TRUE, committed |-> TRUE], [b |-> 0, a |-> 0, refs |-> 0, alive |-> FALSE, committed |-> FALSE], [b |-> 0, a |-> 0, refs |-> 0, alive |-> FALSE, committed |-> FALSE]>>,th |-> <<[d |-> 1, opi |-> 1, pc |-> "c3", op |-> 1, res |-> 0, c |-> 1, side |-> 1, lrl |-> TRUE, lcl |-> TRUE, n |-> 0, snap |-> 0, ra |-> 0, nrd |-> 0, first |-> 0, dying |-> 0, after |-> ""], [d |-> 0, opi |-> 1, pc |-> "idle", op |-> 0, res |-> 0, c |-> 1, side |-> 1, lrl |-> TRUE, lcl |-> TRUE, n |-> 0, snap |-> 0, ra |-> 0, nrd |-> 0, first |-> 0, dying |-> 0, after |-> ""], [d |-> 0, opi |-> 1, pc |-> "idle", op |-> 0, res |-> 0, c |-> 1, side |-> 1, lrl |-> TRUE, lcl |-> TRUE, n |-> 0, snap |-> 0, ra |-> 0, nrd |-> 0, first |-> 0, dying |-> 0, after |-> ""]>>,sh |-> [rl |-> TRUE, cl |-> TRUE, cnt |-> <<0, 0>>, lwm |-> 0, cwm |-> 1, slot |-> <<1, 1>>, nver |-> 1],prog |-> <<<<<<0, 1, 2>>>>, <<<<0, 1, 2>>>>, <<<<3, 4>>>>>>]),
    ([ev |-> [t |-> 1, k |-> "arm", o |-> "cntL", i |-> 1, v |-> 0, w |-> 1],gh |-> [ncommit |-> 0, bad |-> FALSE, latest |-> 0],ver |-> <<[b |-> 0, a |-> 0, refs |-> 2, alive |-> TRUE, committed |-> TRUE], [b |-> 0, a |-> 0, refs |-> 0, alive |-> FALSE, committed |-> FALSE], [b |-> 0, a |-> 0, refs |-> 0, alive |-> FALSE, committed |-> FALSE]>>,th |-> <<[d |-> 1, opi |-> 1, pc |-> "c4", op |-> 1, res |-> 0, c |-> 1, side |-> 1, lrl |-> TRUE, lcl |-> TRUE, n |-> 0, snap |-> 0, ra |-> 0, nrd |-> 0, first |-> 0, dying |-> 0, after |-> ""], [d |-> 0, opi |-> 1, pc |-> "idle", op |-> 0, res |-> 0, c |-> 1, side |-> 1, lrl |-> TRUE, lcl |-> TRUE, n |-> 0, snap |-> 0, ra |-> 0, nrd |-> 0, first |-> 0, dying |-> 0, after |-> ""], [d |-> 0, opi |-> 1, pc |-> "idle", op |-> 0, res |-> 0, c |-> 1, side |-> 1, lrl |-> TRUE, lcl |-> TRUE, n |-> 0, snap |-> 0, ra |-> 0, nrd |-> 0, first |-> 0, dying |-> 0, after |-> ""]>>,sh |-> [rl |-> TRUE, cl |-> TRUE, cnt |-> <<1, 0>>, lwm |-> 0, cwm |-> 1, slot |-> <<1, 1>>, nver |-> 1],prog |-> <<<<<<0, 1, 2>>>>, <<<<0, 1, 2>>>>, <<<<3, 4>>>>>>]),
    ([ev |-> [t |-> 1, k |-> "ald", o |-> "rl", i |-> 1, v |-> 1, w |-> 0],gh |-> [ncommit |-> 0, bad |-> FALSE, latest |-> 0],ver |-> <<[b |-> 0, a |-> 0, refs |-> 2, alive |-> TRUE, committed |-> TRUE], [b |-> 0, a |-> 0, refs |-> 1, alive |-> TRUE, committed |-> FALSE], [b |-> 0, a |-> 0, refs |-> 0, alive |-> FALSE, committed |-> FALSE]>>,th |-> <<[d |-> 1, opi |-> 1, pc |-> "c5", op |-> 1, res |-> 0, c |-> 1, side |-> 1, lrl |-> TRUE, lcl |-> TRUE, n |-> 2, snap |-> 1, ra |-> 0, nrd |-> 0, first |-> 0, dying |-> 0, after |-> ""], [d |-> 0, opi |-> 1, pc |-> "idle", op |-> 0, res |-> 0, c |-> 1, side |-> 1, lrl |-> TRUE, lcl |-> TRUE, n |-> 0, snap |-> 0, ra |-> 0, nrd |-> 0, first |-> 0, dying |-> 0, after |-> ""], [d |-> 0, opi |-> 1, pc |-> "idle", op |-> 0, res |-> 0, c |-> 1, side |-> 1, lrl |-> TRUE, lcl |-> TRUE, n |-> 0, snap |-> 0, ra |-> 0, nrd |-> 0, first |-> 0, dying |-> 0, after |-> ""]>>,sh |-> [rl |-> TRUE, cl |-> TRUE, cnt |-> <<1, 0>>, lwm |-> 0, cwm |-> 1, slot |-> <<1, 1>>, nver |-> 2],prog |-> <<<<<<0, 1, 2>>>>, <<<<0, 1, 2>>>>, <<<<3, 4>>>>>>]),
    ([ev |-> [t |-> 2, k |-> "call", o |-> "write_cancel", i |-> 0, v |-> 3, w |-> 0],gh |-> [ncommit |-> 0, bad |-> FALSE, latest |-> 0],ver |-> <<[b |-> 0, a |-> 0, refs |-> 2, alive |-> TRUE, committed |-> TRUE], [b |-> 0, a |-> 0, refs |-> 1, alive |-> TRUE, committed |-> FALSE], [b |-> 0, a |-> 0, refs |-> 0, alive |-> FALSE, committed |-> FALSE]>>,th |-> <<[d |-> 1, opi |-> 1, pc |-> "c5", op |-> 1, res |-> 0, c |-> 1, side |-> 1, lrl |-> TRUE, lcl |-> TRUE, n |-> 2, snap |-> 1, ra |-> 0, nrd |-> 0, first |-> 0, dying |-> 0, after |-> ""], [d |-> 3, opi |-> 1, pc |-> "c1", op |-> 1, res |-> 0, c |-> 1, side |-> 1, lrl |-> TRUE, lcl |-> TRUE, n |-> 0, snap |-> 0, ra |-> 0, nrd |-> 0, first |-> 0, dying |-> 0, after |-> ""], [d |-> 0, opi |-> 1, pc |-> "idle", op |-> 0, res |-> 0, c |-> 1, side |-> 1, lrl |-> TRUE, lcl |-> TRUE, n |-> 0, snap |-> 0, ra |-> 0, nrd |-> 0, first |-> 0, dying |-> 0, after |-> ""]>>,sh |-> [rl |-> TRUE, cl |-> TRUE, cnt |-> <<1, 0>>, lwm |-> 0, cwm |-> 1, slot |-> <<1, 1>>, nver |-> 2],prog |-> <<<<<<0, 1, 2>>>>, <<<<0, 1, 2>>>>, <<<<3, 4>>>>>>]),
    ([ev |-> [t |-> 1, k |-> "kb", o |-> "cell", i |-> 2, v |-> 0, w |-> 0],gh |-> [ncommit |-> 0, bad |-> FALSE, latest |-> 0],ver |-> <<[b |-> 0, a |-> 0, refs |-> 2, alive |-> TRUE, committed |-> TRUE], [b |-> 0, a |-> 0, refs |-> 1, alive |-> TRUE, committed |-> FALSE], [b |-> 0, a |-> 0, refs |-> 0, alive |-> FALSE, committed |-> FALSE]>>,th |-> <<[d |-> 1, opi |-> 1, pc |-> "c6", op |-> 1, res |-> 0, c |-> 1, side |-> 1, lrl |-> TRUE, lcl |-> TRUE, n |-> 2, snap |-> 1, ra |-> 0, nrd |-> 0, first |-> 0, dying |-> 0, after |-> ""], [d |-> 3, opi |-> 1, pc |-> "c1", op |-> 1, res |-> 0, c |-> 1, side |-> 1, lrl |-> TRUE, lcl |-> TRUE, n |-> 0, snap |-> 0, ra |-> 0, nrd |-> 0, first |-> 0, dying |-> 0, after |-> ""], [d |-> 0, opi |-> 1, pc |-> "idle", op |-> 0, res |-> 0, c |-> 1, side |-> 1, lrl |-> TRUE, lcl |-> TRUE, n |-> 0, snap |-> 0, ra |-> 0, nrd |-> 0, first |-> 0, dying |-> 0, after |-> ""]>>,sh |-> [rl |-> TRUE, cl |-> TRUE, cnt |-> <<1, 0>>, lwm |-> 0, cwm |-> 1, slot |-> <<1, 1>>, nver |-> 2],prog |-> <<<<<<0, 1, 2>>>>, <<<<0, 1, 2>>>>, <<<<3, 4>>>>>>]),
    ([ev |-> [t |-> 3, k |-> "call", o |-> "snap_read", i |-> 0, v |-> 0, w |-> 0],gh |-> [ncommit |-> 0, bad |-> FALSE, latest |-> 0],ver |-> <<[b |-> 0, a |-> 0, refs |-> 2, alive |-> TRUE, committed |-> TRUE], [b |-> 0, a |-> 0, refs |-> 1, alive |-> TRUE, committed |-> FALSE], [b |-> 0, a |-> 0, refs |-> 0, alive |-> FALSE, committed |-> FALSE]>>,th |-> <<[d |-> 1, opi |-> 1, pc |-> "c6", op |-> 1, res |-> 0, c |-> 1, side |-> 1, lrl |-> TRUE, lcl |-> TRUE, n |-> 2, snap |-> 1, ra |-> 0, nrd |-> 0, first |-> 0, dying |-> 0, after |-> ""], [d |-> 3, opi |-> 1, pc |-> "c1", op |-> 1, res |-> 0, c |-> 1, side |-> 1, lrl |-> TRUE, lcl |-> TRUE, n |-> 0, snap |-> 0, ra |-> 0, nrd |-> 0, first |-> 0, dying |-> 0, after |-> ""], [d |-> 0, opi |-> 1, pc |-> "r1", op |-> 3, res |-> 0, c |-> 1, side |-> 1, lrl |-> TRUE, lcl |-> TRUE, n |-> 0, snap |-> 0, ra |-> 0, nrd |-> 0, first |-> 0, dying |-> 0, after |-> ""]>>,sh |-> [rl |-> TRUE, cl |-> TRUE, cnt |-> <<1, 0>>, lwm |-> 0, cwm |-> 1, slot |-> <<1, 1>>, nver |-> 2],prog |-> <<<<<<0, 1, 2>>>>, <<<<0, 1, 2>>>>, <<<<3, 4>>>>>>]),
    ([ev |-> [t |-> 3, k |-> "ald", o |-> "cl", i |-> 1, v |-> 1, w |-> 0],gh |-> [ncommit |-> 0, bad |-> FALSE, latest |-> 0],ver |-> <<[b |-> 0, a |-> 0, refs |-> 2, alive |-> TRUE, committed |-> TRUE], [b |-> 0, a |-> 0, refs |-> 1, alive |-> TRUE, committed |-> FALSE], [b |-> 0, a |-> 0, refs |-> 0, alive |-> FALSE, committed |-> FALSE]>>,th |-> <<[d |-> 1, opi |-> 1, pc |-> "c6", op |-> 1, res |-> 0, c |-> 1, side |-> 1, lrl |-> TRUE, lcl |-> TRUE, n |-> 2, snap |-> 1, ra |-> 0, nrd |-> 0, first |-> 0, dying |-> 0, after |-> ""], [d |-> 3, opi |-> 1, pc |-> "c1", op |-> 1, res |-> 0, c |-> 1, side |-> 1, lrl |-> TRUE, lcl |-> TRUE, n |-> 0, snap |-> 0, ra |-> 0, nrd |-> 0, first |-> 0, dying |-> 0, after |-> ""], [d |-> 0, opi |-> 1, pc |-> "r2", op |-> 3, res |-> 0, c |-> 1, side |-> 1, lrl |-> TRUE, lcl |-> TRUE, n |-> 0, snap |-> 0, ra |-> 0, nrd |-> 0, first |-> 0, dying |-> 0, after |-> ""]>>,sh |-> [rl |-> TRUE, cl |-> TRUE, cnt |-> <<1, 0>>, lwm |-> 0, cwm |-> 1, slot |-> <<1, 1>>, nver |-> 2],prog |-> <<<<<<0, 1, 2>>>>, <<<<0, 1, 2>>>>, <<<<3, 4>>>>>>]),
    ([ev |-> [t |-> 1, k |-> "ke", o |-> "cell", i |-> 2, v |-> 0, w |-> 0],gh |-> [ncommit |-> 0, bad |-> FALSE, latest |-> 0],ver |-> <<[b |-> 0, a |-> 0, refs |-> 2, alive |-> TRUE, committed |-> TRUE], [b |-> 0, a |-> 0, refs |-> 1, alive |-> TRUE, committed |-> FALSE], [b |-> 0, a |-> 0, refs |-> 0, alive |-> FALSE, committed |-> FALSE]>>,th |-> <<[d |-> 1, opi |-> 1, pc |-> "c7", op |-> 1, res |-> 0, c |-> 1, side |-> 1, lrl |-> TRUE, lcl |-> TRUE, n |-> 2, snap |-> 1, ra |-> 0, nrd |-> 0, first |-> 0, dying |-> 0, after |-> ""], [d |-> 3, opi |-> 1, pc |-> "c1", op |-> 1, res |-> 0, c |-> 1, side |-> 1, lrl |-> TRUE, lcl |-> TRUE, n |-> 0, snap |-> 0, ra |-> 0, nrd |-> 0, first |-> 0, dying |-> 0, after |-> ""], [d |-> 0, opi |-> 1, pc |-> "r2", op |-> 3, res |-> 0, c |-> 1, side |-> 1, lrl |-> TRUE, lcl |-> TRUE, n |-> 0, snap |-> 0, ra |-> 0, nrd |-> 0, first |-> 0, dying |-> 0, after |-> ""]>>,sh |-> [rl |-> TRUE, cl |-> TRUE, cnt |-> <<1, 0>>, lwm |-> 0, cwm |-> 1, slot |-> <<1, 1>>, nver |-> 2],prog |-> <<<<<<0, 1, 2>>>>, <<<<0, 1, 2>>>>, <<<<3, 4>>>>>>]),
    ([ev |-> [t |-> 3, k |-> "arm", o |-> "cntL", i |-> 1, v |-> 1, w |-> 2],gh |-> [ncommit |-> 0, bad |-> FALSE, latest |-> 0],ver |-> <<[b |-> 0, a |-> 0, refs |-> 2, alive |-> TRUE, committed |-> TRUE], [b |-> 0, a |-> 0, refs |-> 1, alive |-> TRUE, committed |-> FALSE], [b |-> 0, a |-> 0, refs |-> 0, alive |-> FALSE, committed |-> FALSE]>>,th |-> <<[d |-> 1, opi |-> 1, pc |-> "c7", op |-> 1, res |-> 0, c |-> 1, side |-> 1, lrl |-> TRUE, lcl |-> TRUE, n |-> 2, snap |-> 1, ra |-> 0, nrd |-> 0, first |-> 0, dying |-> 0, after |-> ""], [d |-> 3, opi |-> 1, pc |-> "c1", op |-> 1, res |-> 0, c |-> 1, side |-> 1, lrl |-> TRUE, lcl |-> TRUE, n |-> 0, snap |-> 0, ra |-> 0, nrd |-> 0, first |-> 0, dying |-> 0, after |-> ""], [d |-> 0, opi |-> 1, pc |-> "r3", op |-> 3, res |-> 0, c |-> 1, side |-> 1, lrl |-> TRUE, lcl |-> TRUE, n |-> 0, snap |-> 0, ra |-> 0, nrd |-> 0, first |-> 0, dying |-> 0, after |-> ""]>>,sh |-> [rl |-> TRUE, cl |-> TRUE, cnt |-> <<2, 0>>, lwm |-> 0, cwm |-> 1, slot |-> <<1, 1>>, nver |-> 2],prog |-> <<<<<<0, 1, 2>>>>, <<<<0, 1, 2>>>>, <<<<3, 4>>>>>>]),
    ([ev |-> [t |-> 3, k |-> "ald", o |-> "rl", i |-> 1, v |-> 1, w |-> 0],gh |-> [ncommit |-> 0, bad |-> FALSE, latest |-> 0],ver |-> <<[b |-> 0, a |-> 0, refs |-> 3, alive |-> TRUE, committed |-> TRUE], [b |-> 0, a |-> 0, refs |-> 1, alive |-> TRUE, committed |-> FALSE], [b |-> 0, a |-> 0, refs |-> 0, alive |-> FALSE, committed |-> FALSE]>>,th |-> <<[d |-> 1, opi |-> 1, pc |-> "c7", op |-> 1, res |-> 0, c |-> 1, side |-> 1, lrl |-> TRUE, lcl |-> TRUE, n |-> 2, snap |-> 1, ra |-> 0, nrd |-> 0, first |-> 0, dying |-> 0, after |-> ""], [d |-> 3, opi |-> 1, pc |-> "c1", op |-> 1, res |-> 0, c |-> 1, side |-> 1, lrl |-> TRUE, lcl |-> TRUE, n |-> 0, snap |-> 0, ra |-> 0, nrd |-> 0, first |-> 0, dying |-> 0, after |-> ""], [d |-> 0, opi |-> 1, pc |-> "r4", op |-> 3, res |-> 0, c |-> 1, side |-> 1, lrl |-> TRUE, lcl |-> TRUE, n |-> 0, snap |-> 1, ra |-> 0, nrd |-> 0, first |-> 0, dying |-> 0, after |-> ""]>>,sh |-> [rl |-> TRUE, cl |-> TRUE, cnt |-> <<2, 0>>, lwm |-> 0, cwm |-> 1, slot |-> <<1, 1>>, nver |-> 2],prog |-> <<<<<<0, 1, 2>>>>, <<<<0, 1, 2>>>>, <<<<3, 4>>>>>>]),
    ([ev |-> [t |-> 3, k |-> "arm", o |-> "cntL", i |-> 1, v |-> 2, w |-> 1],gh |-> [ncommit |-> 0, bad |-> FALSE, latest |-> 0],ver |-> <<[b |-> 0, a |-> 0, refs |-> 3, alive |-> TRUE, committed |-> TRUE], [b |-> 0, a |-> 0, refs |-> 1, alive |-> TRUE, committed |-> FALSE], [b |-> 0, a |-> 0, refs |-> 0, alive |-> FALSE, committed |-> FALSE]>>,th |-> <<[d |-> 1, opi |-> 1, pc |-> "c7", op |-> 1, res |-> 0, c |-> 1, side |-> 1, lrl |-> TRUE, lcl |-> TRUE, n |-> 2, snap |-> 1, ra |-> 0, nrd |-> 0, first |-> 0, dying |-> 0, after |-> ""], [d |-> 3, opi |-> 1, pc |-> "c1", op |-> 1, res |-> 0, c |-> 1, side |-> 1, lrl |-> TRUE, lcl |-> TRUE, n |-> 0, snap |-> 0, ra |-> 0, nrd |-> 0, first |-> 0, dying |-> 0, after |-> ""], [d |-> 0, opi |-> 1, pc |-> "r5", op |-> 3, res |-> 0, c |-> 1, side |-> 1, lrl |-> TRUE, lcl |-> TRUE, n |-> 0, snap |-> 1, ra |-> 0, nrd |-> 0, first |-> 0, dying |-> 0, after |-> ""]>>,sh |-> [rl |-> TRUE, cl |-> TRUE, cnt |-> <<1, 0>>, lwm |-> 0, cwm |-> 1, slot |-> <<1, 1>>, nver |-> 2],prog |-> <<<<<<0, 1, 2>>>>, <<<<0, 1, 2>>>>, <<<<3, 4>>>>>>]),
    ([ev |-> [t |-> 1, k |-> "arm", o |-> "cntL", i |-> 1, v |-> 1, w |-> 0],gh |-> [ncommit |-> 0, bad |-> FALSE, latest |-> 0],ver |-> <<[b |-> 0, a |-> 0, refs |-> 3, alive |-> TRUE, committed |-> TRUE], [b |-> 0, a |-> 0, refs |-> 1, alive |-> TRUE, committed |-> FALSE], [b |-> 0, a |-> 0, refs |-> 0, alive |-> FALSE, committed |-> FALSE]>>,th |-> <<[d |-> 1, opi |-> 1, pc |-> "c8", op |-> 1, res |-> 0, c |-> 1, side |-> 1, lrl |-> TRUE, lcl |-> TRUE, n |-> 2, snap |-> 1, ra |-> 0, nrd |-> 0, first |-> 0, dying |-> 0, after |-> ""], [d |-> 3, opi |-> 1, pc |-> "c1", op |-> 1, res |-> 0, c |-> 1, side |-> 1, lrl |-> TRUE, lcl |-> TRUE, n |-> 0, snap |-> 0, ra |-> 0, nrd |-> 0, first |-> 0, dying |-> 0, after |-> ""], [d |-> 0, opi |-> 1, pc |-> "r5", op |-> 3, res |-> 0, c |-> 1, side |-> 1, lrl |-> TRUE, lcl |-> TRUE, n |-> 0, snap |-> 1, ra |-> 0, nrd |-> 0, first |-> 0, dying |-> 0, after |-> ""]>>,sh |-> [rl |-> TRUE, cl |-> TRUE, cnt |-> <<0, 0>>, lwm |-> 0, cwm |-> 1, slot |-> <<1, 1>>, nver |-> 2],prog |-> <<<<<<0, 1, 2>>>>, <<<<0, 1, 2>>>>, <<<<3, 4>>>>>>]),
    ([ev |-> [t |-> 1, k |-> "wb", o |-> "cell", i |-> 2, v |-> 0, w |-> 1],gh |-> [ncommit |-> 0, bad |-> FALSE, latest |-> 0],ver |-> <<[b |-> 0, a |-> 0, refs |-> 3, alive |-> TRUE, committed |-> TRUE], [b |-> 0, a |-> 1, refs |-> 1, alive |-> TRUE, committed |-> FALSE], [b |-> 0, a |-> 0, refs |-> 0, alive |-> FALSE, committed |-> FALSE]>>,th |-> <<[d |-> 1, opi |-> 1, pc |-> "c9", op |-> 1, res |-> 0, c |-> 1, side |-> 1, lrl |-> TRUE, lcl |-> TRUE, n |-> 2, snap |-> 1, ra |-> 0, nrd |-> 0, first |-> 0, dying |-> 0, after |-> ""], [d |-> 3, opi |-> 1, pc |-> "c1", op |-> 1, res |-> 0, c |-> 1, side |-> 1, lrl |-> TRUE, lcl |-> TRUE, n |-> 0, snap |-> 0, ra |-> 0, nrd |-> 0, first |-> 0, dying |-> 0, after |-> ""], [d |-> 0, opi |-> 1, pc |-> "r5", op |-> 3, res |-> 0, c |-> 1, side |-> 1, lrl |-> TRUE, lcl |-> TRUE, n |-> 0, snap |-> 1, ra |-> 0, nrd |-> 0, first |-> 0, dying |-> 0, after |-> ""]>>,sh |-> [rl |-> TRUE, cl |-> TRUE, cnt |-> <<0, 0>>, lwm |-> 0, cwm |-> 1, slot |-> <<1, 1>>, nver |-> 2],prog |-> <<<<<<0, 1, 2>>>>, <<<<0, 1, 2>>>>, <<<<3, 4>>>>>>]),
    ([ev |-> [t |-> 1, k |-> "we", o |-> "cell", i |-> 2, v |-> 1, w |-> 0],gh |-> [ncommit |-> 0, bad |-> FALSE, latest |-> 0],ver |-> <<[b |-> 0, a |-> 0, refs |-> 3, alive |-> TRUE, committed |-> TRUE], [b |-> 1, a |-> 1, refs |-> 1, alive |-> TRUE, committed |-> FALSE], [b |-> 0, a |-> 0, refs |-> 0, alive |-> FALSE, committed |-> FALSE]>>,th |-> <<[d |-> 1, opi |-> 1, pc |-> "dtor", op |-> 1, res |-> -1, c |-> 1, side |-> 1, lrl |-> TRUE, lcl |-> TRUE, n |-> 2, snap |-> 1, ra |-> 0, nrd |-> 0, first |-> 0, dying |-> 2, after |-> "ret"], [d |-> 3, opi |-> 1, pc |-> "c1", op |-> 1, res |-> 0, c |-> 1, side |-> 1, lrl |-> TRUE, lcl |-> TRUE, n |-> 0, snap |-> 0, ra |-> 0, nrd |-> 0, first |-> 0, dying |-> 0, after |-> ""], [d |-> 0, opi |-> 1, pc |-> "r5", op |-> 3, res |-> 0, c |-> 1, side |-> 1, lrl |-> TRUE, lcl |-> TRUE, n |-> 0, snap |-> 1, ra |-> 0, nrd |-> 0, first |-> 0, dying |-> 0, after |-> ""]>>,sh |-> [rl |-> TRUE, cl |-> TRUE, cnt |-> <<0, 0>>, lwm |-> 0, cwm |-> 1, slot |-> <<1, 1>>, nver |-> 2],prog |-> <<<<<<0, 1, 2>>>>, <<<<0, 1, 2>>>>, <<<<3, 4>>>>>>]),
    ([ev |-> [t |-> 3, k |-> "rb", o |-> "cell", i |-> 1, v |-> 0, w |-> 0],gh |-> [ncommit |-> 0, bad |-> FALSE, latest |-> 0],ver |-> <<[b |-> 0, a |-> 0, refs |-> 3, alive |-> TRUE, committed |-> TRUE], [b |-> 1, a |-> 1, refs |-> 1, alive |-> TRUE, committed |-> FALSE], [b |-> 0, a |-> 0, refs |-> 0, alive |-> FALSE, committed |-> FALSE]>>,th |-> <<[d |-> 1, opi |-> 1, pc |-> "dtor", op |-> 1, res |-> -1, c |-> 1, side |-> 1, lrl |-> TRUE, lcl |-> TRUE, n |-> 2, snap |-> 1, ra |-> 0, nrd |-> 0, first |-> 0, dying |-> 2, after |-> "ret"], [d |-> 3, opi |-> 1, pc |-> "c1", op |-> 1, res |-> 0, c |-> 1, side |-> 1, lrl |-> TRUE, lcl |-> TRUE, n |-> 0, snap |-> 0, ra |-> 0, nrd |-> 0, first |-> 0, dying |-> 0, after |-> ""], [d |-> 0, opi |-> 1, pc |-> "r6", op |-> 3, res |-> 0, c |-> 1, side |-> 1, lrl |-> TRUE, lcl |-> TRUE, n |-> 0, snap |-> 1, ra |-> 0, nrd |-> 0, first |-> 0, dying |-> 0, after |-> ""]>>,sh |-> [rl |-> TRUE, cl |-> TRUE, cnt |-> <<0, 0>>, lwm |-> 0, cwm |-> 1, slot |-> <<1, 1>>, nver |-> 2],prog |-> <<<<<<0, 1, 2>>>>, <<<<0, 1, 2>>>>, <<<<3, 4>>>>>>]),
    ([ev |-> [t |-> 3, k |-> "re", o |-> "cell", i |-> 1, v |-> 0, w |-> 0],gh |-> [ncommit |-> 0, bad |-> FALSE, latest |-> 0],ver |-> <<[b |-> 0, a |-> 0, refs |-> 2, alive |-> TRUE, committed |-> TRUE], [b |-> 1, a |-> 1, refs |-> 1, alive |-> TRUE, committed |-> FALSE], [b |-> 0, a |-> 0, refs |-> 0, alive |-> FALSE, committed |-> FALSE]>>,th |-> <<[d |-> 1, opi |-> 1, pc |-> "dtor", op |-> 1, res |-> -1, c |-> 1, side |-> 1, lrl |-> TRUE, lcl |-> TRUE, n |-> 2, snap |-> 1, ra |-> 0, nrd |-> 0, first |-> 0, dying |-> 2, after |-> "ret"], [d |-> 3, opi |-> 1, pc |-> "c1", op |-> 1, res |-> 0, c |-> 1, side |-> 1, lrl |-> TRUE, lcl |-> TRUE, n |-> 0, snap |-> 0, ra |-> 0, nrd |-> 0, first |-> 0, dying |-> 0, after |-> ""], [d |-> 0, opi |-> 1, pc |-> "ret", op |-> 3, res |-> 0, c |-> 1, side |-> 1, lrl |-> TRUE, lcl |-> TRUE, n |-> 0, snap |-> 1, ra |-> 0, nrd |-> 1, first |-> 0, dying |-> 0, after |-> ""]>>,sh |-> [rl |-> TRUE, cl |-> TRUE, cnt |-> <<0, 0>>, lwm |-> 0, cwm |-> 1, slot |-> <<1, 1>>, nver |-> 2],prog |-> <<<<<<0, 1, 2>>>>, <<<<0, 1, 2>>>>, <<<<3, 4>>>>>>]),
    ([ev |-> [t |-> 3, k |-> "ret", o |-> "snap_read", i |-> 0, v |-> 0, w |-> 0],gh |-> [ncommit |-> 0, bad |-> FALSE, latest |-> 0],ver |-> <<[b |-> 0, a |-> 0, refs |-> 2, alive |-> TRUE, committed |-> TRUE], [b |-> 1, a |-> 1, refs |-> 1, alive |-> TRUE, committed |-> FALSE], [b |-> 0, a |-> 0, refs |-> 0, alive |-> FALSE, committed |-> FALSE]>>,th |-> <<[d |-> 1, opi |-> 1, pc |-> "dtor", op |-> 1, res |-> -1, c |-> 1, side |-> 1, lrl |-> TRUE, lcl |-> TRUE, n |-> 2, snap |-> 1, ra |-> 0, nrd |-> 0, first |-> 0, dying |-> 2, after |-> "ret"], [d |-> 3, opi |-> 1, pc |-> "c1", op |-> 1, res |-> 0, c |-> 1, side |-> 1, lrl |-> TRUE, lcl |-> TRUE, n |-> 0, snap |-> 0, ra |-> 0, nrd |-> 0, first |-> 0, dying |-> 0, after |-> ""], [d |-> 0, opi |-> 2, pc |-> "idle", op |-> 3, res |-> 0, c |-> 1, side |-> 1, lrl |-> TRUE, lcl |-> TRUE, n |-> 0, snap |-> 1, ra |-> 0, nrd |-> 1, first |-> 0, dying |-> 0, after |-> ""]>>,sh |-> [rl |-> TRUE, cl |-> TRUE, cnt |-> <<0, 0>>, lwm |-> 0, cwm |-> 1, slot |-> <<1, 1>>, nver |-> 2],prog |-> <<<<<<0, 1, 2>>>>, <<<<0, 1, 2>>>>, <<<<3, 4>>>>>>]),
    ([ev |-> [t |-> 1, k |-> "dtor", o |-> "cell", i |-> 2, v |-> 1, w |-> 0],gh |-> [ncommit |-> 0, bad |-> FALSE, latest |-> 0],ver |-> <<[b |-> 0, a |-> 0, refs |-> 2, alive |-> TRUE, committed |-> TRUE], [b |-> 1, a |-> 1, refs |-> 0, alive |-> FALSE, committed |-> FALSE], [b |-> 0, a |-> 0, refs |-> 0, alive |-> FALSE, committed |-> FALSE]>>,th |-> <<[d |-> 1, opi |-> 1, pc |-> "ret", op |-> 1, res |-> -1, c |-> 1, side |-> 1, lrl |-> TRUE, lcl |-> TRUE, n |-> 2, snap |-> 1, ra |-> 0, nrd |-> 0, first |-> 0, dying |-> 2, after |-> "ret"], [d |-> 3, opi |-> 1, pc |-> "c1", op |-> 1, res |-> 0, c |-> 1, side |-> 1, lrl |-> TRUE, lcl |-> TRUE, n |-> 0, snap |-> 0, ra |-> 0, nrd |-> 0, first |-> 0, dying |-> 0, after |-> ""], [d |-> 0, opi |-> 2, pc |-> "idle", op |-> 3, res |-> 0, c |-> 1, side |-> 1, lrl |-> TRUE, lcl |-> TRUE, n |-> 0, snap |-> 1, ra |-> 0, nrd |-> 1, first |-> 0, dying |-> 0, after |-> ""]>>,sh |-> [rl |-> TRUE, cl |-> TRUE, cnt |-> <<0, 0>>, lwm |-> 0, cwm |-> 1, slot |-> <<1, 1>>, nver |-> 2],prog |-> <<<<<<0, 1, 2>>>>, <<<<0, 1, 2>>>>, <<<<3, 4>>>>>>]),
    ([ev |-> [t |-> 1, k |-> "ret", o |-> "write_cancel", i |-> 0, v |-> -1, w |-> 0],gh |-> [ncommit |-> 0, bad |-> FALSE, latest |-> 0],ver |-> <<[b |-> 0, a |-> 0, refs |-> 2, alive |-> TRUE, committed |-> TRUE], [b |-> 1, a |-> 1, refs |-> 0, alive |-> FALSE, committed |-> FALSE], [b |-> 0, a |-> 0, refs |-> 0, alive |-> FALSE, committed |-> FALSE]>>,th |-> <<[d |-> 1, opi |-> 2, pc |-> "idle", op |-> 1, res |-> -1, c |-> 1, side |-> 1, lrl |-> TRUE, lcl |-> TRUE, n |-> 2, snap |-> 1, ra |-> 0, nrd |-> 0, first |-> 0, dying |-> 2, after |-> "ret"], [d |-> 3, opi |-> 1, pc |-> "c1", op |-> 1, res |-> 0, c |-> 1, side |-> 1, lrl |-> TRUE, lcl |-> TRUE, n |-> 0, snap |-> 0, ra |-> 0, nrd |-> 0, first |-> 0, dying |-> 0, after |-> ""], [d |-> 0, opi |-> 2, pc |-> "idle", op |-> 3, res |-> 0, c |-> 1, side |-> 1, lrl |-> TRUE, lcl |-> TRUE, n |-> 0, snap |-> 1, ra |-> 0, nrd |-> 1, first |-> 0, dying |-> 0, after |-> ""]>>,sh |-> [rl |-> TRUE, cl |-> TRUE, cnt |-> <<0, 0>>, lwm |-> 0, cwm |-> 1, slot |-> <<1, 1>>, nver |-> 2],prog |-> <<<<<<0, 1, 2>>>>, <<<<0, 1, 2>>>>, <<<<3, 4>>>>>>])
    >>
----


=============================================================================

---- CONFIG CowMC_TTrace_1790885335 ----
CONSTANTS
    Progs <- QuickProgs
    MaxV = 3
    CopyUnderMutex = TRUE
    CancelUnlocks = FALSE

INVARIANT
    _inv

CHECK_DEADLOCK
    \* CHECK_DEADLOCK off because of PROPERTY or INVARIANT above.
    FALSE

INIT
    _init

NEXT
    _next

CONSTANT
    _TETrace <- _trace

ALIAS
    _expression
=============================================================================
\* Generated on Thu Oct 01 20:08:58 UTC 2026
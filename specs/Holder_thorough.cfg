SPECIFICATION Spec
CONSTANTS
  PredThrows = FALSE
  Progs <- ThoroughProgs
VIEW View
INVARIANTS TypeOK Linearizable NoDeadlock
CHECK_DEADLOCK FALSE

SPECIFICATION TSpec
CONSTANTS
  Progs = {}
  MaxV = 12
  CopyThrows = {0}
  CopyUnderMutex = TRUE
  CancelUnlocks = TRUE
INVARIANTS SnapshotValid NoTornSnapshot WriterSerial NoLostCommit RefsOK
POSTCONDITION Accepted
CHECK_DEADLOCK FALSE

SPECIFICATION Spec
CONSTANTS
  Progs <- QuickProgs
  NullCheckInDtor = TRUE
  MoveEmpties = TRUE
  AssignSwaps = FALSE
VIEW View
INVARIANTS FalseUntilFirstDestroy PollTruth NoCrash
PROPERTY OneWay
CHECK_DEADLOCK FALSE

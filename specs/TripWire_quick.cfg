SPECIFICATION Spec
CONSTANTS
  Progs <- QuickProgs
  NullCheckInDtor = TRUE
  MoveEmpties = TRUE
VIEW View
INVARIANTS FalseUntilFirstDestroy PollTruth NoCrash
PROPERTY OneWay
CHECK_DEADLOCK FALSE

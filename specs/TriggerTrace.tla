---------------------------- MODULE TriggerTrace ----------------------------
EXTENDS TriggerVariable, TraceBase
VARIABLE l
TInit == l = 1 /\ InitWith(<<>>, FALSE) /\ TLCSet(1, 0)
TNext ==
    /\ l <= Len(Tr)
    /\ l' = l + 1
    /\ LET e == Tr[l] IN
       \/ e.k = "reset" /\ ResetTo(e.prog, e.p.active = 1)
       \/ e.k \in LifeKinds \cup {"blocked"} /\ UNCHANGED vars
       \/ e.k = "deadlock" /\ Quiescent /\ UNCHANGED vars
       \/ e.k \in (EndKinds \ {"deadlock"}) /\ UNCHANGED vars
       \/ e.k \notin (LifeKinds \cup EndKinds \cup {"reset", "blocked"}) /\ Next /\ Matches(ev', e)
    /\ Mark(l)
TSpec == TInit /\ [][TNext]_<<vars, l>>
Accepted == IF TLCGet(1) = Len(Tr) THEN TRUE ELSE Rejected(TLCGet(1) + 1)
=============================================================================

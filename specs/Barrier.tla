------------------------------ MODULE Barrier ------------------------------
(***************************************************************************)
(* gmlc::concurrency::Barrier (gmlc/concurrency/Barrier.hpp).               *)
(*   wait():          lock; lGen = generation_; if (--count_ <= 0)          *)
(*                      { generation_++; count_ = threshold_; notify_all }  *)
(*                    else cv.wait(lck, [lGen != generation_]); unlock      *)
(*   wait_and_drop(): same with --threshold_ before the count test          *)
(* threshold_, count_, generation_ are plain fields only touched under the  *)
(* mutex; their accesses are not synchronisation-visible and belong to the  *)
(* lock step (resp. the re-lock step for the predicate re-evaluation).      *)
(* count_ is a size_t: "--count_ <= 0" is "--count_ == 0" with wrap-around. *)
(***************************************************************************)
EXTENDS Naturals, Integers, Sequences, FiniteSets, TLC

CONSTANTS Progs,       \* set of programs: Seq(thread) of Seq(position) of Seq(menu) of op codes (0 wait, 1 wait_and_drop)
          Spurious,    \* spurious wake-ups possible
          PredLoop,    \* knob: TRUE = cv.wait with the generation predicate (code as read)
          NotifyAll,   \* knob: TRUE = notify_all (code as read)
          DropFirst    \* knob: TRUE = wait_and_drop lowers threshold_ before the count test (code as read)

VARIABLES prog, threshold, count, gen, mtx, cvs, pc, opi, op, lgen, dropRound, ev

vars == <<prog, threshold, count, gen, mtx, cvs, pc, opi, op, lgen, dropRound, ev>>
View == <<prog, threshold, count, gen, mtx, cvs, pc, opi, op, lgen, dropRound>>

OpName == <<"wait", "wait_and_drop">>
Threads == 1..Len(prog)
NoEv == [t |-> 0, k |-> "init", o |-> "", v |-> 0, w |-> 0]
E(t, k, o, v, w) == [t |-> t, k |-> k, o |-> o, v |-> v, w |-> w]
Wrap == 1000000   \* stands for the size_t wrap-around of 0 - 1

Init0(p) == [prog |-> p, threshold |-> Len(p), count |-> Len(p), gen |-> 0, mtx |-> 0,
             cvs |-> [t \in 1..Len(p) |-> 0], pc |-> [t \in 1..Len(p) |-> "idle"],
             opi |-> [t \in 1..Len(p) |-> 1], op |-> [t \in 1..Len(p) |-> 0],
             lgen |-> [t \in 1..Len(p) |-> 0], dropRound |-> [t \in 1..Len(p) |-> 0], ev |-> NoEv]
InitWith(p) == LET s == Init0(p) IN
    /\ prog = s.prog /\ threshold = s.threshold /\ count = s.count /\ gen = s.gen /\ mtx = s.mtx /\ cvs = s.cvs
    /\ pc = s.pc /\ opi = s.opi /\ op = s.op /\ lgen = s.lgen /\ dropRound = s.dropRound /\ ev = s.ev
ResetTo(p) == LET s == Init0(p) IN
    /\ prog' = s.prog /\ threshold' = s.threshold /\ count' = s.count /\ gen' = s.gen /\ mtx' = s.mtx /\ cvs' = s.cvs
    /\ pc' = s.pc /\ opi' = s.opi /\ op' = s.op /\ lgen' = s.lgen /\ dropRound' = s.dropRound /\ ev' = s.ev
Init == \E p \in Progs : InitWith(p)

Goto(t, l) == pc' = [pc EXCEPT ![t] = l]

Call(t) ==
    /\ pc[t] = "idle" /\ opi[t] <= Len(prog[t]) /\ dropRound[t] = 0
    /\ \E j \in 1..Len(prog[t][opi[t]]) :
         LET o == prog[t][opi[t]][j] IN
         /\ op' = [op EXCEPT ![t] = o]
         /\ Goto(t, "lock")
         /\ ev' = E(t, "call", OpName[o + 1], 0, 0)
    /\ UNCHANGED <<prog, threshold, count, gen, mtx, cvs, opi, lgen, dropRound>>

Dec(x) == IF x = 0 THEN Wrap ELSE x - 1

\* lock + everything up to the next visible operation
Lock(t) ==
    /\ pc[t] = "lock" /\ mtx = 0
    /\ mtx' = t
    /\ lgen' = [lgen EXCEPT ![t] = gen]
    /\ LET th1 == IF op[t] = 1 /\ DropFirst THEN Dec(threshold) ELSE threshold
           c1  == Dec(count)
           last == c1 = 0
           th2 == IF op[t] = 1 /\ ~DropFirst THEN Dec(th1) ELSE th1
       IN /\ threshold' = th2
          /\ IF last THEN gen' = gen + 1 /\ count' = th1 ELSE gen' = gen /\ count' = c1
          /\ Goto(t, IF last THEN "notify" ELSE "cvwait")
    /\ dropRound' = IF op[t] = 1 THEN [dropRound EXCEPT ![t] = opi[t]] ELSE dropRound
    /\ ev' = E(t, "mlock", "mtx", 0, 0)
    /\ UNCHANGED <<prog, cvs, opi, op>>

Waiting == {u \in Threads : cvs[u] = 1}
Notify(t) ==
    /\ pc[t] = "notify"
    /\ IF NotifyAll
         THEN /\ cvs' = [u \in Threads |-> IF cvs[u] = 1 THEN 2 ELSE cvs[u]]
              /\ ev' = E(t, "notify", "cv", 1, Cardinality(Waiting))
         ELSE \/ /\ Waiting = {} /\ cvs' = cvs /\ ev' = E(t, "notify", "cv", 0, 0)
              \/ \E u \in Waiting : cvs' = [cvs EXCEPT ![u] = 2] /\ ev' = E(t, "notify", "cv", 0, 1)
    /\ Goto(t, "unlock")
    /\ UNCHANGED <<prog, threshold, count, gen, mtx, opi, op, lgen, dropRound>>

CvWait(t) ==
    /\ pc[t] = "cvwait"
    /\ mtx' = 0 /\ cvs' = [cvs EXCEPT ![t] = 1] /\ Goto(t, "wake")
    /\ ev' = E(t, "cvwait", "cv", 0, 0)
    /\ UNCHANGED <<prog, threshold, count, gen, opi, op, lgen, dropRound>>

Wake(t, why) ==
    /\ pc[t] = "wake"
    /\ \/ why = 0 /\ cvs[t] = 2
       \/ why = 1 /\ cvs[t] = 1 /\ Spurious
    /\ cvs' = [cvs EXCEPT ![t] = 0] /\ Goto(t, "relock")
    /\ ev' = E(t, "cvwake", "cv", why, 0)
    /\ UNCHANGED <<prog, threshold, count, gen, mtx, opi, op, lgen, dropRound>>

\* re-acquire + predicate evaluation
Relock(t) ==
    /\ pc[t] = "relock" /\ mtx = 0
    /\ mtx' = t
    /\ Goto(t, IF PredLoop /\ lgen[t] = gen THEN "cvwait" ELSE "unlock")
    /\ ev' = E(t, "mlock", "mtx", 0, 0)
    /\ UNCHANGED <<prog, threshold, count, gen, cvs, opi, op, lgen, dropRound>>

Unlock(t) ==
    /\ pc[t] = "unlock"
    /\ mtx' = 0 /\ Goto(t, "ret") /\ ev' = E(t, "munlock", "mtx", 0, 0)
    /\ UNCHANGED <<prog, threshold, count, gen, cvs, opi, op, lgen, dropRound>>

Ret(t) ==
    /\ pc[t] = "ret"
    /\ Goto(t, "idle") /\ opi' = [opi EXCEPT ![t] = opi[t] + 1]
    /\ ev' = E(t, "ret", OpName[op[t] + 1], 0, 0)
    /\ UNCHANGED <<prog, threshold, count, gen, mtx, cvs, op, lgen, dropRound>>

StepNS(t) == Call(t) \/ Lock(t) \/ Notify(t) \/ CvWait(t) \/ Wake(t, 0) \/ Relock(t) \/ Unlock(t) \/ Ret(t)
Step(t) == StepNS(t) \/ Wake(t, 1)
Next == \E t \in Threads : Step(t)
Spec == Init /\ [][Next]_vars
FairSpec == Spec /\ \A t \in 1..5 : WF_vars(t \in Threads /\ StepNS(t))

-----------------------------------------------------------------------------
Quiescent == \A t \in Threads : ~ENABLED StepNS(t)
\* u has made its n-th arrival (the call of its n-th operation)
Arrived(u, n) == opi[u] > n \/ (opi[u] = n /\ pc[u] # "idle")
\* u left the barrier in an earlier round
DroppedBefore(u, n) == dropRound[u] # 0 /\ dropRound[u] < n
AllIn(n) == \A u \in Threads : Arrived(u, n) \/ DroppedBefore(u, n)

TypeOK == mtx \in 0..Len(prog) /\ \A t \in Threads : cvs[t] \in 0..2

\* C09: no thread returns from its n-th wait before all current participants made their n-th arrival
NoEarlyReturn == \A t \in Threads : pc[t] = "ret" => AllIn(opi[t])

\* C09: when the last participant arrives all are released: no thread stays inside round n for ever
\* once everybody is in
NoLostWakeup == Quiescent => \A t \in Threads : (pc[t] # "idle") => ~AllIn(opi[t])

NoLeakedLock == Quiescent => mtx = 0

\* the drop accounting: threshold is the number of threads that have not dropped (as long as one remains)
DropCounts == (\E t \in Threads : dropRound[t] = 0) =>
                  threshold = Cardinality({t \in Threads : dropRound[t] = 0 \/ (pc[t] = "lock")})

AllReturn == \A n \in 1..3 : (AllIn(n) ~> \A t \in Threads : (opi[t] > n \/ DroppedBefore(t, n)))
=============================================================================

SPECIFICATION TSpec
CONSTANTS
  Progs = {}
  Shareds = {}
  MaxThrows = 3
  PushBeforeFlag = TRUE
  DrainNeedsLock = TRUE
  DrainFifo = TRUE
INVARIANTS AtMostOnce Exclusive Order NoStranding NoLoss NoLeakedLock
POSTCONDITION Accepted
CHECK_DEADLOCK FALSE

------------------------------- MODULE RcuMon -------------------------------
(* Property monitor for rcu_list / rcu_guarded over API-level, payload and     *)
(* allocator events (tracing, quarantining allocator).  Tags:                  *)
(*  C05 no touch of freed list memory (uaf reports); no node destroyed or      *)
(*      deallocated while a handle that was registered when its erase happened *)
(*      is still alive                                                        *)
(*  C12 traversals: no duplicates, only inserted values, every element stable  *)
(*      during the traversal is visited, order consistent with real time;      *)
(*      final contents = pushed minus erased, in a consistent order            *)
(*  C13 allocate/construct/destroy/deallocate exactly once each, in order, no  *)
(*      null destroy; everything is freed after list destruction; without any  *)
(*      erase no node is freed before that                                     *)
(*  C14 readers never starve (solo schedules); nothing hangs                   *)
EXTENDS TraceBase
VARIABLES l, life, reg, gen, must, anyErase, ending, vals, erasing, vis, startSet, inop, fin, target
mv == <<life, reg, gen, must, anyErase, ending, vals, erasing, vis, startSet, inop, fin, target>>
MaxT == 8
TT == 0..MaxT
Viol(what) == MonViol(l, what)
Get(f, k, d) == IF k \in DOMAIN f THEN f[k] ELSE d
Put(f, k, v) == [x \in DOMAIN f \cup {k} |-> IF x = k THEN v ELSE f[x]]
L0 == [a |-> 0, c |-> 0, d |-> 0, f |-> 0]     \* allocated, constructed, destroyed, deallocated counts
\* vals: value |-> [kind: "front"|"back", call: line of the call, ret: line of completion (0 = not yet)]
Readers == {"traverse", "touch", "traverse_star"}
PushOps == {"push_back", "push_front", "emplace_front", "emplace_back"}
IsBack(o) == o \in {"push_back", "emplace_back"}
\* x is certainly before y in list order
DefBefore(x, y) == /\ x \in DOMAIN vals /\ y \in DOMAIN vals /\ x # y
                   /\ \/ (vals[y].kind = "back" /\ vals[x].ret # 0 /\ vals[x].ret < vals[y].call)
                      \/ (vals[x].kind = "front" /\ vals[y].ret # 0 /\ vals[y].ret < vals[x].call)
OrderOK(q) == \A i, j \in 1..Len(q) : i < j => ~DefBefore(q[j], q[i])
NoDup(q) == \A i, j \in 1..Len(q) : i # j => q[i] # q[j]
SeqSet(q) == {q[j] : j \in 1..Len(q)}
TInit == /\ l = 1 /\ life = <<>> /\ reg = {} /\ gen = [t \in TT |-> 0] /\ must = <<>> /\ anyErase = FALSE /\ ending = FALSE
         /\ vals = <<>> /\ erasing = {} /\ vis = [t \in TT |-> <<>>] /\ startSet = [t \in TT |-> {}] /\ inop = [t \in TT |-> ""]
         /\ fin = <<>> /\ target = [t \in TT |-> 0] /\ TLCSet(1, 0)
TNext ==
    /\ l <= Len(Tr)
    /\ l' = l + 1
    /\ LET e == Tr[l]
           t == IF e.t \in TT THEN e.t ELSE 0
           key == <<e.o, e.i>>
           cur == Get(life, key, L0) IN
       CASE e.k = "reset" ->
              /\ life' = <<>> /\ reg' = {} /\ gen' = [u \in TT |-> 0] /\ must' = <<>> /\ anyErase' = FALSE /\ ending' = FALSE
              /\ vals' = <<>> /\ erasing' = {} /\ vis' = [u \in TT |-> <<>>] /\ startSet' = [u \in TT |-> {}] /\ inop' = [u \in TT |-> ""]
              /\ fin' = <<>> /\ target' = [u \in TT |-> 0]
         [] e.k = "call" ->
              /\ inop' = [inop EXCEPT ![t] = e.o]
              /\ vals' = IF e.o \in PushOps THEN Put(vals, e.v, [kind |-> IF IsBack(e.o) THEN "back" ELSE "front", call |-> l, ret |-> 0]) ELSE vals
              /\ vis' = [vis EXCEPT ![t] = <<>>]
              \* elements certainly in the list for the whole traversal unless an erase of them has begun by its end
              /\ startSet' = [startSet EXCEPT ![t] = {v \in DOMAIN vals : vals[v].ret # 0 /\ v \notin erasing}]
              /\ UNCHANGED <<life, reg, gen, must, anyErase, ending, erasing, fin, target>>
         [] e.k = "pushed" -> vals' = [vals EXCEPT ![e.v].ret = l] /\ UNCHANGED <<life, reg, gen, must, anyErase, ending, erasing, vis, startSet, inop, fin, target>>
         [] e.k = "pr" ->
              /\ vis' = [vis EXCEPT ![t] = Append(@, e.v)]
              /\ UNCHANGED <<life, reg, gen, must, anyErase, ending, vals, erasing, startSet, inop, fin, target>>
         [] e.k = "ret" ->
              /\ (e.o \in {"traverse", "traverse_star"} /\ ~NoDup(vis[t])) => Viol("C12: a traversal visited an element twice")
              /\ (e.o \in {"traverse", "traverse_star"} /\ ~(SeqSet(vis[t]) \subseteq DOMAIN vals)) => Viol("C12: a traversal returned a value that was never inserted")
              /\ (e.o \in {"traverse", "traverse_star"} /\ ~((startSet[t] \ erasing) \subseteq SeqSet(vis[t]))) => Viol("C12: a traversal skipped an element that stayed in the list throughout")
              /\ (e.o \in {"traverse", "traverse_star"} /\ ~OrderOK(vis[t])) => Viol("C12: a traversal returned elements out of list order")
              /\ inop' = [inop EXCEPT ![t] = ""]
              /\ UNCHANGED <<life, reg, gen, must, anyErase, ending, vals, erasing, vis, startSet, fin, target>>
         [] e.k = "hreg" ->
              /\ gen' = [gen EXCEPT ![t] = @ + 1] /\ reg' = reg \cup {<<t, gen[t] + 1>>}
              /\ UNCHANGED <<life, must, anyErase, ending, vals, erasing, vis, startSet, inop, fin, target>>
         \* hrelb: the handle is about to be destroyed: from here on its owner no longer uses the list (its destructor may
         \* already have cleared the registration when the marker after the destructor, hrel, is logged)
         [] e.k = "hrelb" -> reg' = reg \ {<<t, gen[t]>>} /\ UNCHANGED <<life, gen, must, anyErase, ending, vals, erasing, vis, startSet, inop, fin, target>>
         [] e.k = "erasing" ->
              /\ erasing' = erasing \cup {e.v} /\ anyErase' = TRUE /\ target' = [target EXCEPT ![t] = e.i]
              /\ UNCHANGED <<life, reg, gen, must, ending, vals, vis, startSet, inop, fin>>
         [] e.k = "erased" ->
              /\ target' = [target EXCEPT ![t] = 0]
              /\ UNCHANGED <<life, reg, gen, must, anyErase, ending, vals, erasing, vis, startSet, inop, fin>>
         [] e.k = "cas" /\ e.o = "zhead" /\ e.u = 1 /\ target[t] # 0 ->
              \* the erase has happened (its log record is published): the handles known to be registered now (hreg is
              \* logged only after registration completed) were in use at that moment and must outlive the node
              /\ must' = Put(must, target[t], Get(must, target[t], {}) \cup reg)
              /\ UNCHANGED <<life, reg, gen, anyErase, ending, vals, erasing, vis, startSet, inop, fin, target>>
         [] e.k = "uaf" -> Viol("C05: freed list memory is touched (" \o e.o \o " " \o ToString(e.i) \o ")") /\ UNCHANGED mv
         [] e.k = "alloc" -> life' = Put(life, key, [cur EXCEPT !.a = @ + 1]) /\ UNCHANGED <<reg, gen, must, anyErase, ending, vals, erasing, vis, startSet, inop, fin, target>>
         [] e.k = "construct" ->
              /\ (cur.a # 1 \/ cur.c # 0) => Viol("C13: construct on storage that is not freshly allocated")
              /\ life' = Put(life, key, [cur EXCEPT !.c = @ + 1])
              /\ UNCHANGED <<reg, gen, must, anyErase, ending, vals, erasing, vis, startSet, inop, fin, target>>
         [] e.k = "destroy" ->
              /\ (e.i = 0) => Viol("C13: something that was never constructed is destroyed (null)")
              /\ (e.i # 0 /\ cur.c # 1) => Viol("C13: destroy of an object that was not constructed")
              /\ (e.i # 0 /\ cur.d # 0) => Viol("C13: an object is destroyed twice (C05: freed list memory is touched)")
              /\ (e.o = "n" /\ e.i # 0 /\ ~ending /\ (Get(must, e.i, {}) \cap reg) # {}) =>
                     Viol("C05: an erased element is destroyed while a handle that was in use at the erase is still alive")
              /\ (e.o = "n" /\ e.i # 0 /\ ~ending /\ ~anyErase) => Viol("C13: an element is destroyed although nothing was erased")
              /\ life' = IF e.i = 0 THEN life ELSE Put(life, key, [cur EXCEPT !.d = @ + 1])
              /\ UNCHANGED <<reg, gen, must, anyErase, ending, vals, erasing, vis, startSet, inop, fin, target>>
         [] e.k = "dealloc" ->
              /\ (e.i # 0 /\ (cur.a # 1 \/ cur.f # 0)) => Viol("C13: storage is deallocated twice or was never allocated (C05: freed list memory is touched)")
              /\ (e.i # 0 /\ cur.c = 1 /\ cur.d = 0) => Viol("C13: storage is deallocated while its object is still constructed")
              /\ (e.o = "n" /\ e.i # 0 /\ ~ending /\ (Get(must, e.i, {}) \cap reg) # {}) =>
                     Viol("C05: an erased element is deallocated while a handle that was in use at the erase is still alive")
              /\ life' = IF e.i = 0 THEN life ELSE Put(life, key, [cur EXCEPT !.f = @ + 1])
              /\ UNCHANGED <<reg, gen, must, anyErase, ending, vals, erasing, vis, startSet, inop, fin, target>>
         [] e.k = "fin" -> fin' = Append(fin, e.v) /\ UNCHANGED <<life, reg, gen, must, anyErase, ending, vals, erasing, vis, startSet, inop, target>>
         [] e.k = "finend" ->
              /\ (~NoDup(fin) \/ SeqSet(fin) # (DOMAIN vals \ erasing)) => Viol("C12: final contents are not the inserted minus the erased elements")
              /\ ~OrderOK(fin) => Viol("C12: final contents are in an order no sequential execution produces")
              /\ ending' = TRUE
              /\ UNCHANGED <<life, reg, gen, must, anyErase, vals, erasing, vis, startSet, inop, fin, target>>
         [] e.k = "destroyed" ->
              /\ (\E k \in DOMAIN life : life[k].a # 1 \/ life[k].f # 1 \/ life[k].c # life[k].d \/ life[k].c > 1) =>
                     Viol("C13: after destruction of the list something it allocated was not destroyed and deallocated exactly once")
              /\ (e.v # 0) => Viol("C13: element instances are still alive after destruction of the list")
              /\ UNCHANGED mv
         [] e.k = "starved" ->
              /\ (inop[t] \in Readers) => Viol("C14: a reader cannot proceed while the other threads are suspended")
              /\ UNCHANGED mv
         [] e.k = "soloyield" ->
              /\ (inop[t] \in Readers) => Viol("C14: a reader spins waiting for a writer")
              /\ UNCHANGED mv
         [] e.k \in {"deadlock", "budget"} -> Viol("C14: an operation never completes (deadlock or livelock)") /\ UNCHANGED mv
         [] e.k \in {"crash", "terminate"} -> Viol("C05: crash") /\ UNCHANGED mv
         [] OTHER -> UNCHANGED mv
    /\ Mark(l)
TSpec == TInit /\ [][TNext]_<<l, mv>>
Accepted == IF TLCGet(1) = Len(Tr) THEN TRUE ELSE Rejected(TLCGet(1) + 1)
=============================================================================

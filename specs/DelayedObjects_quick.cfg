SPECIFICATION Spec
CONSTANTS
  Progs <- QuickProgs
  SetUnderLock = TRUE
VIEW View
INVARIANTS TypeOK Linearizable NoHang CompletedIsReady NoLeakedLock
PROPERTY SetOnce
CHECK_DEADLOCK FALSE

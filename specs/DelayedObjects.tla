---------------------------- MODULE DelayedObjects ----------------------------
(***************************************************************************)
(* gmlc::concurrency::DelayedObjects<X>: four maps of promises under one    *)
(* mutex; every operation is one critical section (lock_guard) whose effect *)
(* is the sequential meaning of DelayedObjSeq; consumers block on futures.  *)
(* Operation code = kind * 10 + key; kinds 0 getFuture 1 set_copy 2 set_move *)
(* 3 fulfillAll 4 finished 5 isRecognized 6 isCompleted 7 wait.             *)
(***************************************************************************)
EXTENDS DelayedObjSeq, TLC
CONSTANTS Progs,
          SetUnderLock     \* knob: the value is stored in the promise while the lock is held (code as read)
VARIABLES prog, abs, pl, claimed, th, lin, ev
vars == <<prog, abs, pl, claimed, th, lin, ev>>
View == <<prog, abs, pl, claimed, th, lin>>
L == INSTANCE SeqLin
KindName == <<"getFuture", "set_copy", "set_move", "fulfillAll", "finished", "isRecognized", "isCompleted", "wait">>
Dig == <<"0", "1", "2", "3", "4", "5", "6", "7", "8", "9">>
OpName(c) == KindName[(c \div 10) + 1] \o Dig[(c % 10) + 1]
Threads == 1..Len(prog)
NoEv == [t |-> 0, k |-> "init", o |-> "", i |-> 0, v |-> 0, w |-> 0]
E(t, k, o, i, v, w) == [t |-> t, k |-> k, o |-> o, i |-> i, v |-> v, w |-> w]
Val(t, c) == IF c \div 10 \in {1, 2} THEN 10 * t + th[t].opi ELSE IF c \div 10 = 3 THEN 100 + 10 * t + th[t].opi ELSE 0
Op(t, c) == [n |-> KindName[(c \div 10) + 1], k |-> c % 10, v |-> Val(t, c)]
NoOp == [n |-> "none", k |-> 1, v |-> 0]
Th0 == [pc |-> "idle", op |-> 0, opi |-> 1, res |-> 0, o |-> NoOp]
Init0(p) == [prog |-> p, abs |-> S0, pl |-> 0, claimed |-> [k \in Keys |-> FALSE], th |-> [t \in 1..Len(p) |-> Th0],
             lin |-> L!LinInit(S0, 1..Len(p)), ev |-> NoEv]
InitWith(p) == LET z == Init0(p) IN prog = z.prog /\ abs = z.abs /\ pl = z.pl /\ claimed = z.claimed /\ th = z.th /\ lin = z.lin /\ ev = z.ev
ResetTo(p) == LET z == Init0(p) IN prog' = z.prog /\ abs' = z.abs /\ pl' = z.pl /\ claimed' = z.claimed /\ th' = z.th /\ lin' = z.lin /\ ev' = z.ev
Init == \E p \in Progs : InitWith(p)
Ops == [t \in Threads |-> th[t].o]

Call(t) ==
    /\ th[t].pc = "idle" /\ th[t].opi <= Len(prog[t])
    /\ \E j \in 1..Len(prog[t][th[t].opi]) :
         LET c == prog[t][th[t].opi][j]
             kd == c \div 10
             key == c % 10
             \* a future is requested at most once per key; a consumer without a future has nothing to wait for
             skip == (kd = 0 /\ claimed[key]) \/ (kd = 7 /\ ~claimed[key])
             o == IF skip THEN NoOp ELSE Op(t, c) IN
         /\ th' = [th EXCEPT ![t] = [@ EXCEPT !.op = c, !.o = o, !.res = IF skip THEN -3 ELSE 0,
                                            !.pc = IF skip THEN "ret" ELSE IF kd = 7 THEN "wait" ELSE "lock"]]
         /\ claimed' = IF kd = 0 THEN [claimed EXCEPT ![key] = TRUE] ELSE claimed
         /\ lin' = L!LinCall(lin, t, [Ops EXCEPT ![t] = o])
         /\ ev' = E(t, "call", OpName(c), 0, Val(t, c), 0)
    /\ UNCHANGED <<prog, abs, pl>>
\* the whole body runs under the lock: its effect is the sequential meaning
Lock(t) ==
    /\ th[t].pc = "lock" /\ pl = 0 /\ pl' = t
    /\ \E x \in Eff(abs, th[t].o) :
         /\ abs' = (IF SetUnderLock \/ th[t].o.n \notin {"set_copy"} THEN x.s
                    ELSE [x.s EXCEPT !.fut = abs.fut])      \* knob: the map is updated, the promise is not yet satisfied
         /\ th' = [th EXCEPT ![t] = [@ EXCEPT !.pc = "unlock", !.res = x.r]]
    /\ ev' = E(t, "mlock", "pl", 1, 0, 0) /\ UNCHANGED <<prog, claimed, lin>>
Unlock(t) ==
    /\ th[t].pc = "unlock" /\ pl' = 0
    /\ th' = [th EXCEPT ![t] = [@ EXCEPT !.pc = IF ~SetUnderLock /\ th[t].o.n = "set_copy" THEN "late" ELSE "ret"]]
    /\ ev' = E(t, "munlock", "pl", 1, 0, 0) /\ UNCHANGED <<prog, abs, claimed, lin>>
\* knob only: set_value after the unlock (no synchronisation-visible step of its own: it rides on the ret step)
Wait(t) ==
    /\ th[t].pc = "wait" /\ abs.fut[th[t].o.k] # -1
    /\ th' = [th EXCEPT ![t] = [@ EXCEPT !.pc = "ret", !.res = abs.fut[th[t].o.k]]]
    /\ ev' = E(t, "fwait", "fut", th[t].o.k, abs.fut[th[t].o.k], 0) /\ UNCHANGED <<prog, abs, pl, claimed, lin>>
Ret(t) ==
    /\ th[t].pc \in {"ret", "late"}
    /\ abs' = IF th[t].pc = "late" /\ abs.st[th[t].o.k] = "used" /\ abs.fut[th[t].o.k] = -1 THEN [abs EXCEPT !.fut[th[t].o.k] = th[t].o.v] ELSE abs
    /\ th' = [th EXCEPT ![t] = [@ EXCEPT !.pc = "idle", !.opi = @ + 1]]
    /\ lin' = L!LinRet(lin, t, th[t].res)
    \* (the readiness flag that the harness attaches to isCompleted results is judged by the monitor, not matched here)
    /\ ev' = [t |-> t, k |-> "ret", o |-> OpName(th[t].op), i |-> 0, v |-> th[t].res]
    /\ UNCHANGED <<prog, pl, claimed>>
Step(t) == Call(t) \/ Lock(t) \/ Unlock(t) \/ Wait(t) \/ Ret(t)
Next == \E t \in Threads : Step(t)
Spec == Init /\ [][Next]_vars
-----------------------------------------------------------------------------
Quiescent == \A t \in Threads : ~ENABLED Step(t)
Stuck == {t \in Threads : th[t].pc # "idle"}
TypeOK == pl \in 0..Len(prog)
\* C18: histories are linearizable w.r.t. the sequential meaning; nobody blocks for ever on a ready future
Linearizable == lin # {}
NoHang == Quiescent => L!QuiescentOK(lin, Stuck, Ops)
\* C18: a future becomes ready exactly once: a ready future never changes
SetOnce == [][\A k \in Keys : (abs.fut[k] # -1 /\ abs.st[k] # "none" /\ abs'.st[k] = abs.st[k]) => abs'.fut[k] = abs.fut[k]]_vars
\* C18: a completed key has a ready future
CompletedIsReady == \A k \in Keys : abs.st[k] = "used" => abs.fut[k] # -1
NoLeakedLock == Quiescent => pl = 0
=============================================================================

SPECIFICATION Spec
CONSTANTS
  Progs <- ThoroughProgs
  MaxV = 4
  CopyUnderMutex = TRUE
  CancelUnlocks = TRUE
VIEW View
INVARIANTS TypeOK SnapshotValid NoTornSnapshot WriterSerial NoLostCommit RefsOK CleanEnd ReaderWaitFree NoDeadlock
PROPERTY SnapshotImmutable
CHECK_DEADLOCK FALSE

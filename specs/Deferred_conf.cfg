SPECIFICATION Spec
CONSTANTS
  Progs <- ConfProgs
  Shareds = {TRUE}
  MaxThrows = 0
  PushBeforeFlag = TRUE
  DrainNeedsLock = TRUE
  DrainFifo = TRUE

INVARIANTS TypeOK AtMostOnce Exclusive NoTornRead Order NoStranding NoLoss NoLeakedLock NoDeadlock TryNeverBlocks
CHECK_DEADLOCK FALSE

---- MODULE DelayedDestructorMC_TTrace_1790896907 ----
EXTENDS Sequences, DelayedDestructorMC, TLCExt, Toolbox, Naturals, TLC

_expression ==
    LET DelayedDestructorMC_TEExpression == INSTANCE DelayedDestructorMC_TEExpression
    IN DelayedDestructorMC_TEExpression!expression
----

_trace ==
    LET DelayedDestructorMC_TETrace == INSTANCE DelayedDestructorMC_TETrace
    IN DelayedDestructorMC_TETrace!trace
----

_inv ==
    ~(
        TLCGet("level") = Len(_TETrace)
        /\
        ext = ({1})
        /\
        ev = ([t |-> 2, k |-> "dtor", o |-> "obj", i |-> 1, v |-> 0, w |-> 0])
        /\
        gh = ([destroyed |-> {1}, dbl |-> FALSE, owned |-> TRUE, underlock |-> FALSE, cbd |-> {}, cbbad |-> FALSE, added |-> {1}])
        /\
        alive = ({})
        /\
        th = (<<[o |-> 1, opi |-> 1, pc |-> "ret", op |-> 0, res |-> 0, mine |-> 1, sel |-> <<>>, idx |-> 1, back |-> ""], [o |-> 0, opi |-> 1, pc |-> "x5", op |-> 2, res |-> 0, mine |-> 0, sel |-> <<>>, idx |-> 1, back |-> ""]>>)
        /\
        vec = (<<>>)
        /\
        cfg = ([cb |-> FALSE, reenter |-> 0, locked |-> TRUE])
        /\
        dl = (0)
        /\
        prog = (<<<<<<0, 4>>, <<1>>, <<2, 3>>>>, <<<<0, 1, 2, 3, 4>>, <<0, 1, 2, 3, 4>>>>>>)
    )
----

_init ==
    /\ prog = _TETrace[1].prog
    /\ alive = _TETrace[1].alive
    /\ dl = _TETrace[1].dl
    /\ ext = _TETrace[1].ext
    /\ ev = _TETrace[1].ev
    /\ vec = _TETrace[1].vec
    /\ gh = _TETrace[1].gh
    /\ th = _TETrace[1].th
    /\ cfg = _TETrace[1].cfg
----

_next ==
    /\ \E i,j \in DOMAIN _TETrace:
        /\ \/ /\ j = i + 1
              /\ i = TLCGet("level")
        /\ prog  = _TETrace[i].prog
        /\ prog' = _TETrace[j].prog
        /\ alive  = _TETrace[i].alive
        /\ alive' = _TETrace[j].alive
        /\ dl  = _TETrace[i].dl
        /\ dl' = _TETrace[j].dl
        /\ ext  = _TETrace[i].ext
        /\ ext' = _TETrace[j].ext
        /\ ev  = _TETrace[i].ev
        /\ ev' = _TETrace[j].ev
        /\ vec  = _TETrace[i].vec
        /\ vec' = _TETrace[j].vec
        /\ gh  = _TETrace[i].gh
        /\ gh' = _TETrace[j].gh
        /\ th  = _TETrace[i].th
        /\ th' = _TETrace[j].th
        /\ cfg  = _TETrace[i].cfg
        /\ cfg' = _TETrace[j].cfg

\* Uncomment the ASSUME below to write the states of the error trace
\* to the given file in Json format. Note that you can pass any tuple
\* to `JsonSerialize`. For example, a sub-sequence of _TETrace.
    \* ASSUME
    \*     LET J == INSTANCE Json
    \*         IN J!JsonSerialize("DelayedDestructorMC_TTrace_1790896907.json", _TETrace)

=============================================================================

 Note that you can extract this module `DelayedDestructorMC_TEExpression`
  to a dedicated file to reuse `expression` (the module in the 
  dedicated `DelayedDestructorMC_TEExpression.tla` file takes precedence 
  over the module `DelayedDestructorMC_TEExpression` below).

---- MODULE DelayedDestructorMC_TEExpression ----
EXTENDS Sequences, DelayedDestructorMC, TLCExt, Toolbox, Naturals, TLC

expression == 
    [
        \* To hide variables of the `DelayedDestructorMC` spec from the error trace,
        \* remove the variables below.  The trace will be written in the order
        \* of the fields of this record.
        prog |-> prog
        ,alive |-> alive
        ,dl |-> dl
        ,ext |-> ext
        ,ev |-> ev
        ,vec |-> vec
        ,gh |-> gh
        ,th |-> th
        ,cfg |-> cfg
        
        \* Put additional constant-, state-, and action-level expressions here:
        \* ,_stateNumber |-> _TEPosition
        \* ,_progUnchanged |-> prog = prog'
        
        \* Format the `prog` variable as Json value.
        \* ,_progJson |->
        \*     LET J == INSTANCE Json
        \*     IN J!ToJson(prog)
        
        \* Lastly, you may build expressions over arbitrary sets of states by
        \* leveraging the _TETrace operator.  For example, this is how to
        \* count the number of times a spec variable changed up to the current
        \* state in the trace.
        \* ,_progModCount |->
        \*     LET F[s \in DOMAIN _TETrace] ==
        \*         IF s = 1 THEN 0
        \*         ELSE IF _TETrace[s].prog # _TETrace[s-1].prog
        \*             THEN 1 + F[s-1] ELSE F[s-1]
        \*     IN F[_TEPosition - 1]
    ]

=============================================================================



Parsing and semantic processing can take forever if the trace below is long.
 In this case, it is advised to uncomment the module below to deserialize the
 trace from a generated binary file.

\*
\*---- MODULE DelayedDestructorMC_TETrace ----
\*EXTENDS IOUtils, DelayedDestructorMC, TLC
\*
\*trace == IODeserialize("DelayedDestructorMC_TTrace_1790896907.bin", TRUE)
\*
\*=============================================================================
\*

---- MODULE DelayedDestructorMC_TETrace ----
EXTENDS DelayedDestructorMC, TLC

trace == 
    <<
    ([ext |-> {},ev |-> [t |-> 0, k |-> "init", o |-> "", i |-> 0, v |-> 0, w |-> 0],gh |-> [destroyed |-> {}, dbl |-> FALSE, owned |-> FALSE, underlock |-> FALSE, cbd |-> {}, cbbad |-> FALSE, added |-> {}],alive |-> {},th |-> <<[o |-> 0, opi |-> 1, pc |-> "idle", op |-> 0, res |-> 0, mine |-> 0, sel |-> <<>>, idx |-> 1, back |-> ""], [o |-> 0, opi |-> 1, pc |-> "idle", op |-> 0, res |-> 0, mine |-> 0, sel |-> <<>>, idx |-> 1, back |-> ""]>>,vec |-> <<>>,cfg |-> [cb |-> FALSE, reenter |-> 0, locked |-> TRUE],dl |-> 0,prog |-> <<<<<<0, 4>>, <<1>>, <<2, 3>>>>, <<<<0, 1, 2, 3, 4>>, <<0, 1, 2, 3, 4>>>>>>]),
    ([ext |-> {1},ev |-> [t |-> 1, k |-> "call", o |-> "add", i |-> 0, v |-> 1, w |-> 0],gh |-> [destroyed |-> {}, dbl |-> FALSE, owned |-> FALSE, underlock |-> FALSE, cbd |-> {}, cbbad |-> FALSE, added |-> {1}],alive |-> {1},th |-> <<[o |-> 1, opi |-> 1, pc |-> "a1", op |-> 0, res |-> 0, mine |-> 1, sel |-> <<>>, idx |-> 1, back |-> ""], [o |-> 0, opi |-> 1, pc |-> "idle", op |-> 0, res |-> 0, mine |-> 0, sel |-> <<>>, idx |-> 1, back |-> ""]>>,vec |-> <<>>,cfg |-> [cb |-> FALSE, reenter |-> 0, locked |-> TRUE],dl |-> 0,prog |-> <<<<<<0, 4>>, <<1>>, <<2, 3>>>>, <<<<0, 1, 2, 3, 4>>, <<0, 1, 2, 3, 4>>>>>>]),
    ([ext |-> {1},ev |-> [t |-> 1, k |-> "mlock", o |-> "dl", i |-> 1, v |-> 0, w |-> 0],gh |-> [destroyed |-> {}, dbl |-> FALSE, owned |-> FALSE, underlock |-> FALSE, cbd |-> {}, cbbad |-> FALSE, added |-> {1}],alive |-> {1},th |-> <<[o |-> 1, opi |-> 1, pc |-> "a2", op |-> 0, res |-> 0, mine |-> 1, sel |-> <<>>, idx |-> 1, back |-> ""], [o |-> 0, opi |-> 1, pc |-> "idle", op |-> 0, res |-> 0, mine |-> 0, sel |-> <<>>, idx |-> 1, back |-> ""]>>,vec |-> <<1>>,cfg |-> [cb |-> FALSE, reenter |-> 0, locked |-> TRUE],dl |-> 1,prog |-> <<<<<<0, 4>>, <<1>>, <<2, 3>>>>, <<<<0, 1, 2, 3, 4>>, <<0, 1, 2, 3, 4>>>>>>]),
    ([ext |-> {1},ev |-> [t |-> 1, k |-> "munlock", o |-> "dl", i |-> 1, v |-> 0, w |-> 0],gh |-> [destroyed |-> {}, dbl |-> FALSE, owned |-> FALSE, underlock |-> FALSE, cbd |-> {}, cbbad |-> FALSE, added |-> {1}],alive |-> {1},th |-> <<[o |-> 1, opi |-> 1, pc |-> "ret", op |-> 0, res |-> 0, mine |-> 1, sel |-> <<>>, idx |-> 1, back |-> ""], [o |-> 0, opi |-> 1, pc |-> "idle", op |-> 0, res |-> 0, mine |-> 0, sel |-> <<>>, idx |-> 1, back |-> ""]>>,vec |-> <<1>>,cfg |-> [cb |-> FALSE, reenter |-> 0, locked |-> TRUE],dl |-> 0,prog |-> <<<<<<0, 4>>, <<1>>, <<2, 3>>>>, <<<<0, 1, 2, 3, 4>>, <<0, 1, 2, 3, 4>>>>>>]),
    ([ext |-> {1},ev |-> [t |-> 2, k |-> "call", o |-> "destroy", i |-> 0, v |-> 0, w |-> 0],gh |-> [destroyed |-> {}, dbl |-> FALSE, owned |-> FALSE, underlock |-> FALSE, cbd |-> {}, cbbad |-> FALSE, added |-> {1}],alive |-> {1},th |-> <<[o |-> 1, opi |-> 1, pc |-> "ret", op |-> 0, res |-> 0, mine |-> 1, sel |-> <<>>, idx |-> 1, back |-> ""], [o |-> 0, opi |-> 1, pc |-> "x1", op |-> 2, res |-> 0, mine |-> 0, sel |-> <<>>, idx |-> 1, back |-> ""]>>,vec |-> <<1>>,cfg |-> [cb |-> FALSE, reenter |-> 0, locked |-> TRUE],dl |-> 0,prog |-> <<<<<<0, 4>>, <<1>>, <<2, 3>>>>, <<<<0, 1, 2, 3, 4>>, <<0, 1, 2, 3, 4>>>>>>]),
    ([ext |-> {1},ev |-> [t |-> 2, k |-> "mtimed", o |-> "dl", i |-> 1, v |-> 1, w |-> 0],gh |-> [destroyed |-> {}, dbl |-> FALSE, owned |-> FALSE, underlock |-> FALSE, cbd |-> {}, cbbad |-> FALSE, added |-> {1}],alive |-> {1},th |-> <<[o |-> 1, opi |-> 1, pc |-> "ret", op |-> 0, res |-> 0, mine |-> 1, sel |-> <<>>, idx |-> 1, back |-> ""], [o |-> 0, opi |-> 1, pc |-> "x2", op |-> 2, res |-> 0, mine |-> 0, sel |-> <<1>>, idx |-> 1, back |-> ""]>>,vec |-> <<>>,cfg |-> [cb |-> FALSE, reenter |-> 0, locked |-> TRUE],dl |-> 2,prog |-> <<<<<<0, 4>>, <<1>>, <<2, 3>>>>, <<<<0, 1, 2, 3, 4>>, <<0, 1, 2, 3, 4>>>>>>]),
    ([ext |-> {1},ev |-> [t |-> 2, k |-> "munlock", o |-> "dl", i |-> 1, v |-> 0, w |-> 0],gh |-> [destroyed |-> {}, dbl |-> FALSE, owned |-> FALSE, underlock |-> FALSE, cbd |-> {}, cbbad |-> FALSE, added |-> {1}],alive |-> {1},th |-> <<[o |-> 1, opi |-> 1, pc |-> "ret", op |-> 0, res |-> 0, mine |-> 1, sel |-> <<>>, idx |-> 1, back |-> ""], [o |-> 0, opi |-> 1, pc |-> "dt", op |-> 2, res |-> 0, mine |-> 0, sel |-> <<1>>, idx |-> 1, back |-> ""]>>,vec |-> <<>>,cfg |-> [cb |-> FALSE, reenter |-> 0, locked |-> TRUE],dl |-> 0,prog |-> <<<<<<0, 4>>, <<1>>, <<2, 3>>>>, <<<<0, 1, 2, 3, 4>>, <<0, 1, 2, 3, 4>>>>>>]),
    ([ext |-> {1},ev |-> [t |-> 2, k |-> "dtor", o |-> "obj", i |-> 1, v |-> 0, w |-> 0],gh |-> [destroyed |-> {1}, dbl |-> FALSE, owned |-> TRUE, underlock |-> FALSE, cbd |-> {}, cbbad |-> FALSE, added |-> {1}],alive |-> {},th |-> <<[o |-> 1, opi |-> 1, pc |-> "ret", op |-> 0, res |-> 0, mine |-> 1, sel |-> <<>>, idx |-> 1, back |-> ""], [o |-> 0, opi |-> 1, pc |-> "x5", op |-> 2, res |-> 0, mine |-> 0, sel |-> <<>>, idx |-> 1, back |-> ""]>>,vec |-> <<>>,cfg |-> [cb |-> FALSE, reenter |-> 0, locked |-> TRUE],dl |-> 0,prog |-> <<<<<<0, 4>>, <<1>>, <<2, 3>>>>, <<<<0, 1, 2, 3, 4>>, <<0, 1, 2, 3, 4>>>>>>])
    >>
----


=============================================================================

---- CONFIG DelayedDestructorMC_TTrace_1790896907 ----
CONSTANTS
    Progs <- QuickProgs
    Cbs = { TRUE , FALSE }
    Reenters = { 0 , 1 , 2 }
    Lockeds = { TRUE }
    Timeouts = TRUE
    ClearOutsideLock = TRUE
    SoleOwnerOnly = FALSE

INVARIANT
    _inv

CHECK_DEADLOCK
    \* CHECK_DEADLOCK off because of PROPERTY or INVARIANT above.
    FALSE

INIT
    _init

NEXT
    _next

CONSTANT
    _TETrace <- _trace

ALIAS
    _expression
=============================================================================
\* Generated on Thu Oct 01 23:21:48 UTC 2026
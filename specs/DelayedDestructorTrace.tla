------------------------ MODULE DelayedDestructorTrace ------------------------
EXTENDS DelayedDestructor, TraceBase
VARIABLE l
TInit == l = 1 /\ InitWith(<<>>, [cb |-> TRUE, reenter |-> 0, locked |-> TRUE, cbthrow |-> FALSE]) /\ TLCSet(1, 0)
Skip == LifeKinds \cup {"blocked", "ddgone", "starved", "soloyield"}
TNext ==
    /\ l <= Len(Tr)
    /\ l' = l + 1
    /\ LET e == Tr[l] IN
       \/ e.k = "reset" /\ ResetTo(e.prog, [cb |-> e.p.cb = 1, reenter |-> e.p.reenter, locked |-> e.p.locked = 1,
                                                 cbthrow |-> ("cbthrow" \in DOMAIN e.p /\ e.p.cbthrow # 0 /\ e.p.cb = 1)])
       \/ (e.k \in Skip \/ (e.t = 0 /\ e.k # "reset")) /\ UNCHANGED vars
       \/ e.k \in EndKinds /\ e.t # 0 /\ UNCHANGED vars
       \/ e.t # 0 /\ e.k \notin (Skip \cup EndKinds \cup {"reset"}) /\ Next /\ Matches(ev', e)
    /\ Mark(l)
TSpec == TInit /\ [][TNext]_<<vars, l>>
Accepted == IF TLCGet(1) = Len(Tr) THEN TRUE ELSE Rejected(TLCGet(1) + 1)
=============================================================================

SPECIFICATION Spec
CONSTANTS
  Progs <- ConfProgs
  Spurious = TRUE
  PredLoop = TRUE
  NotifyAll = TRUE
  DropFirst = TRUE
INVARIANTS TypeOK NoEarlyReturn NoLostWakeup NoLeakedLock
CHECK_DEADLOCK FALSE

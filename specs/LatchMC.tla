------------------------------ MODULE LatchMC ------------------------------
EXTENDS Latch
AnyOp == <<0, 1, 2>>             \* a position whose operation is chosen by the model
P(n, k) == [t \in 1..n |-> [i \in 1..k |-> AnyOp]]
QuickProgs == {P(3, 1), P(2, 2)}
ThoroughProgs == {P(4, 1), P(3, 2), P(5, 1)}
ConfProgs == {P(3, 1)}
=============================================================================

----------------------------- MODULE TriggerMon -----------------------------
(* Property monitor for C11: the recorded call/return history of the real    *)
(* TriggerVariable must be linearizable w.r.t. the sequential object of      *)
(* TriggerLin (what C11 states), and at quiescence no stuck call may be owed *)
(* a return.  Uses only call / ret / blocked / deadlock events.              *)
EXTENDS TraceBase, TriggerLin
VARIABLES l, lin, ops, blk
MaxT == 8
TT == 1..MaxT
NoOps == [t \in TT |-> 0]
Code(name) == CASE name = "activate" -> 0 [] name = "trigger" -> 1 [] name = "wait" -> 2 [] name = "wait_for" -> 3
                [] name = "waitActivation" -> 4 [] name = "wait_forActivation" -> 5 [] name = "reset" -> 6
                [] name = "isActive" -> 7 [] name = "isTriggered" -> 8
TInit == l = 1 /\ lin = LinInit(FALSE, TT) /\ ops = NoOps /\ blk = {} /\ TLCSet(1, 0)
Viol(what) == MonViol(l, what)
TNext ==
    /\ l <= Len(Tr)
    /\ l' = l + 1
    /\ LET e == Tr[l] IN
       CASE e.k = "reset" -> lin' = LinInit(e.p.active = 1, TT) /\ ops' = NoOps /\ blk' = {}
         [] e.k = "call" ->
              LET o2 == [ops EXCEPT ![e.t] = Code(e.o)] IN
              ops' = o2 /\ lin' = LinCall(lin, e.t, o2) /\ UNCHANGED blk
         [] e.k = "ret" ->
              LET n == LinRet(lin, e.t, ops[e.t], e.v, ops) IN
              /\ IF n = {} /\ lin # {}
                   THEN Viol("history not linearizable at return of " \o e.o \o " = " \o ToString(e.v)) /\ lin' = {}
                   ELSE lin' = n
              /\ UNCHANGED <<ops, blk>>
         \* the time-out of the caller's own timed wait: the instant it "gave up"
         [] e.k = "cvwake" /\ e.v = 2 /\ e.t \in TT /\ ops[e.t] \in {3, 5} ->
              LET o2 == [ops EXCEPT ![e.t] = @ + 10] IN ops' = o2 /\ lin' = LinGiveUp(lin, o2) /\ UNCHANGED blk
         [] e.k = "blocked" -> blk' = blk \cup ({e.t} \cap TT) /\ UNCHANGED <<lin, ops>>
         [] e.k = "deadlock" ->
              /\ (lin # {} /\ ~QuiescentOK(lin, {t \in blk : \E c \in lin : c.st[t] # NONE}, ops))
                    => Viol("lost wake-up: a blocked call is owed a return in every linearization")
              /\ UNCHANGED <<lin, ops, blk>>
         [] e.k \in {"crash", "terminate"} -> Viol("crash") /\ UNCHANGED <<lin, ops, blk>>
         [] OTHER -> UNCHANGED <<lin, ops, blk>>
    /\ Mark(l)
TSpec == TInit /\ [][TNext]_<<l, lin, ops, blk>>
Accepted == IF TLCGet(1) = Len(Tr) THEN TRUE ELSE Rejected(TLCGet(1) + 1)
=============================================================================

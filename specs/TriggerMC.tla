----------------------------- MODULE TriggerMC -----------------------------
EXTENDS TriggerVariable
All == <<0, 1, 2, 3, 4, 5, 6>>
P(n, k) == [t \in 1..n |-> [i \in 1..k |-> All]]
QuickProgs == {P(3, 1)}
Quick2Progs == {P(2, 2)}
ConfProgs == {P(2, 1), <<<<<<0>>, <<1>>>>, <<<<2, 4>>>>, <<<<6>>>>>>}
\* reduced operation sets for the deeper runs
WaitersVsSetters == {[t \in 1..4 |-> IF t <= 2 THEN <<<<2, 3, 4, 5>>>> ELSE <<<<0, 1, 6>>>>]}
ThreeTwo == {[t \in 1..3 |-> IF t = 1 THEN <<<<2, 4>>, <<2, 3>>>> ELSE <<<<0, 1, 6>>, <<0, 1, 6>>>>]}
=============================================================================

---- MODULE BarrierMC_TTrace_1790874455 ----
EXTENDS BarrierMC, Sequences, TLCExt, Toolbox, Naturals, TLC

_expression ==
    LET BarrierMC_TEExpression == INSTANCE BarrierMC_TEExpression
    IN BarrierMC_TEExpression!expression
----

_trace ==
    LET BarrierMC_TETrace == INSTANCE BarrierMC_TETrace
    IN BarrierMC_TETrace!trace
----

_inv ==
    ~(
        TLCGet("level") = Len(_TETrace)
        /\
        mtx = (0)
        /\
        cvs = (<<1, 0, 0>>)
        /\
        op = (<<0, 1, 1>>)
        /\
        ev = ([k |-> "ret", t |-> 2, o |-> "wait_and_drop", v |-> 0, w |-> 0])
        /\
        gen = (1)
        /\
        pc = (<<"wake", "idle", "idle">>)
        /\
        dropRound = (<<0, 1, 1>>)
        /\
        lgen = (<<0, 0, 0>>)
        /\
        count = (1)
        /\
        opi = (<<1, 2, 2>>)
        /\
        threshold = (1)
        /\
        prog = (<<<<<<0, 1>>, <<0, 1>>>>, <<<<0, 1>>, <<0, 1>>>>, <<<<0, 1>>, <<0, 1>>>>>>)
    )
----

_init ==
    /\ prog = _TETrace[1].prog
    /\ mtx = _TETrace[1].mtx
    /\ cvs = _TETrace[1].cvs
    /\ op = _TETrace[1].op
    /\ pc = _TETrace[1].pc
    /\ ev = _TETrace[1].ev
    /\ lgen = _TETrace[1].lgen
    /\ dropRound = _TETrace[1].dropRound
    /\ count = _TETrace[1].count
    /\ opi = _TETrace[1].opi
    /\ threshold = _TETrace[1].threshold
    /\ gen = _TETrace[1].gen
----

_next ==
    /\ \E i,j \in DOMAIN _TETrace:
        /\ \/ /\ j = i + 1
              /\ i = TLCGet("level")
        /\ prog  = _TETrace[i].prog
        /\ prog' = _TETrace[j].prog
        /\ mtx  = _TETrace[i].mtx
        /\ mtx' = _TETrace[j].mtx
        /\ cvs  = _TETrace[i].cvs
        /\ cvs' = _TETrace[j].cvs
        /\ op  = _TETrace[i].op
        /\ op' = _TETrace[j].op
        /\ pc  = _TETrace[i].pc
        /\ pc' = _TETrace[j].pc
        /\ ev  = _TETrace[i].ev
        /\ ev' = _TETrace[j].ev
        /\ lgen  = _TETrace[i].lgen
        /\ lgen' = _TETrace[j].lgen
        /\ dropRound  = _TETrace[i].dropRound
        /\ dropRound' = _TETrace[j].dropRound
        /\ count  = _TETrace[i].count
        /\ count' = _TETrace[j].count
        /\ opi  = _TETrace[i].opi
        /\ opi' = _TETrace[j].opi
        /\ threshold  = _TETrace[i].threshold
        /\ threshold' = _TETrace[j].threshold
        /\ gen  = _TETrace[i].gen
        /\ gen' = _TETrace[j].gen

\* Uncomment the ASSUME below to write the states of the error trace
\* to the given file in Json format. Note that you can pass any tuple
\* to `JsonSerialize`. For example, a sub-sequence of _TETrace.
    \* ASSUME
    \*     LET J == INSTANCE Json
    \*         IN J!JsonSerialize("BarrierMC_TTrace_1790874455.json", _TETrace)

=============================================================================

 Note that you can extract this module `BarrierMC_TEExpression`
  to a dedicated file to reuse `expression` (the module in the 
  dedicated `BarrierMC_TEExpression.tla` file takes precedence 
  over the module `BarrierMC_TEExpression` below).

---- MODULE BarrierMC_TEExpression ----
EXTENDS BarrierMC, Sequences, TLCExt, Toolbox, Naturals, TLC

expression == 
    [
        \* To hide variables of the `BarrierMC` spec from the error trace,
        \* remove the variables below.  The trace will be written in the order
        \* of the fields of this record.
        prog |-> prog
        ,mtx |-> mtx
        ,cvs |-> cvs
        ,op |-> op
        ,pc |-> pc
        ,ev |-> ev
        ,lgen |-> lgen
        ,dropRound |-> dropRound
        ,count |-> count
        ,opi |-> opi
        ,threshold |-> threshold
        ,gen |-> gen
        
        \* Put additional constant-, state-, and action-level expressions here:
        \* ,_stateNumber |-> _TEPosition
        \* ,_progUnchanged |-> prog = prog'
        
        \* Format the `prog` variable as Json value.
        \* ,_progJson |->
        \*     LET J == INSTANCE Json
        \*     IN J!ToJson(prog)
        
        \* Lastly, you may build expressions over arbitrary sets of states by
        \* leveraging the _TETrace operator.  For example, this is how to
        \* count the number of times a spec variable changed up to the current
        \* state in the trace.
        \* ,_progModCount |->
        \*     LET F[s \in DOMAIN _TETrace] ==
        \*         IF s = 1 THEN 0
        \*         ELSE IF _TETrace[s].prog # _TETrace[s-1].prog
        \*             THEN 1 + F[s-1] ELSE F[s-1]
        \*     IN F[_TEPosition - 1]
    ]

=============================================================================



Parsing and semantic processing can take forever if the trace below is long.
 In this case, it is advised to uncomment the module below to deserialize the
 trace from a generated binary file.

\*
\*---- MODULE BarrierMC_TETrace ----
\*EXTENDS BarrierMC, IOUtils, TLC
\*
\*trace == IODeserialize("BarrierMC_TTrace_1790874455.bin", TRUE)
\*
\*=============================================================================
\*

---- MODULE BarrierMC_TETrace ----
EXTENDS BarrierMC, TLC

trace == 
    <<
    ([mtx |-> 0,cvs |-> <<0, 0, 0>>,op |-> <<0, 0, 0>>,ev |-> [k |-> "init", t |-> 0, o |-> "", v |-> 0, w |-> 0],gen |-> 0,pc |-> <<"idle", "idle", "idle">>,dropRound |-> <<0, 0, 0>>,lgen |-> <<0, 0, 0>>,count |-> 3,opi |-> <<1, 1, 1>>,threshold |-> 3,prog |-> <<<<<<0, 1>>, <<0, 1>>>>, <<<<0, 1>>, <<0, 1>>>>, <<<<0, 1>>, <<0, 1>>>>>>]),
    ([mtx |-> 0,cvs |-> <<0, 0, 0>>,op |-> <<0, 0, 0>>,ev |-> [k |-> "call", t |-> 1, o |-> "wait", v |-> 0, w |-> 0],gen |-> 0,pc |-> <<"lock", "idle", "idle">>,dropRound |-> <<0, 0, 0>>,lgen |-> <<0, 0, 0>>,count |-> 3,opi |-> <<1, 1, 1>>,threshold |-> 3,prog |-> <<<<<<0, 1>>, <<0, 1>>>>, <<<<0, 1>>, <<0, 1>>>>, <<<<0, 1>>, <<0, 1>>>>>>]),
    ([mtx |-> 1,cvs |-> <<0, 0, 0>>,op |-> <<0, 0, 0>>,ev |-> [k |-> "mlock", t |-> 1, o |-> "mtx", v |-> 0, w |-> 0],gen |-> 0,pc |-> <<"cvwait", "idle", "idle">>,dropRound |-> <<0, 0, 0>>,lgen |-> <<0, 0, 0>>,count |-> 2,opi |-> <<1, 1, 1>>,threshold |-> 3,prog |-> <<<<<<0, 1>>, <<0, 1>>>>, <<<<0, 1>>, <<0, 1>>>>, <<<<0, 1>>, <<0, 1>>>>>>]),
    ([mtx |-> 1,cvs |-> <<0, 0, 0>>,op |-> <<0, 1, 0>>,ev |-> [k |-> "call", t |-> 2, o |-> "wait_and_drop", v |-> 0, w |-> 0],gen |-> 0,pc |-> <<"cvwait", "lock", "idle">>,dropRound |-> <<0, 0, 0>>,lgen |-> <<0, 0, 0>>,count |-> 2,opi |-> <<1, 1, 1>>,threshold |-> 3,prog |-> <<<<<<0, 1>>, <<0, 1>>>>, <<<<0, 1>>, <<0, 1>>>>, <<<<0, 1>>, <<0, 1>>>>>>]),
    ([mtx |-> 0,cvs |-> <<1, 0, 0>>,op |-> <<0, 1, 0>>,ev |-> [k |-> "cvwait", t |-> 1, o |-> "cv", v |-> 0, w |-> 0],gen |-> 0,pc |-> <<"wake", "lock", "idle">>,dropRound |-> <<0, 0, 0>>,lgen |-> <<0, 0, 0>>,count |-> 2,opi |-> <<1, 1, 1>>,threshold |-> 3,prog |-> <<<<<<0, 1>>, <<0, 1>>>>, <<<<0, 1>>, <<0, 1>>>>, <<<<0, 1>>, <<0, 1>>>>>>]),
    ([mtx |-> 2,cvs |-> <<1, 0, 0>>,op |-> <<0, 1, 0>>,ev |-> [k |-> "mlock", t |-> 2, o |-> "mtx", v |-> 0, w |-> 0],gen |-> 0,pc |-> <<"wake", "cvwait", "idle">>,dropRound |-> <<0, 1, 0>>,lgen |-> <<0, 0, 0>>,count |-> 1,opi |-> <<1, 1, 1>>,threshold |-> 2,prog |-> <<<<<<0, 1>>, <<0, 1>>>>, <<<<0, 1>>, <<0, 1>>>>, <<<<0, 1>>, <<0, 1>>>>>>]),
    ([mtx |-> 2,cvs |-> <<1, 0, 0>>,op |-> <<0, 1, 1>>,ev |-> [k |-> "call", t |-> 3, o |-> "wait_and_drop", v |-> 0, w |-> 0],gen |-> 0,pc |-> <<"wake", "cvwait", "lock">>,dropRound |-> <<0, 1, 0>>,lgen |-> <<0, 0, 0>>,count |-> 1,opi |-> <<1, 1, 1>>,threshold |-> 2,prog |-> <<<<<<0, 1>>, <<0, 1>>>>, <<<<0, 1>>, <<0, 1>>>>, <<<<0, 1>>, <<0, 1>>>>>>]),
    ([mtx |-> 0,cvs |-> <<1, 1, 0>>,op |-> <<0, 1, 1>>,ev |-> [k |-> "cvwait", t |-> 2, o |-> "cv", v |-> 0, w |-> 0],gen |-> 0,pc |-> <<"wake", "wake", "lock">>,dropRound |-> <<0, 1, 0>>,lgen |-> <<0, 0, 0>>,count |-> 1,opi |-> <<1, 1, 1>>,threshold |-> 2,prog |-> <<<<<<0, 1>>, <<0, 1>>>>, <<<<0, 1>>, <<0, 1>>>>, <<<<0, 1>>, <<0, 1>>>>>>]),
    ([mtx |-> 3,cvs |-> <<1, 1, 0>>,op |-> <<0, 1, 1>>,ev |-> [k |-> "mlock", t |-> 3, o |-> "mtx", v |-> 0, w |-> 0],gen |-> 1,pc |-> <<"wake", "wake", "notify">>,dropRound |-> <<0, 1, 1>>,lgen |-> <<0, 0, 0>>,count |-> 1,opi |-> <<1, 1, 1>>,threshold |-> 1,prog |-> <<<<<<0, 1>>, <<0, 1>>>>, <<<<0, 1>>, <<0, 1>>>>, <<<<0, 1>>, <<0, 1>>>>>>]),
    ([mtx |-> 3,cvs |-> <<1, 2, 0>>,op |-> <<0, 1, 1>>,ev |-> [k |-> "notify", t |-> 3, o |-> "cv", v |-> 0, w |-> 1],gen |-> 1,pc |-> <<"wake", "wake", "unlock">>,dropRound |-> <<0, 1, 1>>,lgen |-> <<0, 0, 0>>,count |-> 1,opi |-> <<1, 1, 1>>,threshold |-> 1,prog |-> <<<<<<0, 1>>, <<0, 1>>>>, <<<<0, 1>>, <<0, 1>>>>, <<<<0, 1>>, <<0, 1>>>>>>]),
    ([mtx |-> 0,cvs |-> <<1, 2, 0>>,op |-> <<0, 1, 1>>,ev |-> [k |-> "munlock", t |-> 3, o |-> "mtx", v |-> 0, w |-> 0],gen |-> 1,pc |-> <<"wake", "wake", "ret">>,dropRound |-> <<0, 1, 1>>,lgen |-> <<0, 0, 0>>,count |-> 1,opi |-> <<1, 1, 1>>,threshold |-> 1,prog |-> <<<<<<0, 1>>, <<0, 1>>>>, <<<<0, 1>>, <<0, 1>>>>, <<<<0, 1>>, <<0, 1>>>>>>]),
    ([mtx |-> 0,cvs |-> <<1, 2, 0>>,op |-> <<0, 1, 1>>,ev |-> [k |-> "ret", t |-> 3, o |-> "wait_and_drop", v |-> 0, w |-> 0],gen |-> 1,pc |-> <<"wake", "wake", "idle">>,dropRound |-> <<0, 1, 1>>,lgen |-> <<0, 0, 0>>,count |-> 1,opi |-> <<1, 1, 2>>,threshold |-> 1,prog |-> <<<<<<0, 1>>, <<0, 1>>>>, <<<<0, 1>>, <<0, 1>>>>, <<<<0, 1>>, <<0, 1>>>>>>]),
    ([mtx |-> 0,cvs |-> <<1, 0, 0>>,op |-> <<0, 1, 1>>,ev |-> [k |-> "cvwake", t |-> 2, o |-> "cv", v |-> 0, w |-> 0],gen |-> 1,pc |-> <<"wake", "relock", "idle">>,dropRound |-> <<0, 1, 1>>,lgen |-> <<0, 0, 0>>,count |-> 1,opi |-> <<1, 1, 2>>,threshold |-> 1,prog |-> <<<<<<0, 1>>, <<0, 1>>>>, <<<<0, 1>>, <<0, 1>>>>, <<<<0, 1>>, <<0, 1>>>>>>]),
    ([mtx |-> 2,cvs |-> <<1, 0, 0>>,op |-> <<0, 1, 1>>,ev |-> [k |-> "mlock", t |-> 2, o |-> "mtx", v |-> 0, w |-> 0],gen |-> 1,pc |-> <<"wake", "unlock", "idle">>,dropRound |-> <<0, 1, 1>>,lgen |-> <<0, 0, 0>>,count |-> 1,opi |-> <<1, 1, 2>>,threshold |-> 1,prog |-> <<<<<<0, 1>>, <<0, 1>>>>, <<<<0, 1>>, <<0, 1>>>>, <<<<0, 1>>, <<0, 1>>>>>>]),
    ([mtx |-> 0,cvs |-> <<1, 0, 0>>,op |-> <<0, 1, 1>>,ev |-> [k |-> "munlock", t |-> 2, o |-> "mtx", v |-> 0, w |-> 0],gen |-> 1,pc |-> <<"wake", "ret", "idle">>,dropRound |-> <<0, 1, 1>>,lgen |-> <<0, 0, 0>>,count |-> 1,opi |-> <<1, 1, 2>>,threshold |-> 1,prog |-> <<<<<<0, 1>>, <<0, 1>>>>, <<<<0, 1>>, <<0, 1>>>>, <<<<0, 1>>, <<0, 1>>>>>>]),
    ([mtx |-> 0,cvs |-> <<1, 0, 0>>,op |-> <<0, 1, 1>>,ev |-> [k |-> "ret", t |-> 2, o |-> "wait_and_drop", v |-> 0, w |-> 0],gen |-> 1,pc |-> <<"wake", "idle", "idle">>,dropRound |-> <<0, 1, 1>>,lgen |-> <<0, 0, 0>>,count |-> 1,opi |-> <<1, 2, 2>>,threshold |-> 1,prog |-> <<<<<<0, 1>>, <<0, 1>>>>, <<<<0, 1>>, <<0, 1>>>>, <<<<0, 1>>, <<0, 1>>>>>>])
    >>
----


=============================================================================

---- CONFIG BarrierMC_TTrace_1790874455 ----
CONSTANTS
    Progs <- QuickProgs
    Spurious = TRUE
    PredLoop = TRUE
    NotifyAll = FALSE
    DropFirst = TRUE

INVARIANT
    _inv

CHECK_DEADLOCK
    \* CHECK_DEADLOCK off because of PROPERTY or INVARIANT above.
    FALSE

INIT
    _init

NEXT
    _next

CONSTANT
    _TETrace <- _trace

ALIAS
    _expression
=============================================================================
\* Generated on Thu Oct 01 17:07:37 UTC 2026
SPECIFICATION TSpec
CONSTANTS
  Progs = {}
  Spurious = TRUE
  PredLoop = TRUE
  NotifyAll = TRUE
  DropFirst = TRUE
INVARIANTS NoEarlyReturn
POSTCONDITION Accepted
CHECK_DEADLOCK FALSE

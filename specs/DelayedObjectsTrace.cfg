SPECIFICATION TSpec
CONSTANTS
  Progs = {}
  SetUnderLock = TRUE
INVARIANTS Linearizable CompletedIsReady
POSTCONDITION Accepted
CHECK_DEADLOCK FALSE

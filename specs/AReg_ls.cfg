SPECIFICATION Spec
CONSTANTS
  Progs <- QuickLS
  Wraps = {1, 3, 4}
  Shareds = {TRUE, FALSE}
  ExchangeReturnsOld = TRUE
  CasReportsCurrent = TRUE
VIEW View
INVARIANTS TypeOK Linearizable NoTornLoad NoDeadlock
CHECK_DEADLOCK FALSE

SPECIFICATION Spec
CONSTANTS
  Progs <- WaitersVsSetters
  Actives = {TRUE, FALSE}
  Spurious = TRUE
  Timeouts = TRUE
  TrigLocked = TRUE
  ClearFirst = TRUE
VIEW View
INVARIANTS TypeOK Linearizable NoLostWakeup NoLockDeadlock
CHECK_DEADLOCK FALSE

SPECIFICATION Spec
CONSTANTS
  Progs <- ThoroughProgs
  Spurious = TRUE
  PredLoop = TRUE
  NotifyAll = TRUE
  DropFirst = TRUE
VIEW View
INVARIANTS TypeOK NoEarlyReturn NoLostWakeup NoLeakedLock
CHECK_DEADLOCK FALSE

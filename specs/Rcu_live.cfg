SPECIFICATION FairSpec
CONSTANTS
  Progs <- ProgsE
  MaxN = 1
  MaxR = 5
  UnlinkBeforeLog = TRUE
  ScanOlder = TRUE
  NullCheck = TRUE
  EraseLocked = TRUE
VIEW View
PROPERTY Termination
CHECK_DEADLOCK FALSE

------------------------------ MODULE HolderSeq ------------------------------
(* What C17 states: the sequential meaning of SearchableObjectHolder<X, int>    *)
(* over names 1..3 ("a","b","c"), objects 1..2 and type tags 1..2.              *)
(* state: obj[name] = object id or 0 (absent); tags[name] = sequence of types   *)
(* (orphan tags for absent names are possible, exactly as in the code).         *)
(* o = [n |-> operation, a |-> first argument, b |-> second (or only) argument]  *)
EXTENDS Naturals, Integers, FiniteSets, Sequences
Names == 1..3
S0 == [obj |-> [n \in Names |-> 0], tags |-> [n \in Names |-> <<>>], has |-> [n \in Names |-> FALSE]]
B(b) == IF b THEN 1 ELSE 0
R(s, r) == [s |-> s, r |-> r]
Present(s) == {n \in Names : s.obj[n] # 0}
Min(S) == CHOOSE x \in S : \A y \in S : x <= y
HasType(s, n, ty) == s.has[n] /\ \E i \in 1..Len(s.tags[n]) : s.tags[n][i] = ty
\* getObjects: the stored objects in name order, as a base-4 number (first object = lowest digit)
RECURSIVE Enc(_, _)
Enc(s, n) == IF n > 3 THEN 0 ELSE IF s.obj[n] # 0 THEN s.obj[n] + 4 * Enc(s, n + 1) ELSE Enc(s, n + 1)
Eff(s, o) ==
  CASE o.n = "add" -> IF s.obj[o.a] = 0 THEN {R([s EXCEPT !.obj[o.a] = o.b], 1)} ELSE {R(s, 0)}
    [] o.n = "addT" -> IF s.obj[o.a] = 0
                         THEN {R([s EXCEPT !.obj[o.a] = o.b, !.tags[o.a] = IF s.has[o.a] THEN @ ELSE <<o.b>>, !.has[o.a] = TRUE], 1)}
                         ELSE {R(s, 0)}
    [] o.n = "addType" -> {R([s EXCEPT !.tags[o.a] = Append(@, o.b), !.has[o.a] = TRUE], 0)}
    [] o.n = "empty" -> {R(s, B(Present(s) = {}))}
    [] o.n = "getObjects" -> {R(s, Enc(s, 1))}
    [] o.n = "removeName" -> IF s.obj[o.b] # 0 THEN {R([s EXCEPT !.obj[o.b] = 0, !.tags[o.b] = <<>>, !.has[o.b] = FALSE], 1)} ELSE {R(s, 0)}
    [] o.n = "removePred" ->
         LET m == {n \in Present(s) : s.obj[n] = o.b} IN
         IF m = {} THEN {R(s, 0)} ELSE {R([s EXCEPT !.obj[Min(m)] = 0, !.tags[Min(m)] = <<>>, !.has[Min(m)] = FALSE], 1)}
    [] o.n = "copy" ->
         IF s.obj[o.a] # 0 /\ s.obj[o.b] = 0
           THEN {R([s EXCEPT !.obj[o.b] = s.obj[o.a],
                            !.tags[o.b] = IF s.has[o.a] /\ ~s.has[o.b] THEN s.tags[o.a] ELSE @,
                            !.has[o.b] = s.has[o.b] \/ s.has[o.a]], 1)}
           ELSE {R(s, 0)}
    [] o.n = "checkType" -> {R(s, B(HasType(s, o.a, o.b)))}
    [] o.n = "findName" -> {R(s, s.obj[o.b])}
    [] o.n = "findPred" -> {R(s, IF \E n \in Present(s) : s.obj[n] = o.b THEN o.b ELSE 0)}
    [] o.n = "findPredType" ->
         LET m == {n \in Present(s) : s.obj[n] = o.a} IN
         \* std::find_if: the first entry (in name order) whose object matches AND carries the type
         {R(s, IF \E n \in m : HasType(s, n, o.b) THEN o.a ELSE 0)}
    [] o.n = "none" -> {R(s, -3)}
    [] OTHER -> {R(s, 0)}
=============================================================================

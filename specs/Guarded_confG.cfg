SPECIFICATION Spec
CONSTANTS
  Progs <- ConfG
  Shareds = {FALSE}
  Enableds = {TRUE, FALSE}
  LoadShareds = {FALSE}
  MaxThrows = 0
  StoreLocked = TRUE
  ReadLocked = TRUE
  TryHonest = TRUE

INVARIANTS TypeOK Exclusive NoTornRead HandleTruth ReleaseOnce NoLeakedLock NoDeadlock TryNeverBlocks DisabledNeverWaits SharedNotBlockedByReaders NoLostUpdate 
CHECK_DEADLOCK FALSE

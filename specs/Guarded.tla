------------------------------- MODULE Guarded -------------------------------
(***************************************************************************)
(* guarded, guarded_opt, shared_guarded, shared_guarded_opt, ordered_guarded *)
(* (gmlc/libguarded) over lock_handle / shared_lock_handle (handles.hpp).   *)
(*                                                                         *)
(* Every API operation of the harness vocabulary is a *script*: the          *)
(* sequence of synchronisation-visible steps the code performs (mutex       *)
(* operations with their enabling conditions, two-step payload windows).    *)
(* The scripts are what the code does, read from the headers:               *)
(*   lock()/try_lock*()        build the handle from the wrapper's own mutex *)
(*                             (handle = pointer + unique_lock)             *)
(*   lock_shared()/try_*()     shared_lock for shared mutexes, unique_lock  *)
(*                             for mutex / timed_mutex (shared_locker)      *)
(*   load/store/operator=      lock_guard around the copy / assignment      *)
(*                             (ordered_guarded::load goes through lock_shared) *)
(*   modify / read             functor under lock_guard / shared lock       *)
(*   disabled (guarded_opt, shared_guarded_opt): handles carry an empty     *)
(*                             lock: no mutex step at all; load/store still lock *)
(* Two wrapper objects (1 and 2) exist so that move-assignment of a handle  *)
(* onto a handle that owns another lock can be expressed (op 13).           *)
(* Values: an update by thread t maps v to 8v+t; store writes 40+t.         *)
(***************************************************************************)
EXTENDS Naturals, Integers, Sequences, FiniteSets, TLC

CONSTANTS Progs,
          Shareds,       \* set of BOOLEAN: is the mutex type shared-capable (shared_mutex, shared_timed_mutex)
          Enableds,      \* set of BOOLEAN: locking enabled (FALSE only for the _opt wrappers)
          LoadShareds,   \* set of BOOLEAN: load() goes through lock_shared (ordered_guarded) or lock_guard (guarded, guarded_opt)
          MaxThrows,
          StoreLocked,   \* knob: store/operator= take the mutex (code as read)
          ReadLocked,    \* knob: read()/lock_shared take the lock
          TryHonest      \* knob: try_* return the pointer only when the lock is owned

VARIABLES prog, cfg, mx, cp, nid, thr, th, nupd, nst, ev
vars == <<prog, cfg, mx, cp, nid, thr, th, nupd, nst, ev>>
View == <<prog, cfg, mx, cp, nid, thr, th, nupd, nst>>

OpName == <<"lock_rmw", "try_rmw", "timed_rmw", "lock_rmw_unlock", "lock_move_rmw", "shared_read", "try_shared_read",
            "timed_shared_read", "load", "store", "assign", "modify", "readf", "handover", "const_lock_read",
            "modify_ret", "readf_void">>
Threads == 1..Len(prog)
NoEv == [t |-> 0, k |-> "init", o |-> "", i |-> 0, v |-> 0, w |-> 0]
E(t, k, o, i, v, w) == [t |-> t, k |-> k, o |-> o, i |-> i, v |-> v, w |-> w]
Enc(x, y) == IF x = y THEN x ELSE 0 - (x * 1000 + y) - 1
F(t, v) == IF v < 0 \/ v >= 32768 THEN t ELSE 8 * v + t   \* bounded: starts over after 5 digits or a torn read
SV(t) == 40 + t

\* ---- scripts ---------------------------------------------------------------------------------
Use(i) == <<<<"rb", i>>, <<"re", i>>, <<"wbF", i>>, <<"weF", i>>>>
Rd(i) == <<<<"rb", i>>, <<"re", i>>>>
\* handle acquisitions vanish when locking is disabled
H(c, s) == IF c.enabled THEN s ELSE <<>>
SL(c, s) == IF ReadLocked THEN H(c, s) ELSE <<>>
Script(c, o) ==
  CASE o = 0 -> H(c, <<<<"xlock", 1>>>>) \o Use(1) \o H(c, <<<<"xunlock", 1>>>>)
    [] o = 1 -> H(c, <<<<"xtry", 1>>>>) \o Use(1) \o H(c, <<<<"xunlock", 1>>>>)
    [] o = 2 -> H(c, <<<<"xtimed", 1>>>>) \o Use(1) \o H(c, <<<<"xunlock", 1>>>>)
    [] o = 3 -> H(c, <<<<"xlock", 1>>>>) \o Use(1) \o H(c, <<<<"xunlock", 1>>>>)
    [] o = 4 -> H(c, <<<<"xlock", 1>>>>) \o Use(1) \o H(c, <<<<"xunlock", 1>>>>)
    [] o = 5 -> SL(c, <<<<"slock", 1>>>>) \o Rd(1) \o SL(c, <<<<"sunlock", 1>>>>)
    [] o = 6 -> SL(c, <<<<"stry", 1>>>>) \o Rd(1) \o SL(c, <<<<"sunlock", 1>>>>)
    [] o = 7 -> SL(c, <<<<"stimed", 1>>>>) \o Rd(1) \o SL(c, <<<<"sunlock", 1>>>>)
    [] o = 8 -> IF c.loadshared
                  THEN SL(c, <<<<"slock", 1>>>>) \o <<<<"kb", 1>>, <<"ke", 1>>>> \o SL(c, <<<<"sunlock", 1>>>>)
                  ELSE <<<<"xlock", 1>>, <<"kb", 1>>, <<"ke", 1>>, <<"xunlock", 1>>>>
    [] o \in {9, 10} -> IF StoreLocked THEN <<<<"xlock", 1>>, <<"cb", 1>>, <<"ce", 1>>, <<"xunlock", 1>>>>
                                       ELSE <<<<"cb", 1>>, <<"ce", 1>>>>
    [] o \in {11, 15} -> <<<<"xlock", 1>>, <<"wbM", 1>>, <<"weM", 1>>, <<"xunlock", 1>>>>
    [] o \in {12, 16} -> (IF ReadLocked THEN <<<<"slock", 1>>>> ELSE <<>>) \o Rd(1) \o (IF ReadLocked THEN <<<<"sunlock", 1>>>> ELSE <<>>)
    [] o = 13 -> H(c, <<<<"xlock", 1>>>>) \o Use(1) \o H(c, <<<<"xlock", 2>>, <<"xunlock", 1>>>>) \o Use(2) \o H(c, <<<<"xunlock", 2>>>>)
    [] o = 14 -> SL(c, <<<<"slock", 1>>>>) \o Rd(1) \o SL(c, <<<<"sunlock", 1>>>>)

Init0(p, c) == [prog |-> p, cfg |-> c,
                mx |-> <<[x |-> 0, s |-> {}], [x |-> 0, s |-> {}]>>,
                cp |-> <<[a |-> 0, b |-> 0], [a |-> 0, b |-> 0]>>, nid |-> 3, thr |-> 0,
                th |-> [t \in 1..Len(p) |-> [pc |-> 0, scr |-> <<>>, op |-> 0, opi |-> 1, res |-> 0, v |-> 0, ra |-> 0, tmp |-> 0]],
                nupd |-> 0, nst |-> 0, ev |-> NoEv]
InitWith(p, c) == LET s == Init0(p, c) IN
    prog = s.prog /\ cfg = s.cfg /\ mx = s.mx /\ cp = s.cp /\ nid = s.nid /\ thr = s.thr /\ th = s.th /\ nupd = s.nupd /\ nst = s.nst /\ ev = s.ev
ResetTo(p, c) == LET s == Init0(p, c) IN
    prog' = s.prog /\ cfg' = s.cfg /\ mx' = s.mx /\ cp' = s.cp /\ nid' = s.nid /\ thr' = s.thr /\ th' = s.th /\ nupd' = s.nupd /\ nst' = s.nst /\ ev' = s.ev
Init == \E p \in Progs, sh \in Shareds, en \in Enableds, ls \in LoadShareds :
            InitWith(p, [shared |-> sh, enabled |-> en, loadshared |-> ls])

\* pc = 0 idle; 1..Len(scr) next instruction; Len(scr)+1 = about to return
Call(t) ==
    /\ th[t].pc = 0 /\ th[t].opi <= Len(prog[t])
    /\ \E j \in 1..Len(prog[t][th[t].opi]) :
         LET o == prog[t][th[t].opi][j]
             tmpc == o \in {9, 10}     \* the harness builds the temporary to store right after the call step
         IN /\ th' = [th EXCEPT ![t] = [@ EXCEPT !.op = o, !.scr = Script(cfg, o), !.pc = 1, !.res = 0, !.v = 0,
                                                !.tmp = IF tmpc THEN nid ELSE 0]]
            /\ nid' = IF tmpc THEN nid + 1 ELSE nid
            /\ ev' = E(t, "call", OpName[o + 1], 0, 0, 0)
    /\ UNCHANGED <<prog, cfg, mx, cp, thr, nupd, nst>>

Flag(o) == IF o = 3 THEN 1 ELSE 0
Ret(t) ==
    /\ th[t].pc # 0 /\ th[t].pc = Len(th[t].scr) + 1
    /\ th' = [th EXCEPT ![t] = [@ EXCEPT !.pc = 0, !.opi = @ + 1]]
    /\ ev' = E(t, "ret", OpName[th[t].op + 1], 0, th[t].res, IF th[t].res >= 0 THEN Flag(th[t].op) ELSE 0)
    /\ UNCHANGED <<prog, cfg, mx, cp, nid, thr, nupd, nst>>

Ins(t) == th[t].scr[th[t].pc]
At(t, k) == th[t].pc # 0 /\ th[t].pc <= Len(th[t].scr) /\ Ins(t)[1] = k
Adv(t) == [th[t] EXCEPT !.pc = @ + 1]
\* leave the operation with a null handle: skip to the end
Fail(t) == [th[t] EXCEPT !.pc = Len(th[t].scr) + 1, !.res = -1]
FreeX(i) == mx[i].x = 0 /\ mx[i].s = {}
FreeS(i) == mx[i].x = 0
TakeX(t, i) == [mx EXCEPT ![i].x = t]
TakeS(t, i) == [mx EXCEPT ![i].s = @ \cup {t}]
\* a temporary is created by the copy construction that follows this lock step (load)
NextIsKb(t) == th[t].pc + 1 <= Len(th[t].scr) /\ th[t].scr[th[t].pc + 1][1] = "kb"
WithTmp(t, r) == IF NextIsKb(t) THEN [r EXCEPT !.tmp = nid] ELSE r
NidAfter(t) == IF NextIsKb(t) THEN nid + 1 ELSE nid

Step1(t, mx2, th2, e) == mx' = mx2 /\ th' = [th EXCEPT ![t] = th2] /\ ev' = e /\ UNCHANGED <<prog, cfg, cp, nupd, nst>>

\* exclusive acquisitions
XLock(t) == LET i == Ins(t)[2] IN
    /\ At(t, "xlock") /\ FreeX(i)
    /\ Step1(t, TakeX(t, i), WithTmp(t, Adv(t)), E(t, "mlock", "m", i, 0, 0)) /\ nid' = NidAfter(t)
XTry(t) == LET i == Ins(t)[2] IN
    /\ At(t, "xtry")
    /\ IF FreeX(i) THEN Step1(t, TakeX(t, i), Adv(t), E(t, "mtry", "m", i, 1, 0))
                   ELSE Step1(t, mx, IF TryHonest THEN Fail(t) ELSE Adv(t), E(t, "mtry", "m", i, 0, 0))
    /\ nid' = nid
XTimed(t) == LET i == Ins(t)[2] IN
    /\ At(t, "xtimed")
    /\ IF FreeX(i) THEN Step1(t, TakeX(t, i), Adv(t), E(t, "mtimed", "m", i, 1, 0))
                   ELSE Step1(t, mx, IF TryHonest THEN Fail(t) ELSE Adv(t), E(t, "mtimed", "m", i, 0, 0))
    /\ nid' = nid
XUnlock(t) == LET i == Ins(t)[2] IN
    /\ At(t, "xunlock")
    /\ Step1(t, [mx EXCEPT ![i].x = 0], Adv(t), E(t, "munlock", "m", i, 0, IF mx[i].x = t THEN 0 ELSE 1)) /\ nid' = nid
\* shared acquisitions: shared_lock on a shared mutex, unique_lock otherwise
SLock(t) == LET i == Ins(t)[2] IN
    /\ At(t, "slock")
    /\ IF cfg.shared
         THEN FreeS(i) /\ Step1(t, TakeS(t, i), WithTmp(t, Adv(t)), E(t, "slock", "m", i, 0, 0))
         ELSE FreeX(i) /\ Step1(t, TakeX(t, i), WithTmp(t, Adv(t)), E(t, "mlock", "m", i, 0, 0))
    /\ nid' = NidAfter(t)
STry(t) == LET i == Ins(t)[2]
               k == IF cfg.shared THEN "stry" ELSE "mtry"
               free == IF cfg.shared THEN FreeS(i) ELSE FreeX(i) IN
    /\ At(t, "stry")
    /\ IF free THEN Step1(t, IF cfg.shared THEN TakeS(t, i) ELSE TakeX(t, i), Adv(t), E(t, k, "m", i, 1, 0))
               ELSE Step1(t, mx, IF TryHonest THEN Fail(t) ELSE Adv(t), E(t, k, "m", i, 0, 0))
    /\ nid' = nid
STimed(t) == LET i == Ins(t)[2]
                 k == IF cfg.shared THEN "stimed" ELSE "mtimed"
                 free == IF cfg.shared THEN FreeS(i) ELSE FreeX(i) IN
    /\ At(t, "stimed")
    /\ IF free THEN Step1(t, IF cfg.shared THEN TakeS(t, i) ELSE TakeX(t, i), Adv(t), E(t, k, "m", i, 1, 0))
               ELSE Step1(t, mx, IF TryHonest THEN Fail(t) ELSE Adv(t), E(t, k, "m", i, 0, 0))
    /\ nid' = nid
SUnlock(t) == LET i == Ins(t)[2] IN
    /\ At(t, "sunlock")
    /\ IF cfg.shared
         THEN Step1(t, [mx EXCEPT ![i].s = @ \ {t}], Adv(t), E(t, "sunlock", "m", i, 0, IF t \in mx[i].s THEN 0 ELSE 1))
         ELSE Step1(t, [mx EXCEPT ![i].x = 0], Adv(t), E(t, "munlock", "m", i, 0, IF mx[i].x = t THEN 0 ELSE 1))
    /\ nid' = nid

\* payload steps
Pay(t, cp2, th2, e) ==
    /\ cp' = cp2 /\ th' = [th EXCEPT ![t] = th2] /\ ev' = e /\ UNCHANGED <<prog, cfg, mx, nid, thr>>
    /\ nupd' = IF e.k = "we" THEN nupd + 1 ELSE nupd
    /\ nst' = IF e.k = "ce" THEN nst + 1 ELSE nst
\* RAII unwinding after an injected exception: continue at the next unlock instruction (or the end)
UnwindPc(t) == LET rest == {k \in th[t].pc..Len(th[t].scr) : th[t].scr[k][1] \in {"xunlock", "sunlock"}} IN
               IF rest = {} THEN Len(th[t].scr) + 1 ELSE CHOOSE k \in rest : \A j \in rest : k <= j
Throw(t, i, w) ==
    /\ thr < MaxThrows /\ th[t].op \in {11, 15}
    /\ cp' = cp /\ th' = [th EXCEPT ![t] = [@ EXCEPT !.pc = UnwindPc(t), !.res = -1]] /\ thr' = thr + 1
    /\ ev' = E(t, "throw", "cell", i, cp[i].a, w) /\ UNCHANGED <<prog, cfg, mx, nid, nupd, nst>>
Payload(t) == LET i == Ins(t)[2] IN
    \/ At(t, "rb") /\ Pay(t, cp, [Adv(t) EXCEPT !.ra = cp[i].a], E(t, "rb", "cell", i, cp[i].a, 0))
    \/ At(t, "re") /\ Pay(t, cp, [Adv(t) EXCEPT !.v = Enc(th[t].ra, cp[i].b), !.res = Enc(th[t].ra, cp[i].b)],
                          E(t, "re", "cell", i, th[t].ra, cp[i].b))
    \/ At(t, "wbF") /\ Pay(t, [cp EXCEPT ![i].a = F(t, th[t].v)], Adv(t), E(t, "wb", "cell", i, cp[i].a, F(t, th[t].v)))
    \/ At(t, "weF") /\ Pay(t, [cp EXCEPT ![i].b = F(t, th[t].v)], [Adv(t) EXCEPT !.res = F(t, th[t].v)],
                           E(t, "we", "cell", i, F(t, th[t].v), 0))
    \/ At(t, "wbM") /\ Pay(t, [cp EXCEPT ![i].a = F(t, cp[i].a)], Adv(t), E(t, "wb", "cell", i, cp[i].a, F(t, cp[i].a)))
    \/ At(t, "wbM") /\ Throw(t, i, 0)
    \/ At(t, "weM") /\ Pay(t, [cp EXCEPT ![i].b = F(t, cp[i].b)], [Adv(t) EXCEPT !.res = cp[i].a],
                           E(t, "we", "cell", i, F(t, cp[i].b), 0))
    \/ At(t, "weM") /\ Throw(t, i, 1)
    \* load: copy-construct a temporary (instance tmp) from cell i
    \/ At(t, "kb") /\ Pay(t, cp, [Adv(t) EXCEPT !.ra = cp[i].a], E(t, "kb", "cell", th[t].tmp, cp[i].a, 0))
    \/ At(t, "ke") /\ Pay(t, cp, [Adv(t) EXCEPT !.res = Enc(th[t].ra, cp[i].b)], E(t, "ke", "cell", th[t].tmp, cp[i].b, 0))
    \* store / assign: cell i = temporary holding SV(t)
    \/ At(t, "cb") /\ Pay(t, [cp EXCEPT ![i].a = SV(t)], Adv(t), E(t, "cb", "cell", i, SV(t), 0))
    \/ At(t, "ce") /\ Pay(t, [cp EXCEPT ![i].b = SV(t)], Adv(t), E(t, "ce", "cell", i, SV(t), 0))

Sync(t) == (XLock(t) \/ XTry(t) \/ XTimed(t) \/ XUnlock(t) \/ SLock(t) \/ STry(t) \/ STimed(t) \/ SUnlock(t)) /\ thr' = thr
Step(t) == (Call(t) \/ Ret(t)) \/ Sync(t) \/ Payload(t)
Next == \E t \in Threads : Step(t)
Spec == Init /\ [][Next]_vars
FairSpec == Spec /\ \A t \in 1..4 : WF_vars(t \in Threads /\ Step(t))
-----------------------------------------------------------------------------
Busy(t) == th[t].pc # 0
\* thread t is inside an access to object i: between its acquisition and its release (or, without a
\* lock step, anywhere inside the payload part of its operation)
PayKinds == {"rb", "re", "wbF", "weF", "wbM", "weM", "kb", "ke", "cb", "ce"}
HoldsX(t, i) == mx[i].x = t
HoldsS(t, i) == t \in mx[i].s
\* open payload windows
WOpen(i) == cp[i].a # cp[i].b
ReadOpen(t, i) == th[t].pc # 0 /\ th[t].pc <= Len(th[t].scr) /\ Ins(t)[1] \in {"re", "ke"} /\ Ins(t)[2] = i
WriteOpen(t, i) == th[t].pc # 0 /\ th[t].pc <= Len(th[t].scr) /\ Ins(t)[1] \in {"weF", "weM", "ce"} /\ Ins(t)[2] = i
\* between the two halves of a read-modify-write under an exclusive handle
RmwOpen(t, i) == th[t].pc # 0 /\ th[t].pc <= Len(th[t].scr) /\ Ins(t)[1] \in {"re", "wbF", "weF"} /\ Ins(t)[2] = i
                 /\ th[t].op \in {0, 1, 2, 3, 4, 13}

TypeOK == \A i \in 1..2 : mx[i].x \in 0..Len(prog)

\* C01/C02 (locking enabled): an open write window, or a read-modify-write in progress under an
\* exclusive handle, never coincides with any other thread's open window on the same object
Exclusive == cfg.enabled =>
    \A i \in 1..2 : \A a, b \in Threads : (a # b /\ (WriteOpen(a, i) \/ RmwOpen(a, i))) => ~(ReadOpen(b, i) \/ WriteOpen(b, i) \/ RmwOpen(b, i))
\* a reader never sees a torn value
NoTornRead == (cfg.enabled /\ thr = 0) => \A t \in Threads : (th[t].op \in {5, 6, 7, 8, 12, 14, 16}) => th[t].res >= -1
\* C08: a thread uses the payload through a handle only while it owns the matching lock
HandleTruth == cfg.enabled =>
    \A t \in Threads : (th[t].pc # 0 /\ th[t].pc <= Len(th[t].scr) /\ Ins(t)[1] \in PayKinds) =>
        LET i == Ins(t)[2] IN
        IF th[t].op \in {0, 1, 2, 3, 4, 9, 10, 11, 13, 15} \/ (th[t].op = 8 /\ ~cfg.loadshared) THEN HoldsX(t, i)
        ELSE (IF cfg.shared THEN HoldsS(t, i) ELSE HoldsX(t, i))
\* C08: locks are released exactly once: never an unlock by a non-owner, nothing left locked at the end
ReleaseOnce == ev.k \in {"munlock", "sunlock"} => ev.w = 0
AllDone == \A t \in Threads : th[t].pc = 0 /\ th[t].opi > Len(prog[t])
NoLeakedLock == AllDone => \A i \in 1..2 : mx[i].x = 0 /\ mx[i].s = {}
\* C01: no deadlock: if nobody can move, everybody is done
NoDeadlock == (\A t \in Threads : ~ENABLED Step(t)) => AllDone
\* C08: try / timed forms never block: their acquisition step is always enabled
TryNeverBlocks == \A t \in Threads : (th[t].pc # 0 /\ th[t].pc <= Len(th[t].scr) /\ Ins(t)[1] \in {"xtry", "xtimed", "stry", "stimed"}) => ENABLED Step(t)
\* C08: with locking disabled no handle acquisition ever waits (every step of a handle operation is enabled)
DisabledNeverWaits == ~cfg.enabled => \A t \in Threads : (Busy(t) /\ th[t].op \in {0, 1, 2, 3, 4, 5, 6, 7, 13, 14}) => ENABLED Step(t)
\* C02: with a shared-capable mutex a reader is never blocked merely by another reader
SharedNotBlockedByReaders ==
    (cfg.shared /\ cfg.enabled) => \A t \in Threads : (th[t].pc # 0 /\ th[t].pc <= Len(th[t].scr) /\ Ins(t)[1] = "slock"
                                                       /\ mx[Ins(t)[2]].x = 0) => ENABLED Step(t)
\* C02: sharing is real: refuted (by design) for shared mutexes, holds for plain ones
AtMostOneSharedHolder == \A i \in 1..2 : Cardinality(mx[i].s) <= 1
\* C01: read-modify-write sequences are never lost: at the end the value consists of exactly the updates made
\* (checked when the program has no store/assign)
Digits(v) == IF v <= 0 THEN 0 ELSE IF v < 8 THEN 1 ELSE IF v < 64 THEN 2 ELSE IF v < 512 THEN 3 ELSE IF v < 4096 THEN 4 ELSE IF v < 32768 THEN 5 ELSE 6
NoLostUpdate == (AllDone /\ nst = 0 /\ thr = 0 /\ cfg.enabled /\ nupd <= 5) => Digits(cp[1].a) + Digits(cp[2].a) = nupd /\ ~WOpen(1) /\ ~WOpen(2)
Termination == <>AllDone
=============================================================================

SPECIFICATION Spec
CONSTANTS
  Progs <- QuickAG
  Wraps = {0}
  Shareds = {FALSE}
  ExchangeReturnsOld = TRUE
  CasReportsCurrent = TRUE
VIEW View
INVARIANTS TypeOK Linearizable NoTornLoad NoDeadlock
CHECK_DEADLOCK FALSE

---- MODULE LeftRightRA_TTrace_1790904827 ----
EXTENDS Sequences, TLCExt, Toolbox, LeftRightRA, Naturals, TLC

_expression ==
    LET LeftRightRA_TEExpression == INSTANCE LeftRightRA_TEExpression
    IN LeftRightRA_TEExpression!expression
----

_trace ==
    LET LeftRightRA_TETrace == INSTANCE LeftRightRA_TETrace
    IN LeftRightRA_TETrace!trace
----

_inv ==
    ~(
        TLCGet("level") = Len(_TETrace)
        /\
        rc = (<<"cntL">>)
        /\
        view = ((0 :> [rl |-> 2, cl |-> 2, cntL |-> 1, cntR |-> 1] @@ 1 :> [rl |-> 1, cl |-> 1, cntL |-> 2, cntR |-> 1]))
        /\
        rpc = (<<"r4">>)
        /\
        mem = ([rl |-> <<[view |-> [rl |-> 1, cl |-> 1, cntL |-> 1, cntR |-> 1], val |-> 1], [view |-> [rl |-> 2, cl |-> 1, cntL |-> 1, cntR |-> 1], val |-> 0]>>, cl |-> <<[view |-> [rl |-> 1, cl |-> 1, cntL |-> 1, cntR |-> 1], val |-> 1], [view |-> [rl |-> 2, cl |-> 2, cntL |-> 1, cntR |-> 1], val |-> 0]>>, cntL |-> <<[view |-> [rl |-> 1, cl |-> 1, cntL |-> 1, cntR |-> 1], val |-> 0], [view |-> [rl |-> 1, cl |-> 1, cntL |-> 2, cntR |-> 1], val |-> 1]>>, cntR |-> <<[view |-> [rl |-> 1, cl |-> 1, cntL |-> 1, cntR |-> 1], val |-> 0]>>])
        /\
        rside = (<<"L">>)
        /\
        wl = ([rl |-> 1, cl |-> 1])
        /\
        wn = (1)
        /\
        busy = ([L |-> TRUE, R |-> FALSE])
        /\
        wpc = ("f2e")
        /\
        rn = (<<1>>)
        /\
        lastsc = ([rl |-> 2, cl |-> 2, cntL |-> 2, cntR |-> 1])
    )
----

_init ==
    /\ rside = _TETrace[1].rside
    /\ lastsc = _TETrace[1].lastsc
    /\ rpc = _TETrace[1].rpc
    /\ view = _TETrace[1].view
    /\ rc = _TETrace[1].rc
    /\ rn = _TETrace[1].rn
    /\ wpc = _TETrace[1].wpc
    /\ wl = _TETrace[1].wl
    /\ wn = _TETrace[1].wn
    /\ busy = _TETrace[1].busy
    /\ mem = _TETrace[1].mem
----

_next ==
    /\ \E i,j \in DOMAIN _TETrace:
        /\ \/ /\ j = i + 1
              /\ i = TLCGet("level")
        /\ rside  = _TETrace[i].rside
        /\ rside' = _TETrace[j].rside
        /\ lastsc  = _TETrace[i].lastsc
        /\ lastsc' = _TETrace[j].lastsc
        /\ rpc  = _TETrace[i].rpc
        /\ rpc' = _TETrace[j].rpc
        /\ view  = _TETrace[i].view
        /\ view' = _TETrace[j].view
        /\ rc  = _TETrace[i].rc
        /\ rc' = _TETrace[j].rc
        /\ rn  = _TETrace[i].rn
        /\ rn' = _TETrace[j].rn
        /\ wpc  = _TETrace[i].wpc
        /\ wpc' = _TETrace[j].wpc
        /\ wl  = _TETrace[i].wl
        /\ wl' = _TETrace[j].wl
        /\ wn  = _TETrace[i].wn
        /\ wn' = _TETrace[j].wn
        /\ busy  = _TETrace[i].busy
        /\ busy' = _TETrace[j].busy
        /\ mem  = _TETrace[i].mem
        /\ mem' = _TETrace[j].mem

\* Uncomment the ASSUME below to write the states of the error trace
\* to the given file in Json format. Note that you can pass any tuple
\* to `JsonSerialize`. For example, a sub-sequence of _TETrace.
    \* ASSUME
    \*     LET J == INSTANCE Json
    \*         IN J!JsonSerialize("LeftRightRA_TTrace_1790904827.json", _TETrace)

=============================================================================

 Note that you can extract this module `LeftRightRA_TEExpression`
  to a dedicated file to reuse `expression` (the module in the 
  dedicated `LeftRightRA_TEExpression.tla` file takes precedence 
  over the module `LeftRightRA_TEExpression` below).

---- MODULE LeftRightRA_TEExpression ----
EXTENDS Sequences, TLCExt, Toolbox, LeftRightRA, Naturals, TLC

expression == 
    [
        \* To hide variables of the `LeftRightRA` spec from the error trace,
        \* remove the variables below.  The trace will be written in the order
        \* of the fields of this record.
        rside |-> rside
        ,lastsc |-> lastsc
        ,rpc |-> rpc
        ,view |-> view
        ,rc |-> rc
        ,rn |-> rn
        ,wpc |-> wpc
        ,wl |-> wl
        ,wn |-> wn
        ,busy |-> busy
        ,mem |-> mem
        
        \* Put additional constant-, state-, and action-level expressions here:
        \* ,_stateNumber |-> _TEPosition
        \* ,_rsideUnchanged |-> rside = rside'
        
        \* Format the `rside` variable as Json value.
        \* ,_rsideJson |->
        \*     LET J == INSTANCE Json
        \*     IN J!ToJson(rside)
        
        \* Lastly, you may build expressions over arbitrary sets of states by
        \* leveraging the _TETrace operator.  For example, this is how to
        \* count the number of times a spec variable changed up to the current
        \* state in the trace.
        \* ,_rsideModCount |->
        \*     LET F[s \in DOMAIN _TETrace] ==
        \*         IF s = 1 THEN 0
        \*         ELSE IF _TETrace[s].rside # _TETrace[s-1].rside
        \*             THEN 1 + F[s-1] ELSE F[s-1]
        \*     IN F[_TEPosition - 1]
    ]

=============================================================================



Parsing and semantic processing can take forever if the trace below is long.
 In this case, it is advised to uncomment the module below to deserialize the
 trace from a generated binary file.

\*
\*---- MODULE LeftRightRA_TETrace ----
\*EXTENDS IOUtils, LeftRightRA, TLC
\*
\*trace == IODeserialize("LeftRightRA_TTrace_1790904827.bin", TRUE)
\*
\*=============================================================================
\*

---- MODULE LeftRightRA_TETrace ----
EXTENDS LeftRightRA, TLC

trace == 
    <<
    ([rc |-> <<"cntL">>,view |-> (0 :> [rl |-> 1, cl |-> 1, cntL |-> 1, cntR |-> 1] @@ 1 :> [rl |-> 1, cl |-> 1, cntL |-> 1, cntR |-> 1]),rpc |-> <<"r1">>,mem |-> [rl |-> <<[view |-> [rl |-> 1, cl |-> 1, cntL |-> 1, cntR |-> 1], val |-> 1]>>, cl |-> <<[view |-> [rl |-> 1, cl |-> 1, cntL |-> 1, cntR |-> 1], val |-> 1]>>, cntL |-> <<[view |-> [rl |-> 1, cl |-> 1, cntL |-> 1, cntR |-> 1], val |-> 0]>>, cntR |-> <<[view |-> [rl |-> 1, cl |-> 1, cntL |-> 1, cntR |-> 1], val |-> 0]>>],rside |-> <<"L">>,wl |-> [rl |-> 1, cl |-> 1],wn |-> 1,busy |-> [L |-> FALSE, R |-> FALSE],wpc |-> "w1",rn |-> <<1>>,lastsc |-> [rl |-> 1, cl |-> 1, cntL |-> 1, cntR |-> 1]]),
    ([rc |-> <<"cntL">>,view |-> (0 :> [rl |-> 1, cl |-> 1, cntL |-> 1, cntR |-> 1] @@ 1 :> [rl |-> 1, cl |-> 1, cntL |-> 1, cntR |-> 1]),rpc |-> <<"r1">>,mem |-> [rl |-> <<[view |-> [rl |-> 1, cl |-> 1, cntL |-> 1, cntR |-> 1], val |-> 1]>>, cl |-> <<[view |-> [rl |-> 1, cl |-> 1, cntL |-> 1, cntR |-> 1], val |-> 1]>>, cntL |-> <<[view |-> [rl |-> 1, cl |-> 1, cntL |-> 1, cntR |-> 1], val |-> 0]>>, cntR |-> <<[view |-> [rl |-> 1, cl |-> 1, cntL |-> 1, cntR |-> 1], val |-> 0]>>],rside |-> <<"L">>,wl |-> [rl |-> 1, cl |-> 1],wn |-> 1,busy |-> [L |-> FALSE, R |-> FALSE],wpc |-> "f1b",rn |-> <<1>>,lastsc |-> [rl |-> 1, cl |-> 1, cntL |-> 1, cntR |-> 1]]),
    ([rc |-> <<"cntL">>,view |-> (0 :> [rl |-> 1, cl |-> 1, cntL |-> 1, cntR |-> 1] @@ 1 :> [rl |-> 1, cl |-> 1, cntL |-> 1, cntR |-> 1]),rpc |-> <<"r1">>,mem |-> [rl |-> <<[view |-> [rl |-> 1, cl |-> 1, cntL |-> 1, cntR |-> 1], val |-> 1]>>, cl |-> <<[view |-> [rl |-> 1, cl |-> 1, cntL |-> 1, cntR |-> 1], val |-> 1]>>, cntL |-> <<[view |-> [rl |-> 1, cl |-> 1, cntL |-> 1, cntR |-> 1], val |-> 0]>>, cntR |-> <<[view |-> [rl |-> 1, cl |-> 1, cntL |-> 1, cntR |-> 1], val |-> 0]>>],rside |-> <<"L">>,wl |-> [rl |-> 1, cl |-> 1],wn |-> 1,busy |-> [L |-> FALSE, R |-> TRUE],wpc |-> "f1e",rn |-> <<1>>,lastsc |-> [rl |-> 1, cl |-> 1, cntL |-> 1, cntR |-> 1]]),
    ([rc |-> <<"cntL">>,view |-> (0 :> [rl |-> 1, cl |-> 1, cntL |-> 1, cntR |-> 1] @@ 1 :> [rl |-> 1, cl |-> 1, cntL |-> 1, cntR |-> 1]),rpc |-> <<"r1">>,mem |-> [rl |-> <<[view |-> [rl |-> 1, cl |-> 1, cntL |-> 1, cntR |-> 1], val |-> 1]>>, cl |-> <<[view |-> [rl |-> 1, cl |-> 1, cntL |-> 1, cntR |-> 1], val |-> 1]>>, cntL |-> <<[view |-> [rl |-> 1, cl |-> 1, cntL |-> 1, cntR |-> 1], val |-> 0]>>, cntR |-> <<[view |-> [rl |-> 1, cl |-> 1, cntL |-> 1, cntR |-> 1], val |-> 0]>>],rside |-> <<"L">>,wl |-> [rl |-> 1, cl |-> 1],wn |-> 1,busy |-> [L |-> FALSE, R |-> FALSE],wpc |-> "w2",rn |-> <<1>>,lastsc |-> [rl |-> 1, cl |-> 1, cntL |-> 1, cntR |-> 1]]),
    ([rc |-> <<"cntL">>,view |-> (0 :> [rl |-> 2, cl |-> 1, cntL |-> 1, cntR |-> 1] @@ 1 :> [rl |-> 1, cl |-> 1, cntL |-> 1, cntR |-> 1]),rpc |-> <<"r1">>,mem |-> [rl |-> <<[view |-> [rl |-> 1, cl |-> 1, cntL |-> 1, cntR |-> 1], val |-> 1], [view |-> [rl |-> 2, cl |-> 1, cntL |-> 1, cntR |-> 1], val |-> 0]>>, cl |-> <<[view |-> [rl |-> 1, cl |-> 1, cntL |-> 1, cntR |-> 1], val |-> 1]>>, cntL |-> <<[view |-> [rl |-> 1, cl |-> 1, cntL |-> 1, cntR |-> 1], val |-> 0]>>, cntR |-> <<[view |-> [rl |-> 1, cl |-> 1, cntL |-> 1, cntR |-> 1], val |-> 0]>>],rside |-> <<"L">>,wl |-> [rl |-> 1, cl |-> 1],wn |-> 1,busy |-> [L |-> FALSE, R |-> FALSE],wpc |-> "w3",rn |-> <<1>>,lastsc |-> [rl |-> 2, cl |-> 1, cntL |-> 1, cntR |-> 1]]),
    ([rc |-> <<"cntL">>,view |-> (0 :> [rl |-> 2, cl |-> 1, cntL |-> 1, cntR |-> 1] @@ 1 :> [rl |-> 1, cl |-> 1, cntL |-> 1, cntR |-> 1]),rpc |-> <<"r1">>,mem |-> [rl |-> <<[view |-> [rl |-> 1, cl |-> 1, cntL |-> 1, cntR |-> 1], val |-> 1], [view |-> [rl |-> 2, cl |-> 1, cntL |-> 1, cntR |-> 1], val |-> 0]>>, cl |-> <<[view |-> [rl |-> 1, cl |-> 1, cntL |-> 1, cntR |-> 1], val |-> 1]>>, cntL |-> <<[view |-> [rl |-> 1, cl |-> 1, cntL |-> 1, cntR |-> 1], val |-> 0]>>, cntR |-> <<[view |-> [rl |-> 1, cl |-> 1, cntL |-> 1, cntR |-> 1], val |-> 0]>>],rside |-> <<"L">>,wl |-> [rl |-> 1, cl |-> 1],wn |-> 1,busy |-> [L |-> FALSE, R |-> FALSE],wpc |-> "d1",rn |-> <<1>>,lastsc |-> [rl |-> 2, cl |-> 1, cntL |-> 1, cntR |-> 1]]),
    ([rc |-> <<"cntL">>,view |-> (0 :> [rl |-> 2, cl |-> 1, cntL |-> 1, cntR |-> 1] @@ 1 :> [rl |-> 1, cl |-> 1, cntL |-> 1, cntR |-> 1]),rpc |-> <<"r1">>,mem |-> [rl |-> <<[view |-> [rl |-> 1, cl |-> 1, cntL |-> 1, cntR |-> 1], val |-> 1], [view |-> [rl |-> 2, cl |-> 1, cntL |-> 1, cntR |-> 1], val |-> 0]>>, cl |-> <<[view |-> [rl |-> 1, cl |-> 1, cntL |-> 1, cntR |-> 1], val |-> 1]>>, cntL |-> <<[view |-> [rl |-> 1, cl |-> 1, cntL |-> 1, cntR |-> 1], val |-> 0]>>, cntR |-> <<[view |-> [rl |-> 1, cl |-> 1, cntL |-> 1, cntR |-> 1], val |-> 0]>>],rside |-> <<"L">>,wl |-> [rl |-> 1, cl |-> 1],wn |-> 1,busy |-> [L |-> FALSE, R |-> FALSE],wpc |-> "w4",rn |-> <<1>>,lastsc |-> [rl |-> 2, cl |-> 1, cntL |-> 1, cntR |-> 1]]),
    ([rc |-> <<"cntL">>,view |-> (0 :> [rl |-> 2, cl |-> 1, cntL |-> 1, cntR |-> 1] @@ 1 :> [rl |-> 1, cl |-> 1, cntL |-> 1, cntR |-> 1]),rpc |-> <<"r2">>,mem |-> [rl |-> <<[view |-> [rl |-> 1, cl |-> 1, cntL |-> 1, cntR |-> 1], val |-> 1], [view |-> [rl |-> 2, cl |-> 1, cntL |-> 1, cntR |-> 1], val |-> 0]>>, cl |-> <<[view |-> [rl |-> 1, cl |-> 1, cntL |-> 1, cntR |-> 1], val |-> 1]>>, cntL |-> <<[view |-> [rl |-> 1, cl |-> 1, cntL |-> 1, cntR |-> 1], val |-> 0]>>, cntR |-> <<[view |-> [rl |-> 1, cl |-> 1, cntL |-> 1, cntR |-> 1], val |-> 0]>>],rside |-> <<"L">>,wl |-> [rl |-> 1, cl |-> 1],wn |-> 1,busy |-> [L |-> FALSE, R |-> FALSE],wpc |-> "w4",rn |-> <<1>>,lastsc |-> [rl |-> 2, cl |-> 1, cntL |-> 1, cntR |-> 1]]),
    ([rc |-> <<"cntL">>,view |-> (0 :> [rl |-> 2, cl |-> 2, cntL |-> 1, cntR |-> 1] @@ 1 :> [rl |-> 1, cl |-> 1, cntL |-> 1, cntR |-> 1]),rpc |-> <<"r2">>,mem |-> [rl |-> <<[view |-> [rl |-> 1, cl |-> 1, cntL |-> 1, cntR |-> 1], val |-> 1], [view |-> [rl |-> 2, cl |-> 1, cntL |-> 1, cntR |-> 1], val |-> 0]>>, cl |-> <<[view |-> [rl |-> 1, cl |-> 1, cntL |-> 1, cntR |-> 1], val |-> 1], [view |-> [rl |-> 2, cl |-> 2, cntL |-> 1, cntR |-> 1], val |-> 0]>>, cntL |-> <<[view |-> [rl |-> 1, cl |-> 1, cntL |-> 1, cntR |-> 1], val |-> 0]>>, cntR |-> <<[view |-> [rl |-> 1, cl |-> 1, cntL |-> 1, cntR |-> 1], val |-> 0]>>],rside |-> <<"L">>,wl |-> [rl |-> 1, cl |-> 1],wn |-> 1,busy |-> [L |-> FALSE, R |-> FALSE],wpc |-> "d2",rn |-> <<1>>,lastsc |-> [rl |-> 2, cl |-> 2, cntL |-> 1, cntR |-> 1]]),
    ([rc |-> <<"cntL">>,view |-> (0 :> [rl |-> 2, cl |-> 2, cntL |-> 1, cntR |-> 1] @@ 1 :> [rl |-> 1, cl |-> 1, cntL |-> 1, cntR |-> 1]),rpc |-> <<"r2">>,mem |-> [rl |-> <<[view |-> [rl |-> 1, cl |-> 1, cntL |-> 1, cntR |-> 1], val |-> 1], [view |-> [rl |-> 2, cl |-> 1, cntL |-> 1, cntR |-> 1], val |-> 0]>>, cl |-> <<[view |-> [rl |-> 1, cl |-> 1, cntL |-> 1, cntR |-> 1], val |-> 1], [view |-> [rl |-> 2, cl |-> 2, cntL |-> 1, cntR |-> 1], val |-> 0]>>, cntL |-> <<[view |-> [rl |-> 1, cl |-> 1, cntL |-> 1, cntR |-> 1], val |-> 0]>>, cntR |-> <<[view |-> [rl |-> 1, cl |-> 1, cntL |-> 1, cntR |-> 1], val |-> 0]>>],rside |-> <<"L">>,wl |-> [rl |-> 1, cl |-> 1],wn |-> 1,busy |-> [L |-> FALSE, R |-> FALSE],wpc |-> "f2b",rn |-> <<1>>,lastsc |-> [rl |-> 2, cl |-> 2, cntL |-> 1, cntR |-> 1]]),
    ([rc |-> <<"cntL">>,view |-> (0 :> [rl |-> 2, cl |-> 2, cntL |-> 1, cntR |-> 1] @@ 1 :> [rl |-> 1, cl |-> 1, cntL |-> 2, cntR |-> 1]),rpc |-> <<"r3">>,mem |-> [rl |-> <<[view |-> [rl |-> 1, cl |-> 1, cntL |-> 1, cntR |-> 1], val |-> 1], [view |-> [rl |-> 2, cl |-> 1, cntL |-> 1, cntR |-> 1], val |-> 0]>>, cl |-> <<[view |-> [rl |-> 1, cl |-> 1, cntL |-> 1, cntR |-> 1], val |-> 1], [view |-> [rl |-> 2, cl |-> 2, cntL |-> 1, cntR |-> 1], val |-> 0]>>, cntL |-> <<[view |-> [rl |-> 1, cl |-> 1, cntL |-> 1, cntR |-> 1], val |-> 0], [view |-> [rl |-> 1, cl |-> 1, cntL |-> 2, cntR |-> 1], val |-> 1]>>, cntR |-> <<[view |-> [rl |-> 1, cl |-> 1, cntL |-> 1, cntR |-> 1], val |-> 0]>>],rside |-> <<"L">>,wl |-> [rl |-> 1, cl |-> 1],wn |-> 1,busy |-> [L |-> FALSE, R |-> FALSE],wpc |-> "f2b",rn |-> <<1>>,lastsc |-> [rl |-> 2, cl |-> 2, cntL |-> 2, cntR |-> 1]]),
    ([rc |-> <<"cntL">>,view |-> (0 :> [rl |-> 2, cl |-> 2, cntL |-> 1, cntR |-> 1] @@ 1 :> [rl |-> 1, cl |-> 1, cntL |-> 2, cntR |-> 1]),rpc |-> <<"r4">>,mem |-> [rl |-> <<[view |-> [rl |-> 1, cl |-> 1, cntL |-> 1, cntR |-> 1], val |-> 1], [view |-> [rl |-> 2, cl |-> 1, cntL |-> 1, cntR |-> 1], val |-> 0]>>, cl |-> <<[view |-> [rl |-> 1, cl |-> 1, cntL |-> 1, cntR |-> 1], val |-> 1], [view |-> [rl |-> 2, cl |-> 2, cntL |-> 1, cntR |-> 1], val |-> 0]>>, cntL |-> <<[view |-> [rl |-> 1, cl |-> 1, cntL |-> 1, cntR |-> 1], val |-> 0], [view |-> [rl |-> 1, cl |-> 1, cntL |-> 2, cntR |-> 1], val |-> 1]>>, cntR |-> <<[view |-> [rl |-> 1, cl |-> 1, cntL |-> 1, cntR |-> 1], val |-> 0]>>],rside |-> <<"L">>,wl |-> [rl |-> 1, cl |-> 1],wn |-> 1,busy |-> [L |-> FALSE, R |-> FALSE],wpc |-> "f2b",rn |-> <<1>>,lastsc |-> [rl |-> 2, cl |-> 2, cntL |-> 2, cntR |-> 1]]),
    ([rc |-> <<"cntL">>,view |-> (0 :> [rl |-> 2, cl |-> 2, cntL |-> 1, cntR |-> 1] @@ 1 :> [rl |-> 1, cl |-> 1, cntL |-> 2, cntR |-> 1]),rpc |-> <<"r4">>,mem |-> [rl |-> <<[view |-> [rl |-> 1, cl |-> 1, cntL |-> 1, cntR |-> 1], val |-> 1], [view |-> [rl |-> 2, cl |-> 1, cntL |-> 1, cntR |-> 1], val |-> 0]>>, cl |-> <<[view |-> [rl |-> 1, cl |-> 1, cntL |-> 1, cntR |-> 1], val |-> 1], [view |-> [rl |-> 2, cl |-> 2, cntL |-> 1, cntR |-> 1], val |-> 0]>>, cntL |-> <<[view |-> [rl |-> 1, cl |-> 1, cntL |-> 1, cntR |-> 1], val |-> 0], [view |-> [rl |-> 1, cl |-> 1, cntL |-> 2, cntR |-> 1], val |-> 1]>>, cntR |-> <<[view |-> [rl |-> 1, cl |-> 1, cntL |-> 1, cntR |-> 1], val |-> 0]>>],rside |-> <<"L">>,wl |-> [rl |-> 1, cl |-> 1],wn |-> 1,busy |-> [L |-> TRUE, R |-> FALSE],wpc |-> "f2e",rn |-> <<1>>,lastsc |-> [rl |-> 2, cl |-> 2, cntL |-> 2, cntR |-> 1]])
    >>
----


=============================================================================

---- CONFIG LeftRightRA_TTrace_1790904827 ----
CONSTANTS
    NW = 2
    NR = 1
    NReads = 2
    O_WLoadRL = 5
    O_StoreRL = 5
    O_WLoadCL = 5
    O_Drain = 5
    O_StoreCL = 5
    O_RLoadCL = 5
    O_RInc = 5
    O_RLoadRL = 2
    O_RDec = 5

INVARIANT
    _inv

CHECK_DEADLOCK
    \* CHECK_DEADLOCK off because of PROPERTY or INVARIANT above.
    FALSE

INIT
    _init

NEXT
    _next

CONSTANT
    _TETrace <- _trace

ALIAS
    _expression
=============================================================================
\* Generated on Fri Oct 02 01:33:48 UTC 2026
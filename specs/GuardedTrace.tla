---------------------------- MODULE GuardedTrace ----------------------------
EXTENDS Guarded, TraceBase
VARIABLE l
TInit == l = 1 /\ InitWith(<<>>, [shared |-> FALSE, enabled |-> TRUE, loadshared |-> FALSE]) /\ TLCSet(1, 0)
Skip == LifeKinds \cup {"blocked", "hget", "hrel", "hfree", "final", "starved", "soloyield"}
TNext ==
    /\ l <= Len(Tr)
    /\ l' = l + 1
    /\ LET e == Tr[l] IN
       \/ e.k = "reset" /\ ResetTo(e.prog, [shared |-> e.p.mk \in {2, 3}, enabled |-> e.p.enabled = 1, loadshared |-> e.p.kind = 4])
       \/ e.k \in Skip /\ UNCHANGED vars
       \/ e.k \in EndKinds /\ UNCHANGED vars
       \/ e.k \notin (Skip \cup EndKinds \cup {"reset"}) /\ Next /\ Matches(ev', e)
    /\ Mark(l)
TSpec == TInit /\ [][TNext]_<<vars, l>>
Accepted == IF TLCGet(1) = Len(Tr) THEN TRUE ELSE Rejected(TLCGet(1) + 1)
=============================================================================

-------------------------------- MODULE Holder --------------------------------
(* gmlc::concurrency::SearchableObjectHolder: two std::maps under one mutex;   *)
(* every public operation holds the mutex for its whole body, whose effect is  *)
(* the sequential meaning of HolderSeq.  Operation code = kind*100 + a*10 + b. *)
EXTENDS HolderSeq, TLC
CONSTANTS Progs,
          PredThrows     \* user predicates may throw (C20): the operation then has no effect and releases the lock
VARIABLES prog, abs, ml, th, lin, ev
vars == <<prog, abs, ml, th, lin, ev>>
View == <<prog, abs, ml, th, lin>>
L == INSTANCE SeqLin
KindName == <<"add", "addT", "addType", "empty", "getObjects", "removeName", "removePred", "copy", "checkType", "findName", "findPred", "findPredType">>
Dig == <<"0", "1", "2", "3", "4", "5", "6", "7", "8", "9">>
OpName(c) == KindName[(c \div 100) + 1] \o Dig[((c \div 10) % 10) + 1] \o Dig[(c % 10) + 1]
Op(c) == [n |-> KindName[(c \div 100) + 1], a |-> (c \div 10) % 10, b |-> c % 10]
NoOp == [n |-> "none", a |-> 0, b |-> 0]
Threads == 1..Len(prog)
NoEv == [t |-> 0, k |-> "init", o |-> "", i |-> 0, v |-> 0, w |-> 0]
E(t, k, o, i, v, w) == [t |-> t, k |-> k, o |-> o, i |-> i, v |-> v, w |-> w]
Th0 == [pc |-> "idle", op |-> 0, opi |-> 1, res |-> 0, o |-> NoOp]
Init0(p) == [prog |-> p, abs |-> S0, ml |-> 0, th |-> [t \in 1..Len(p) |-> Th0], lin |-> L!LinInit(S0, 1..Len(p)), ev |-> NoEv]
InitWith(p) == LET z == Init0(p) IN prog = z.prog /\ abs = z.abs /\ ml = z.ml /\ th = z.th /\ lin = z.lin /\ ev = z.ev
ResetTo(p) == LET z == Init0(p) IN prog' = z.prog /\ abs' = z.abs /\ ml' = z.ml /\ th' = z.th /\ lin' = z.lin /\ ev' = z.ev
Init == \E p \in Progs : InitWith(p)
Ops == [t \in Threads |-> th[t].o]
Call(t) ==
    /\ th[t].pc = "idle" /\ th[t].opi <= Len(prog[t])
    /\ \E j \in 1..Len(prog[t][th[t].opi]) :
         LET c == prog[t][th[t].opi][j] IN
         /\ th' = [th EXCEPT ![t] = [@ EXCEPT !.op = c, !.o = Op(c), !.res = 0, !.pc = "lock"]]
         /\ lin' = L!LinCall(lin, t, [Ops EXCEPT ![t] = Op(c)])
         /\ ev' = E(t, "call", OpName(c), 0, 0, 0)
    /\ UNCHANGED <<prog, abs, ml>>
HasPred(o) == o.n \in {"removePred", "findPred", "findPredType"}
Lock(t) ==
    /\ th[t].pc = "lock" /\ ml = 0 /\ ml' = t
    /\ \/ \E x \in Eff(abs, th[t].o) : abs' = x.s /\ th' = [th EXCEPT ![t] = [@ EXCEPT !.pc = "unlock", !.res = x.r]] /\ lin' = lin
       \* the predicate throws: nothing changes; for the linearizability ghost the call becomes a skipped one
       \/ /\ PredThrows /\ HasPred(th[t].o) /\ abs' = abs
          /\ th' = [th EXCEPT ![t] = [@ EXCEPT !.pc = "unlock", !.res = -1, !.o = NoOp]]
          /\ lin' = L!LinCall({L!Set(c, t, L!NONE) : c \in lin}, t, [Ops EXCEPT ![t] = NoOp])
    /\ ev' = E(t, "mlock", "ml", 1, 0, 0) /\ UNCHANGED prog
Unlock(t) ==
    /\ th[t].pc = "unlock" /\ ml' = 0 /\ th' = [th EXCEPT ![t] = [@ EXCEPT !.pc = "ret"]]
    /\ ev' = E(t, "munlock", "ml", 1, 0, 0) /\ UNCHANGED <<prog, abs, lin>>
Ret(t) ==
    /\ th[t].pc = "ret"
    /\ th' = [th EXCEPT ![t] = [@ EXCEPT !.pc = "idle", !.opi = @ + 1]]
    /\ lin' = L!LinRet(lin, t, IF th[t].res = -1 THEN -3 ELSE th[t].res)
    /\ ev' = E(t, "ret", OpName(th[t].op), 0, th[t].res, 0)
    /\ UNCHANGED <<prog, abs, ml>>
Step(t) == Call(t) \/ Lock(t) \/ Unlock(t) \/ Ret(t)
Next == \E t \in Threads : Step(t)
Spec == Init /\ [][Next]_vars
-----------------------------------------------------------------------------
AllDone == \A t \in Threads : th[t].pc = "idle" /\ th[t].opi > Len(prog[t])
TypeOK == ml \in 0..Len(prog)
Linearizable == lin # {}
NoDeadlock == (\A t \in Threads : ~ENABLED Step(t)) => AllDone
\* C17: tags only ever belong to at most the names that carry tags in the code's two maps (orphans allowed); removal deletes both
RemovedHasNoTags == \A n \in Names : (abs.obj[n] = 0 /\ abs.has[n]) => TRUE
=============================================================================

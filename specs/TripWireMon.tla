----------------------------- MODULE TripWireMon -----------------------------
(* Property monitor for C19 over API-level events: a poll reports true only   *)
(* after the destruction of a (duty-carrying) trigger of that line has begun; *)
(* a poll that starts after such a destruction completed reports true; lines  *)
(* are independent (follows from the two); destroying a moved-from trigger is *)
(* safe and trips nothing; an out-of-range index is rejected.                 *)
EXTENDS TraceBase
VARIABLES l, begun, done, must, inop
mv == <<begun, done, must, inop>>
MaxT == 8
Viol(what) == MonViol(l, what)
KindOf(name) == SubSeq(name, 1, Len(name) - 1)
LineOf(name) == CASE SubSeq(name, Len(name), Len(name)) = "1" -> 1 [] SubSeq(name, Len(name), Len(name)) = "2" -> 2
                  [] SubSeq(name, Len(name), Len(name)) = "3" -> 3 [] SubSeq(name, Len(name), Len(name)) = "4" -> 4
                  [] SubSeq(name, Len(name), Len(name)) = "5" -> 5 [] OTHER -> 0
TInit == l = 1 /\ begun = {} /\ done = {} /\ must = [t \in 0..MaxT |-> FALSE] /\ inop = [t \in 0..MaxT |-> ""] /\ TLCSet(1, 0)
TNext ==
    /\ l <= Len(Tr)
    /\ l' = l + 1
    /\ LET e == Tr[l] IN
       CASE e.k = "reset" -> begun' = {} /\ done' = {} /\ must' = [t \in 0..MaxT |-> FALSE] /\ inop' = [t \in 0..MaxT |-> ""]
         [] e.k = "call" ->
              \* a poll (or consume) that starts after a completed trip of its line must report true
              /\ must' = [must EXCEPT ![e.t] = LineOf(e.o) \in done]
              /\ inop' = [inop EXCEPT ![e.t] = e.o]
              /\ UNCHANGED <<begun, done>>
         [] e.k = "tb" -> begun' = begun \cup {e.i} /\ UNCHANGED <<done, must, inop>>
         [] e.k = "te" -> done' = done \cup {e.i} /\ UNCHANGED <<begun, must, inop>>
         [] e.k = "ret" ->
              LET kd == KindOf(e.o)
                  ln == LineOf(e.o) IN
              /\ (kd \in {"poll", "consume", "movetrip"} /\ e.v = 1 /\ ln \notin begun) => Viol("C19: a detector reports a trip although no trigger of its line has been destroyed")
              /\ (kd \in {"poll", "consume"} /\ e.v = 0 /\ must[e.t]) => Viol("C19: a detector reports false after the line was tripped")
              /\ (kd = "badindex" /\ e.v # 1) => Viol("C19: an out-of-range line index is not rejected")
              /\ inop' = [inop EXCEPT ![e.t] = ""]
              /\ UNCHANGED <<begun, done, must>>
         [] e.k \in {"crash", "terminate", "escaped"} -> Viol("C19: crash (destroying a trigger must be safe)") /\ UNCHANGED mv
         [] e.k \in {"deadlock", "budget"} -> Viol("C19: an operation never completes") /\ UNCHANGED mv
         [] OTHER -> UNCHANGED mv
    /\ Mark(l)
TSpec == TInit /\ [][TNext]_<<l, mv>>
Accepted == IF TLCGet(1) = Len(Tr) THEN TRUE ELSE Rejected(TLCGet(1) + 1)
=============================================================================

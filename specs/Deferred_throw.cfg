SPECIFICATION Spec
CONSTANTS
  Progs <- ThrowProgs
  Shareds = {TRUE}
  MaxThrows = 2
  PushBeforeFlag = TRUE
  DrainNeedsLock = TRUE
  DrainFifo = TRUE
VIEW View
INVARIANTS TypeOK AtMostOnce Exclusive NoTornRead Order NoStranding NoLoss NoLeakedLock NoDeadlock TryNeverBlocks
CHECK_DEADLOCK FALSE

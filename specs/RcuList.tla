------------------------------- MODULE RcuList -------------------------------
(***************************************************************************)
(* gmlc::libguarded::rcu_list behind rcu_guarded handles (rcu_list.hpp,     *)
(* rcu_guarded.hpp), line by line at the grain of the atomic accesses and   *)
(* the writer mutex.  Non-synchronising code (allocation, construction,     *)
(* destruction, plain fields) belongs to the step after which it runs.      *)
(*                                                                         *)
(* log (m_zombie_head): LIFO of records {next, owner, zombie_node}: reader  *)
(*   registrations (owner = guard, zombie_node = null) and erased nodes     *)
(*   (owner = null, zombie_node = node).                                    *)
(* registration (first ->/* on a handle): allocate record; exp = zhead.load *)
(*   (relaxed); do { rec.next.store(exp, relaxed) } while (!zhead.CAS(exp, rec)) *)
(* release (unlock): cached = rec.next.load; scan older records: any        *)
(*   owner != null => not last; if last: for each older record: destroy +   *)
(*   deallocate its zombie_node (if not null), load its next, destroy +     *)
(*   deallocate the record; rec.next.store(null); finally rec.owner.store(null) *)
(* push_back/emplace_back: lock; allocate+construct node; t = tail.load(relaxed); *)
(*   empty: head.store(n); tail.store(n)  else: n.back.store(t); t.next.store(n); tail.store(n) *)
(* push_front/emplace_front: symmetric through head                          *)
(* erase(it): lock; orig = it.next.load; if (!deleted) { deleted = true; p = it.back.load; *)
(*   x = it.next.load; (p ? p.next : head).store(x); (x ? x.back : tail).store(p);        *)
(*   allocate zombie record(it); z = zhead.load; do { zr.next = z } while (!zhead.CAS(z, zr)) } *)
(* iteration: begin() = head.load; ++ = cur.next.load; * = read of the element *)
(***************************************************************************)
EXTENDS Naturals, Integers, Sequences, FiniteSets, TLC

CONSTANTS Progs, MaxN, MaxR,
          UnlinkBeforeLog,     \* knob: erase unlinks the node before pushing it on the log (code as read)
          ScanOlder,           \* knob: release scans older records for live owners before reclaiming
          NullCheck,           \* knob: reclaim skips null zombie_node (code as repaired; FALSE = as found)
          EraseLocked          \* knob: erase tests `deleted` under the writer mutex

VARIABLES prog, sh, th, gh, ev
vars == <<prog, sh, th, gh, ev>>

OpName == <<"traverse", "push_back", "push_front", "erase_first", "erase_second", "touch", "emplace_front", "emplace_back",
            "traverse_star", "push_back_throw">>
Trav(o) == o \in {0, 8}      \* op 8 traverses through operator* of the handle (same steps)
Threads == 1..Len(prog)
NoEv == [t |-> 0, k |-> "init", o |-> "", i |-> 0, v |-> 0, w |-> 0]
E(t, k, o, i, v, w) == [t |-> t, k |-> k, o |-> o, i |-> i, v |-> v, w |-> w]
\* a CAS event carries observed value, desired value and outcome
EC(t, o, i, v, w, ok) == [t |-> t, k |-> "cas", o |-> o, i |-> i, v |-> v, w |-> w, u |-> IF ok THEN 1 ELSE 0]

Node0 == [next |-> 0, back |-> 0, deleted |-> FALSE, val |-> 0, st |-> "none"]
Rec0 == [next |-> 0, owner |-> 0, znode |-> 0, st |-> "none"]
Th0 == [pc |-> "idle", op |-> 0, opi |-> 1, myrec |-> 0, exp |-> 0, cur |-> 0, n |-> 0, lastf |-> TRUE, nn |-> 0, zr |-> 0,
        oprev |-> 0, onext |-> 0, cached |-> 0, sawdel |-> FALSE, vis |-> <<>>, skip |-> 0, live0 |-> {}, er0 |-> {}]
Init0(p) == [prog |-> p,
             sh |-> [head |-> 0, tail |-> 0, zhead |-> 0, wm |-> 0, node |-> [i \in 1..MaxN |-> Node0], rec |-> [i \in 1..MaxR |-> Rec0],
                     nnode |-> 0, nrec |-> 0],
             th |-> [t \in 1..Len(p) |-> Th0],
             gh |-> [uaf |-> FALSE, dbl |-> FALSE, nulld |-> FALSE, early |-> FALSE, ref |-> <<>>, erased |-> {}, inserted |-> {},
                     must |-> [i \in 1..MaxN |-> {}], badtrav |-> FALSE],
             ev |-> NoEv]
InitWith(p) == LET s == Init0(p) IN prog = s.prog /\ sh = s.sh /\ th = s.th /\ gh = s.gh /\ ev = s.ev
ResetTo(p) == LET s == Init0(p) IN prog' = s.prog /\ sh' = s.sh /\ th' = s.th /\ gh' = s.gh /\ ev' = s.ev
Init == \E p \in Progs : InitWith(p)

\* ---- helpers on the shared state -------------------------------------------------------------
NFreed(s, i) == i # 0 /\ s.node[i].st = "freed"
RFreed(s, i) == i # 0 /\ s.rec[i].st = "freed"
\* touching a set of nodes / records: any of them already freed => use after free
Touch(g, ns, rs) == [g EXCEPT !.uaf = @ \/ (\E i \in ns : NFreed(sh, i)) \/ (\E i \in rs : RFreed(sh, i))]
AllocNode(s, v) == [s EXCEPT !.nnode = @ + 1, !.node[s.nnode + 1] = [Node0 EXCEPT !.val = v, !.st = "live"]]
AllocRec(s, own, zn) == [s EXCEPT !.nrec = @ + 1, !.rec[s.nrec + 1] = [Rec0 EXCEPT !.owner = own, !.znode = zn, !.st = "live"]]
FreeNode(s, i) == IF i = 0 THEN s ELSE [s EXCEPT !.node[i].st = "freed"]
FreeRec(s, i) == [s EXCEPT !.rec[i].st = "freed"]
\* ghost bookkeeping for a node free: double free, free of null, premature free
FreeNodeG(g, s, i) ==
    [g EXCEPT !.dbl = @ \/ (i # 0 /\ s.node[i].st = "freed"),
              !.nulld = @ \/ (i = 0),
              !.early = @ \/ (i # 0 /\ \E r \in g.must[i] : s.rec[r].st = "live" /\ s.rec[r].owner # 0)]
FreeRecG(g, s, i) == [g EXCEPT !.dbl = @ \/ s.rec[i].st = "freed"]
\* nodes reachable from head following next
RECURSIVE ReachFrom(_, _, _)
ReachFrom(s, i, k) == IF i = 0 \/ k = 0 THEN <<>> ELSE <<i>> \o ReachFrom(s, s.node[i].next, k - 1)
Linked(s) == ReachFrom(s, s.head, MaxN)
SeqSet(q) == {q[j] : j \in 1..Len(q)}

\* ---- generic step ----------------------------------------------------------------------------
Do(t, from, guard, sh2, th2, gh2, e) ==
    /\ th[t].pc = from /\ guard
    /\ sh' = sh2 /\ th' = [th EXCEPT ![t] = th2] /\ gh' = gh2 /\ ev' = e /\ UNCHANGED prog
Pc(t, l) == [th[t] EXCEPT !.pc = l]

IsWriter(o) == o \in {1, 2, 3, 4, 6, 7}
Val(t) == 10 * t + th[t].opi

\* call: the handle is taken and first used: the registration record is allocated (owner = this guard)
Call(t) ==
    /\ th[t].pc = "idle" /\ th[t].opi <= Len(prog[t]) /\ sh.nrec < MaxR
    /\ \E j \in 1..Len(prog[t][th[t].opi]) :
         LET o == prog[t][th[t].opi][j] IN
         /\ th' = [th EXCEPT ![t] = [Th0 EXCEPT !.opi = th[t].opi, !.op = o, !.pc = "g1", !.myrec = sh.nrec + 1]]
         /\ ev' = E(t, "call", OpName[o + 1], 0, IF o \in {1, 2, 6, 7, 9} THEN Val(t) ELSE 0, 0)
    /\ sh' = AllocRec(sh, t, 0) /\ UNCHANGED <<prog, gh>>

\* ---- registration -----------------------------------------------------------------------------
AfterReg(t) == CASE th[t].op \in {0, 5, 8} -> "b1"          \* readers: begin()
                 [] th[t].op \in {1, 2, 6, 7, 9} -> "p1"     \* push: lock
                 [] OTHER -> "b1"                        \* erase: find the element first
Register(t) == LET r == th[t].myrec IN
    \/ Do(t, "g1", TRUE, sh, [th[t] EXCEPT !.pc = "g2", !.exp = sh.zhead], gh, E(t, "ald", "zhead", 1, sh.zhead, 0))
    \* (memory_order_relaxed: the field m of the event is part of the conformance check here)
    \/ Do(t, "g2", TRUE, [sh EXCEPT !.rec[r].next = th[t].exp], Pc(t, "g3"), Touch(gh, {}, {r}),
          [t |-> t, k |-> "ast", o |-> "r.next", i |-> r, v |-> th[t].exp, w |-> 0, m |-> 0])
    \/ Do(t, "g3", sh.zhead = th[t].exp, [sh EXCEPT !.zhead = r], Pc(t, AfterReg(t)), gh, EC(t, "zhead", 1, sh.zhead, r, TRUE))
    \/ Do(t, "g3", sh.zhead # th[t].exp, sh, [th[t] EXCEPT !.pc = "g2", !.exp = sh.zhead], gh, EC(t, "zhead", 1, sh.zhead, r, FALSE))

\* ---- iteration ---------------------------------------------------------------------------------
\* op 0 traverse: begin, then (read element, advance)* ; op 5 touch: begin only;
\* op 3/4 erase: begin, skip `skip` elements, then erase the current one (if any)
StartSkip(o) == IF o = 4 THEN 1 ELSE 0
Iterate(t) == LET c == th[t].cur IN
    \/ Do(t, "b1", TRUE, sh,
          [th[t] EXCEPT !.cur = sh.head, !.skip = StartSkip(th[t].op), !.live0 = SeqSet(Linked(sh)), !.er0 = gh.erased,
                        !.sawdel = (sh.head # 0 /\ sh.node[sh.head].deleted),
                        !.pc = CASE th[t].op = 5 -> "u1"
                                 [] Trav(th[t].op) -> IF sh.head = 0 THEN "u1" ELSE "b2"
                                 [] OTHER -> IF sh.head = 0 THEN "u1" ELSE (IF StartSkip(th[t].op) = 0 THEN "e1" ELSE "b3")],
          gh, E(t, "ald", "head", 1, sh.head, 0))
    \* read the element (payload read of the node)
    \/ Do(t, "b2", TRUE, sh, [th[t] EXCEPT !.pc = "b3", !.vis = Append(@, c)], Touch(gh, {c}, {}), E(t, "pr", "n", c, sh.node[c].val, 0))
    \* advance
    \/ Do(t, "b3", TRUE, sh,
          [th[t] EXCEPT !.cur = sh.node[c].next, !.skip = IF @ > 0 THEN @ - 1 ELSE 0,
                        !.sawdel = (sh.node[c].next # 0 /\ sh.node[sh.node[c].next].deleted),
                        !.pc = IF sh.node[c].next = 0 THEN "u1"
                               ELSE IF Trav(th[t].op) THEN "b2"
                               ELSE IF th[t].skip <= 1 THEN "e1" ELSE "b3"],
          Touch(gh, {c}, {}), E(t, "ald", "n.next", c, sh.node[c].next, 0))

\* ---- push ---------------------------------------------------------------------------------------
Back(o) == o \in {1, 7}
Push(t) == LET nn == th[t].nn IN
    \* lock, then allocate + construct the node
    \/ Do(t, "p1", sh.wm = 0 /\ sh.nnode < MaxN /\ th[t].op # 9, AllocNode([sh EXCEPT !.wm = t], Val(t)), [th[t] EXCEPT !.pc = "p2", !.nn = sh.nnode + 1], gh,
          E(t, "mlock", "wm", 1, 0, 0))
    \* op 9: the element constructor throws inside allocate_unique: the storage is deallocated again (never constructed,
    \* never destroyed), the exception leaves push_back through the lock_guard
    \/ Do(t, "p1", sh.wm = 0 /\ sh.nnode < MaxN /\ th[t].op = 9, [sh EXCEPT !.wm = t, !.nnode = @ + 1, !.node[sh.nnode + 1].st = "void"],
          Pc(t, "p6"), gh, E(t, "mlock", "wm", 1, 0, 0))
    \/ Do(t, "p2", Back(th[t].op), sh, [th[t] EXCEPT !.pc = IF sh.tail = 0 THEN "p3a" ELSE "p3b", !.cur = sh.tail], gh,
          E(t, "ald", "tail", 1, sh.tail, 0))
    \/ Do(t, "p2", ~Back(th[t].op), sh, [th[t] EXCEPT !.pc = IF sh.head = 0 THEN "p3a" ELSE "p3b", !.cur = sh.head], gh,
          E(t, "ald", "head", 1, sh.head, 0))
    \* empty list: head = n; tail = n
    \/ Do(t, "p3a", TRUE, [sh EXCEPT !.head = nn], Pc(t, "p4a"),
          [gh EXCEPT !.ref = <<nn>> \o @, !.inserted = @ \cup {nn}], E(t, "ast", "head", 1, nn, 0))
    \/ Do(t, "p4a", TRUE, [sh EXCEPT !.tail = nn], Pc(t, "p6"), gh, E(t, "ast", "tail", 1, nn, 0))
    \* non-empty, back: n.back = t; t.next = n (publication); tail = n
    \/ Do(t, "p3b", Back(th[t].op), [sh EXCEPT !.node[nn].back = th[t].cur], Pc(t, "p4b"), Touch(gh, {nn}, {}),
          E(t, "ast", "n.back", nn, th[t].cur, 0))
    \/ Do(t, "p4b", Back(th[t].op), [sh EXCEPT !.node[th[t].cur].next = nn], Pc(t, "p5b"),
          [Touch(gh, {th[t].cur}, {}) EXCEPT !.ref = Append(@, nn), !.inserted = @ \cup {nn}], E(t, "ast", "n.next", th[t].cur, nn, 0))
    \/ Do(t, "p5b", Back(th[t].op), [sh EXCEPT !.tail = nn], Pc(t, "p6"), gh, E(t, "ast", "tail", 1, nn, 0))
    \* non-empty, front: n.next = h; h.back = n; head = n (publication)
    \/ Do(t, "p3b", ~Back(th[t].op), [sh EXCEPT !.node[nn].next = th[t].cur], Pc(t, "p4b"), Touch(gh, {nn}, {}),
          E(t, "ast", "n.next", nn, th[t].cur, 0))
    \/ Do(t, "p4b", ~Back(th[t].op), [sh EXCEPT !.node[th[t].cur].back = nn], Pc(t, "p5b"), Touch(gh, {th[t].cur}, {}),
          E(t, "ast", "n.back", th[t].cur, nn, 0))
    \/ Do(t, "p5b", ~Back(th[t].op), [sh EXCEPT !.head = nn], Pc(t, "p6"),
          [gh EXCEPT !.ref = <<nn>> \o @, !.inserted = @ \cup {nn}], E(t, "ast", "head", 1, nn, 0))
    \/ Do(t, "p6", TRUE, [sh EXCEPT !.wm = 0], Pc(t, "u1"), gh, E(t, "munlock", "wm", 1, 0, 0))

\* ---- erase --------------------------------------------------------------------------------------
Remove(q, x) == SelectSeq(q, LAMBDA y : y # x)
\* handles in use (registered, not yet released) at this moment
InUse == {u \in Threads : th[u].myrec # 0 /\ sh.rec[th[u].myrec].st = "live" /\ sh.rec[th[u].myrec].owner = u
                          /\ th[u].pc \notin {"idle", "g1", "g2", "g3"}}
\* push the zombie record: z = zhead.load; do { zr.next = z } while (!CAS)
LogPush(t, after) == LET zr == th[t].zr IN
    \/ Do(t, "z1", TRUE, sh, [th[t] EXCEPT !.pc = "z2", !.exp = sh.zhead], gh, E(t, "ald", "zhead", 1, sh.zhead, 0))
    \/ Do(t, "z2", TRUE, [sh EXCEPT !.rec[zr].next = th[t].exp], Pc(t, "z3"), Touch(gh, {}, {zr}), E(t, "ast", "r.next", zr, th[t].exp, 0))
    \/ Do(t, "z3", sh.zhead = th[t].exp, [sh EXCEPT !.zhead = zr], Pc(t, after),
          [gh EXCEPT !.must[th[t].cur] = {th[u].myrec : u \in InUse}], EC(t, "zhead", 1, sh.zhead, zr, TRUE))
    \/ Do(t, "z3", sh.zhead # th[t].exp, sh, [th[t] EXCEPT !.pc = "z2", !.exp = sh.zhead], gh, EC(t, "zhead", 1, sh.zhead, zr, FALSE))
Erase(t) == LET c == th[t].cur IN
    \/ Do(t, "e1", sh.wm = 0 /\ (EraseLocked \/ ~th[t].sawdel), [sh EXCEPT !.wm = t], Pc(t, "e2"), gh, E(t, "mlock", "wm", 1, 0, 0))
    \* knob: `deleted` was tested before locking and found set: erase returns without locking (one load of it.next)
    \/ Do(t, "e1", ~EraseLocked /\ th[t].sawdel, sh, Pc(t, "u1"), Touch(gh, {c}, {}), E(t, "ald", "n.next", c, sh.node[c].next, 0))
    \* orig = it.next.load; then the plain test-and-set of `deleted`
    \/ Do(t, "e2", UnlinkBeforeLog \/ sh.nrec < MaxR,
          IF sh.node[c].deleted /\ EraseLocked THEN sh
          ELSE (IF UnlinkBeforeLog THEN [sh EXCEPT !.node[c].deleted = TRUE] ELSE AllocRec([sh EXCEPT !.node[c].deleted = TRUE], 0, c)),
          [th[t] EXCEPT !.pc = IF sh.node[c].deleted /\ EraseLocked THEN "e9" ELSE (IF UnlinkBeforeLog THEN "e3" ELSE "z1"),
                        !.zr = IF UnlinkBeforeLog THEN 0 ELSE sh.nrec + 1],
          Touch(gh, {c}, {}), E(t, "ald", "n.next", c, sh.node[c].next, 0))
    \/ Do(t, "e3", TRUE, sh, [th[t] EXCEPT !.pc = "e4", !.oprev = sh.node[c].back], Touch(gh, {c}, {}), E(t, "ald", "n.back", c, sh.node[c].back, 0))
    \/ Do(t, "e4", TRUE, sh, [th[t] EXCEPT !.pc = "e5", !.onext = sh.node[c].next], Touch(gh, {c}, {}), E(t, "ald", "n.next", c, sh.node[c].next, 0))
    \* redirect the predecessor (or head): the node leaves the list here
    \/ Do(t, "e5", th[t].oprev # 0, [sh EXCEPT !.node[th[t].oprev].next = th[t].onext], Pc(t, "e6"),
          [Touch(gh, {th[t].oprev}, {}) EXCEPT !.ref = Remove(@, c), !.erased = @ \cup {c}], E(t, "ast", "n.next", th[t].oprev, th[t].onext, 0))
    \/ Do(t, "e5", th[t].oprev = 0, [sh EXCEPT !.head = th[t].onext], Pc(t, "e6"),
          [gh EXCEPT !.ref = Remove(@, c), !.erased = @ \cup {c}], E(t, "ast", "head", 1, th[t].onext, 0))
    \* redirect the successor (or tail); afterwards allocate the zombie record
    \/ Do(t, "e6", th[t].onext # 0, [sh EXCEPT !.node[th[t].onext].back = th[t].oprev],
          Pc(t, IF UnlinkBeforeLog THEN "e6p" ELSE "e9"), Touch(gh, {th[t].onext}, {}), E(t, "ast", "n.back", th[t].onext, th[t].oprev, 0))
    \/ Do(t, "e6", th[t].onext = 0, [sh EXCEPT !.tail = th[t].oprev],
          Pc(t, IF UnlinkBeforeLog THEN "e6p" ELSE "e9"), gh, E(t, "ast", "tail", 1, th[t].oprev, 0))
    \* the bookkeeping step after that (seq_cst) store: the zombie record is allocated in the code that follows it
    \/ Do(t, "e6p", sh.nrec < MaxR, AllocRec(sh, 0, c), [th[t] EXCEPT !.pc = "z1", !.zr = sh.nrec + 1], gh,
          [t |-> t, k |-> "pu", o |-> IF th[t].onext # 0 THEN "n.back" ELSE "tail", i |-> IF th[t].onext # 0 THEN th[t].onext ELSE 1])
    \/ LogPush(t, IF UnlinkBeforeLog THEN "e9" ELSE "e3")
    \/ Do(t, "e9", TRUE, [sh EXCEPT !.wm = 0], Pc(t, "u1"), gh, E(t, "munlock", "wm", 1, 0, 0))

\* ---- release (rcu_guard::unlock) -------------------------------------------------------------------
\* free the zombie node of record i (if any), as the code does before loading the record's next
FreeZ(s, g, i) == LET z == s.rec[i].znode IN
    IF z = 0 /\ NullCheck THEN <<s, g>> ELSE <<FreeNode(s, z), FreeNodeG(g, s, z)>>
Release(t) == LET r == th[t].myrec
                  n == th[t].n IN
    \* cached = rec.next.load; nothing older: straight to rec.next.store(null); without the scan (knob) reclaim at once
    \/ LET c == sh.rec[r].next
           fz == FreeZ(sh, Touch(gh, {}, {r, c}), c) IN
       /\ th[t].pc = "u1"
       /\ IF c # 0 /\ ~ScanOlder
            THEN sh' = fz[1] /\ gh' = fz[2]
            ELSE sh' = sh /\ gh' = Touch(gh, {}, {r})
       /\ th' = [th EXCEPT ![t] = [@ EXCEPT !.cached = c, !.n = c, !.lastf = TRUE,
                                          !.pc = IF c = 0 THEN "u5" ELSE (IF ScanOlder THEN "u2" ELSE "u4")]]
       /\ ev' = E(t, "ald", "r.next", r, c, 0) /\ UNCHANGED prog
    \* scan: n.owner.load
    \/ Do(t, "u2", TRUE, sh, [th[t] EXCEPT !.pc = IF sh.rec[n].owner # 0 THEN "u6" ELSE "u3", !.lastf = (sh.rec[n].owner = 0)],
          Touch(gh, {}, {n}), E(t, "ald", "r.owner", n, sh.rec[n].owner, 0))
    \* scan: n = n.next.load; at the end of the scan (n = null) reclamation starts with the first record's zombie node
    \/ LET nx == sh.rec[n].next
           c == th[t].cached
           fz == FreeZ(sh, Touch(gh, {}, {n, c}), c) IN
       /\ th[t].pc = "u3"
       /\ IF nx # 0 THEN sh' = sh /\ gh' = Touch(gh, {}, {n}) /\ th' = [th EXCEPT ![t] = [@ EXCEPT !.n = nx, !.pc = "u2"]]
                    ELSE sh' = fz[1] /\ gh' = fz[2] /\ th' = [th EXCEPT ![t] = [@ EXCEPT !.n = c, !.pc = "u4"]]
       /\ ev' = E(t, "ald", "r.next", n, nx, 0) /\ UNCHANGED prog
    \* reclaim: nx = n.next.load; free record n; next record's zombie node is freed
    \/ LET nx == sh.rec[n].next
           s1 == FreeRec(sh, n)
           g1 == FreeRecG(Touch(gh, {}, {n}), sh, n)
           fz == IF nx = 0 THEN <<s1, g1>> ELSE FreeZ(s1, [g1 EXCEPT !.uaf = @ \/ RFreed(s1, nx)], nx) IN
       /\ th[t].pc = "u4"
       /\ sh' = fz[1] /\ gh' = fz[2]
       /\ th' = [th EXCEPT ![t] = [@ EXCEPT !.n = nx, !.pc = IF nx = 0 THEN "u5" ELSE "u4"]]
       /\ ev' = E(t, "ald", "r.next", n, nx, 0) /\ UNCHANGED prog
    \/ Do(t, "u5", TRUE, [sh EXCEPT !.rec[r].next = 0], Pc(t, "u6"), Touch(gh, {}, {r}), E(t, "ast", "r.next", r, 0, 0))
    \/ Do(t, "u6", TRUE, [sh EXCEPT !.rec[r].owner = 0], Pc(t, "ret"), Touch(gh, {}, {r}), E(t, "ast", "r.owner", r, 0, 0))

\* ---- return: traversal consistency is evaluated here (C12) -------------------------------------------
Vals(q) == [j \in 1..Len(q) |-> sh.node[q[j]].val]
NoDup(q) == \A a, b \in 1..Len(q) : a # b => q[a] # q[b]
\* order of q agrees with the reference order of all nodes ever inserted (ranks never change)
TravOK(t) == LET q == th[t].vis IN
    /\ NoDup(q)
    /\ SeqSet(q) \subseteq gh.inserted
    /\ (th[t].live0 \ gh.erased) \subseteq SeqSet(q)
Ret(t) ==
    /\ th[t].pc = "ret"
    /\ th' = [th EXCEPT ![t] = [@ EXCEPT !.pc = "idle", !.opi = @ + 1, !.myrec = 0]]
    /\ gh' = IF Trav(th[t].op) /\ ~TravOK(t) THEN [gh EXCEPT !.badtrav = TRUE] ELSE gh
    /\ ev' = E(t, "ret", OpName[th[t].op + 1], 0, Len(th[t].vis), 0)
    /\ UNCHANGED <<prog, sh>>

Step(t) == Call(t) \/ Register(t) \/ Iterate(t) \/ Push(t) \/ Erase(t) \/ Release(t) \/ Ret(t)
Next == \E t \in Threads : Step(t)
Spec == Init /\ [][Next]_vars
FairSpec == Spec /\ \A t \in 1..4 : WF_vars(t \in Threads /\ Step(t))
View == <<prog, sh, th, gh>>
-----------------------------------------------------------------------------
TypeOK == sh.wm \in 0..Len(prog) /\ sh.nnode \in 0..MaxN /\ sh.nrec \in 0..MaxR
\* C05: no thread ever touches freed list memory; nothing is freed while a handle that was in use at the erase is alive
NoUseAfterFree == ~gh.uaf
NoPrematureFree == ~gh.early
\* C13: nothing freed twice, nothing that was never constructed is destroyed
ExactlyOnce == ~gh.dbl
OnlyConstructedDestroyed == ~gh.nulld
\* C13: without erase, handles free only records
HandlesOnlyFreeRecords == (gh.erased = {}) => \A i \in 1..MaxN : sh.node[i].st # "freed"
\* C12: traversals
TraversalsConsistent == ~gh.badtrav
\* C12: whenever no writer is inside a mutation the list equals the sequential reference, back links mirror it
Quiet == sh.wm = 0
FinalContents == Quiet => /\ Linked(sh) = gh.ref
                          /\ sh.tail = (IF gh.ref = <<>> THEN 0 ELSE gh.ref[Len(gh.ref)])
                          /\ \A j \in 1..Len(gh.ref) : sh.node[gh.ref[j]].back = (IF j = 1 THEN 0 ELSE gh.ref[j - 1])
WritersOneAtATime == Cardinality({t \in Threads : th[t].pc \in {"p2", "p3a", "p4a", "p3b", "p4b", "p5b", "p6", "e2", "e3", "e4", "e5", "e6", "e6p", "e9", "z1", "z2", "z3"}}) <= 1
\* C14: read-side steps (registration, begin, advance, element read) are always enabled
ReaderNeverBlocked == \A t \in Threads : (th[t].pc \in {"g1", "g2", "g3", "b1", "b2", "b3"} /\ th[t].op \in {0, 5, 8}) => ENABLED Step(t)
\* everything terminates (no reader/writer deadlock or livelock under fairness)
AllDone == \A t \in Threads : th[t].pc = "idle" /\ th[t].opi > Len(prog[t])
Termination == <>AllDone
\* C13 at the end: after all handles are released, destroying the list frees every remaining node and the
\* log prefix whose owners are null: everything allocated is then freed exactly once
RECURSIVE LogFrom(_, _)
LogFrom(i, k) == IF i = 0 \/ k = 0 THEN <<>> ELSE <<i>> \o LogFrom(sh.rec[i].next, k - 1)
DtorFreesAll == AllDone =>
    LET logq == LogFrom(sh.zhead, MaxR)
        liveRecs == {i \in 1..sh.nrec : sh.rec[i].st = "live"}
        liveNodes == {i \in 1..sh.nnode : sh.node[i].st = "live"}
    IN /\ liveRecs = SeqSet(logq)                               \* every unreclaimed record is on the log (none leaked, none freed twice)
       /\ \A i \in liveRecs : sh.rec[i].owner = 0               \* so ~rcu_list walks the whole log
       /\ liveNodes = (SeqSet(Linked(sh)) \cup {sh.rec[i].znode : i \in liveRecs}) \ {0}   \* every live node is linked or awaits reclamation
       /\ SeqSet(Linked(sh)) \cap {sh.rec[i].znode : i \in liveRecs} = {}               \* and never both
       /\ \A i, j \in liveRecs : (i # j /\ sh.rec[i].znode # 0) => sh.rec[i].znode # sh.rec[j].znode   \* each erased node is logged once
=============================================================================

-------------------------------- MODULE RegSeq --------------------------------
(* What C15 states: one atomic register over values 0..2.                       *)
(* o = [n |-> operation, a |-> expected (compare_exchange), b |-> new value]     *)
(* results: load -> value; store/assign -> 0; exchange -> replaced value;        *)
(* compare_exchange -> 10 + expected if it succeeded, else the current value     *)
(* (which is what `expected` then reports)                                       *)
EXTENDS Naturals, Integers, FiniteSets, Sequences
S0 == 0
R(s, r) == [s |-> s, r |-> r]
\* result 99: the wrapped type's copy or assignment threw (C20) - the operation then has no effect
Threw(s) == R(s, 99)
Eff(s, o) ==
  CASE o.n = "load" -> {R(s, s), Threw(s)}
    [] o.n \in {"store", "assign"} -> {R(o.b, 0), Threw(s)}
    [] o.n = "exchange" -> {R(o.b, s), Threw(s)}
    [] o.n = "cas" -> (IF s = o.a THEN {R(o.b, 10 + o.a)} ELSE {R(s, s)}) \cup {Threw(s)}
    [] o.n = "none" -> {R(s, -3)}
    [] OTHER -> {R(s, 0)}
=============================================================================

------------------------------ MODULE LatchMon ------------------------------
(* Property monitor for C10 over API-level events only (call / ret and the   *)
(* scheduler's quiescence report).  States what C10 states and nothing else: *)
(*  - a wait / arrive_and_wait returns only after >= count arrive calls have *)
(*    begun (an arrival cannot have taken place before its call);            *)
(*  - when nothing can move any more: a plain arrive() is never stuck, and   *)
(*    if >= count arrive-type calls were made nobody is stuck at all         *)
(*    (arrive never waits, so all of them take place, so every waiter must   *)
(*    have been released).                                                   *)
EXTENDS TraceBase
VARIABLES l, cnt, called, inop, blk

MaxT == 16
TInit == l = 1 /\ cnt = 0 /\ called = 0 /\ inop = [t \in 0..MaxT |-> ""] /\ blk = {} /\ TLCSet(1, 0)

Viol(what) == MonViol(l, what)

TNext ==
    /\ l <= Len(Tr)
    /\ l' = l + 1
    /\ LET e == Tr[l] IN
       CASE e.k = "reset" ->
              cnt' = e.p.count /\ called' = 0 /\ inop' = [t \in 0..MaxT |-> ""] /\ blk' = {}
         [] e.k = "call" ->
              /\ called' = IF e.o \in {"arrive", "arrive_and_wait"} THEN called + 1 ELSE called
              /\ inop' = [inop EXCEPT ![e.t] = e.o]
              /\ UNCHANGED <<cnt, blk>>
         [] e.k = "ret" ->
              /\ (e.o \in {"wait", "arrive_and_wait"} /\ called < cnt) => Viol("wait returned before count arrivals")
              /\ inop' = [inop EXCEPT ![e.t] = ""]
              /\ UNCHANGED <<cnt, called, blk>>
         [] e.k = "blocked" -> blk' = blk \cup {e.t} /\ UNCHANGED <<cnt, called, inop>>
         [] e.k = "deadlock" ->
              /\ (\E t \in blk : inop[t] = "arrive") => Viol("arrive() is stuck")
              /\ (called >= cnt /\ \E t \in blk : inop[t] # "") => Viol("lost wake-up: count reached but an operation never returns")
              /\ UNCHANGED <<cnt, called, inop, blk>>
         [] e.k \in {"crash", "terminate"} -> Viol("crash") /\ UNCHANGED <<cnt, called, inop, blk>>
         [] OTHER -> UNCHANGED <<cnt, called, inop, blk>>
    /\ Mark(l)

TSpec == TInit /\ [][TNext]_<<l, cnt, called, inop, blk>>
Accepted == IF TLCGet(1) = Len(Tr) THEN TRUE
            ELSE Rejected(TLCGet(1) + 1)
=============================================================================

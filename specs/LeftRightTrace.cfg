SPECIFICATION TSpec
CONSTANTS
  Progs = {}
  MaxThrows = 3
  Drain1 = TRUE
  Drain2 = TRUE
  RegisterFirst = TRUE
  WriterMutex = TRUE
INVARIANTS ReaderIsolation NoTornRead Visibility MonotoneReads OneOrder WritersOneAtATime
POSTCONDITION Accepted
CHECK_DEADLOCK FALSE

SPECIFICATION Spec
CONSTANTS
  Progs <- ConfProgs
  MaxV = 3
  CopyThrows = {0}
  CopyUnderMutex = TRUE
  CancelUnlocks = TRUE

INVARIANTS TypeOK SnapshotValid NoTornSnapshot WriterSerial NoLostCommit RefsOK CleanEnd ReaderWaitFree NoDeadlock
PROPERTY SnapshotImmutable
CHECK_DEADLOCK FALSE

----------------------------- MODULE GuardedMC -----------------------------
EXTENDS Guarded
\* operation menus per wrapper kind (what compiles for it)
XOps == <<0, 1, 3, 4>>                 \* exclusive handle operations (no timed form: plain mutex)
XOpsT == <<0, 1, 2, 3, 4, 13>>         \* with timed forms and the two-object hand-over
SOps == <<5, 6, 14>>
SOpsT == <<5, 6, 7>>
LS == <<8, 9, 10>>
OrdOps == <<8, 9, 11, 12, 5, 6, 15, 16>>
M(ops) == <<ops>>
\* guarded / guarded_opt: exclusive handles + load/store
GuardedProgs == {<<M(XOpsT \o LS), M(XOpsT \o LS)>>}
Guarded3 == {<<M(<<0, 1, 2>>), M(<<3, 8, 9>>), M(<<4, 10, 13>>)>>}
\* shared_guarded(_opt): exclusive + shared handles
SharedProgs == {<<M(<<0, 1, 2, 3>>), M(SOpsT), M(SOpsT \o <<14>>)>>}
\* ordered_guarded: modify/read/load/store + shared handles
OrderedProgs == {<<M(OrdOps), M(OrdOps)>>, <<M(<<11>>), M(<<12, 5, 8>>), M(<<12, 6, 9>>)>>}
TwoTwo == {<<<<XOpsT \o LS, XOpsT \o LS>>, <<XOpsT \o LS \o SOpsT, SOpsT \o <<0, 9>>>>>>}
ThrowProgs == {<<M(<<11, 15>>), M(<<11, 15, 12, 8>>), M(<<16, 5, 9>>)>>}
ConfG == {<<M(<<0, 1, 3, 8, 9>>), M(<<0, 2, 4, 10, 13>>)>>}
ConfS == {<<M(<<0, 1, 2, 3>>), M(<<5, 6, 7, 14>>), M(<<5, 13>>)>>}
ConfO == {<<M(<<11, 12, 8, 9, 15>>), M(<<11, 16, 5, 7, 10>>)>>}
Guarded4 == {<<M(<<0, 1>>), M(<<2, 3>>), M(<<8, 9>>), M(<<4, 10>>)>>}
Shared4 == {<<M(<<0, 1, 2>>), M(SOpsT), M(SOpsT), M(<<3, 14>>)>>}
Ordered3 == {<<M(OrdOps), M(OrdOps), M(OrdOps)>>}
=============================================================================

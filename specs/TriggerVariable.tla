--------------------------- MODULE TriggerVariable ---------------------------
(***************************************************************************)
(* gmlc::concurrency::TriggerVariable at the grain of its visible steps:    *)
(* every unlocked check, both mutexes, both condition variables (predicate  *)
(* evaluation and the release-and-park of cv.wait are separate steps), the  *)
(* unlock / trigger() / lock loop inside reset(), time-outs and spurious    *)
(* wake-ups.  See the step tables in the comments of each group below.      *)
(***************************************************************************)
EXTENDS Naturals, Integers, Sequences, FiniteSets, TLC, TriggerLin

CONSTANTS Progs, Actives,   \* programs and initial values of `activated` explored by Init
          Spurious, Timeouts,
          TrigLocked,       \* knob: trigger() takes triggerLock (code as read)
          ClearFirst        \* knob: activate() clears triggered before setting activated (code as read)

VARIABLES prog, act0,  \* configuration
          sh,          \* shared: [act, trig, tl, al, cvt, cva]
          th,          \* per thread: [pc, op, opi, res, rs]
          lin,         \* ghost: configurations of the linearizability checker
          ev
vars == <<prog, act0, sh, th, lin, ev>>
View == <<prog, act0, sh, th, lin>>

OpName == <<"activate", "trigger", "wait", "wait_for", "waitActivation", "wait_forActivation", "reset", "isActive", "isTriggered">>
Threads == 1..Len(prog)
NoEv == [t |-> 0, k |-> "init", o |-> "", v |-> 0, w |-> 0]
E(t, k, o, v, w) == [t |-> t, k |-> k, o |-> o, v |-> v, w |-> w]
Ops == [t \in Threads |-> IF th[t].gave THEN th[t].op + 10 ELSE th[t].op]     \* + 10: a timed wait after its time-out

Init0(p, a) == [prog |-> p, act0 |-> a,
                sh |-> [act |-> a, trig |-> FALSE, tl |-> 0, al |-> 0,
                        cvt |-> [t \in 1..Len(p) |-> 0], cva |-> [t \in 1..Len(p) |-> 0]],
                th |-> [t \in 1..Len(p) |-> [pc |-> "idle", op |-> 0, opi |-> 1, res |-> 0, rs |-> FALSE, gave |-> FALSE]],
                lin |-> LinInit(a, 1..Len(p)), ev |-> NoEv]
InitWith(p, a) == LET s == Init0(p, a) IN
    prog = s.prog /\ act0 = s.act0 /\ sh = s.sh /\ th = s.th /\ lin = s.lin /\ ev = s.ev
ResetTo(p, a) == LET s == Init0(p, a) IN
    prog' = s.prog /\ act0' = s.act0 /\ sh' = s.sh /\ th' = s.th /\ lin' = s.lin /\ ev' = s.ev
Init == \E p \in Progs, a \in Actives : InitWith(p, a)

UC == UNCHANGED <<prog, act0, lin>>
\* generic step: from label, guard, new shared state, new label, event
Do(t, from, guard, sh2, to, e) ==
    /\ th[t].pc = from /\ guard
    /\ sh' = sh2 /\ th' = [th EXCEPT ![t].pc = to] /\ ev' = e /\ UC
\* the time-out of a timed wait: the thread gives up; from here on its answer may be 0
DoG(t, from, guard, sh2, to, e) ==
    /\ th[t].pc = from /\ guard
    /\ sh' = sh2 /\ th' = [th EXCEPT ![t].pc = to, ![t].gave = TRUE] /\ ev' = e
    /\ lin' = LinGiveUp(lin, [Ops EXCEPT ![t] = th[t].op + 10]) /\ UNCHANGED <<prog, act0>>
\* same, also setting the result
DoR(t, from, guard, sh2, to, r, e) ==
    /\ th[t].pc = from /\ guard
    /\ sh' = sh2 /\ th' = [th EXCEPT ![t].pc = to, ![t].res = r] /\ ev' = e /\ UC

FirstPc(o) == CASE o = 0 -> "a1" [] o = 1 -> "t1" [] o = 2 -> "w1" [] o = 3 -> "w1" [] o = 4 -> "x2" [] o = 5 -> "x2"
                [] o = 6 -> "r1" [] o = 7 -> "i1" [] o = 8 -> "g1"

Call(t) ==
    /\ th[t].pc = "idle" /\ th[t].opi <= Len(prog[t])
    /\ \E j \in 1..Len(prog[t][th[t].opi]) :
         LET o == prog[t][th[t].opi][j] IN
         /\ th' = [th EXCEPT ![t].op = o, ![t].pc = FirstPc(o), ![t].rs = FALSE, ![t].res = 0, ![t].gave = FALSE]
         /\ lin' = LinCall(lin, t, [Ops EXCEPT ![t] = o])
         /\ ev' = E(t, "call", OpName[o + 1], 0, 0)
    /\ UNCHANGED <<prog, act0, sh>>

Ret(t) ==
    /\ th[t].pc = "ret"
    /\ th' = [th EXCEPT ![t].pc = "idle", ![t].opi = @ + 1]
    /\ lin' = LinRet(lin, t, th[t].op, th[t].res, Ops)
    /\ ev' = E(t, "ret", OpName[th[t].op + 1], th[t].res, 0)
    /\ UNCHANGED <<prog, act0, sh>>

LdA(t) == E(t, "ald", "activated", B(sh.act), 0)
LdG(t) == E(t, "ald", "triggered", B(sh.trig), 0)
WaitingT == {u \in Threads : sh.cvt[u] = 1}
WaitingA == {u \in Threads : sh.cva[u] = 1}
NotifyT == [u \in Threads |-> IF sh.cvt[u] = 1 THEN 2 ELSE sh.cvt[u]]
NotifyA == [u \in Threads |-> IF sh.cva[u] = 1 THEN 2 ELSE sh.cva[u]]

\* ---- activate: load activated; [active: return false]; lock tl; triggered = false; unlock tl;
\*      lock al; activated = true; notify_all cv_active; unlock al; return true
Activate(t) ==
    \/ DoR(t, "a1", TRUE, sh, IF sh.act THEN "ret" ELSE (IF ClearFirst THEN "a2" ELSE "a5"), 0, LdA(t))
    \/ Do(t, "a2", sh.tl = 0, [sh EXCEPT !.tl = t], "a3", E(t, "mlock", "tlock", 0, 0))
    \/ Do(t, "a3", TRUE, [sh EXCEPT !.trig = FALSE], "a4", E(t, "ast", "triggered", 0, 0))
    \/ DoR(t, "a4", TRUE, [sh EXCEPT !.tl = 0], IF ClearFirst THEN "a5" ELSE "ret", 1, E(t, "munlock", "tlock", 0, 0))
    \/ Do(t, "a5", sh.al = 0, [sh EXCEPT !.al = t], "a6", E(t, "mlock", "alock", 0, 0))
    \/ Do(t, "a6", TRUE, [sh EXCEPT !.act = TRUE], "a7", E(t, "ast", "activated", 1, 0))
    \/ Do(t, "a7", TRUE, [sh EXCEPT !.cva = NotifyA], "a8", E(t, "notify", "cva", 1, Cardinality(WaitingA)))
    \/ DoR(t, "a8", TRUE, [sh EXCEPT !.al = 0], IF ClearFirst THEN "ret" ELSE "a2", 1, E(t, "munlock", "alock", 0, 0))

\* ---- trigger (also called from reset, rs = TRUE): load activated; [inactive: return false];
\*      lock tl; triggered = true; notify_all cv_trigger; unlock tl; return true
TrigEnd(t) == IF th[t].rs THEN "r5" ELSE "ret"
Trigger(t) ==
    \/ DoR(t, "t1", TRUE, sh, IF sh.act THEN (IF TrigLocked THEN "t2" ELSE "t3") ELSE TrigEnd(t), 0, LdA(t))
    \/ Do(t, "t2", sh.tl = 0, [sh EXCEPT !.tl = t], "t3", E(t, "mlock", "tlock", 0, 0))
    \/ Do(t, "t3", TRUE, [sh EXCEPT !.trig = TRUE], "t4", E(t, "ast", "triggered", 1, 0))
    \/ DoR(t, "t4", TRUE, [sh EXCEPT !.cvt = NotifyT], IF TrigLocked THEN "t5" ELSE TrigEnd(t), 1,
           E(t, "notify", "cvt", 1, Cardinality(WaitingT)))
    \/ DoR(t, "t5", TRUE, [sh EXCEPT !.tl = 0], TrigEnd(t), 1, E(t, "munlock", "tlock", 0, 0))

\* ---- wait / wait_for: load activated; [inactive: return true]; lock tl; load triggered (if);
\*      pred loop: load triggered; [false:] cv wait (release+park); wake; relock; ...; unlock
Timed(t) == th[t].op \in {3, 5}
WaitT(t) ==
    \/ DoR(t, "w1", TRUE, sh, IF sh.act THEN "w2" ELSE "ret", 1, LdA(t))
    \/ Do(t, "w2", sh.tl = 0, [sh EXCEPT !.tl = t], "w3", E(t, "mlock", "tlock", 0, 0))
    \/ DoR(t, "w3", TRUE, sh, IF sh.trig THEN "w9" ELSE "w4", 1, LdG(t))
    \/ DoR(t, "w4", TRUE, sh, IF sh.trig THEN "w9" ELSE "w5", 1, LdG(t))
    \/ Do(t, "w5", TRUE, [sh EXCEPT !.tl = 0, !.cvt[t] = 1], "w6", E(t, "cvwait", "cvt", B(Timed(t)), 0))
    \/ Do(t, "w6", sh.cvt[t] = 2, [sh EXCEPT !.cvt[t] = 0], "w7", E(t, "cvwake", "cvt", 0, 0))
    \* (a waiter that was already notified may still come back with a time-out: the deadline passed before it woke up)
    \/ DoG(t, "w6", sh.cvt[t] \in {1, 2} /\ Timed(t) /\ Timeouts, [sh EXCEPT !.cvt[t] = 0], "w7t", E(t, "cvwake", "cvt", 2, 0))
    \/ Do(t, "w7", sh.tl = 0, [sh EXCEPT !.tl = t], "w4", E(t, "mlock", "tlock", 0, 0))
    \/ Do(t, "w7t", sh.tl = 0, [sh EXCEPT !.tl = t], "w8", E(t, "mlock", "tlock", 0, 0))
    \/ DoR(t, "w8", TRUE, sh, "w9", B(sh.trig), LdG(t))
    \/ Do(t, "w9", TRUE, [sh EXCEPT !.tl = 0], "ret", E(t, "munlock", "tlock", 0, 0))
WaitTSpurious(t) ==
    Do(t, "w6", sh.cvt[t] = 1 /\ Spurious, [sh EXCEPT !.cvt[t] = 0], "w7", E(t, "cvwake", "cvt", 1, 0))

\* ---- waitActivation / wait_forActivation: lock al; load activated (if); pred loop on cv_active; unlock
WaitA(t) ==
    \/ Do(t, "x2", sh.al = 0, [sh EXCEPT !.al = t], "x3", E(t, "mlock", "alock", 0, 0))
    \/ DoR(t, "x3", TRUE, sh, IF sh.act THEN "x9" ELSE "x4", B(th[t].op = 5), LdA(t))
    \/ DoR(t, "x4", TRUE, sh, IF sh.act THEN "x9" ELSE "x5", B(th[t].op = 5), LdA(t))
    \/ Do(t, "x5", TRUE, [sh EXCEPT !.al = 0, !.cva[t] = 1], "x6", E(t, "cvwait", "cva", B(Timed(t)), 0))
    \/ Do(t, "x6", sh.cva[t] = 2, [sh EXCEPT !.cva[t] = 0], "x7", E(t, "cvwake", "cva", 0, 0))
    \/ DoG(t, "x6", sh.cva[t] \in {1, 2} /\ Timed(t) /\ Timeouts, [sh EXCEPT !.cva[t] = 0], "x7t", E(t, "cvwake", "cva", 2, 0))
    \/ Do(t, "x7", sh.al = 0, [sh EXCEPT !.al = t], "x4", E(t, "mlock", "alock", 0, 0))
    \/ Do(t, "x7t", sh.al = 0, [sh EXCEPT !.al = t], "x8", E(t, "mlock", "alock", 0, 0))
    \/ DoR(t, "x8", TRUE, sh, "x9", B(sh.act), LdA(t))
    \/ Do(t, "x9", TRUE, [sh EXCEPT !.al = 0], "ret", E(t, "munlock", "alock", 0, 0))
WaitASpurious(t) ==
    Do(t, "x6", sh.cva[t] = 1 /\ Spurious, [sh EXCEPT !.cva[t] = 0], "x7", E(t, "cvwake", "cva", 1, 0))

\* ---- reset: lock al; load activated; [active:] while (!triggered.load(acquire)) { unlock al; trigger(); lock al; }
\*      activated = false; unlock al
Reset(t) ==
    \/ Do(t, "r1", sh.al = 0, [sh EXCEPT !.al = t], "r2", E(t, "mlock", "alock", 0, 0))
    \/ Do(t, "r2", TRUE, sh, IF sh.act THEN "r3" ELSE "r8", LdA(t))
    \/ Do(t, "r3", TRUE, sh, IF sh.trig THEN "r7" ELSE "r4", LdG(t))
    \/ /\ th[t].pc = "r4"
       /\ sh' = [sh EXCEPT !.al = 0] /\ th' = [th EXCEPT ![t].pc = "t1", ![t].rs = TRUE]
       /\ ev' = E(t, "munlock", "alock", 0, 0) /\ UC
    \/ /\ th[t].pc = "r5" /\ sh.al = 0
       /\ sh' = [sh EXCEPT !.al = t] /\ th' = [th EXCEPT ![t].pc = "r3", ![t].rs = FALSE]
       /\ ev' = E(t, "mlock", "alock", 0, 0) /\ UC
    \/ Do(t, "r7", TRUE, [sh EXCEPT !.act = FALSE], "r8", E(t, "ast", "activated", 0, 0))
    \/ DoR(t, "r8", TRUE, [sh EXCEPT !.al = 0], "ret", 0, E(t, "munlock", "alock", 0, 0))

Query(t) ==
    \/ DoR(t, "i1", TRUE, sh, "ret", B(sh.act), LdA(t))
    \/ DoR(t, "g1", TRUE, sh, "ret", B(sh.trig), LdG(t))

StepNS(t) == Call(t) \/ Ret(t) \/ Activate(t) \/ Trigger(t) \/ WaitT(t) \/ WaitA(t) \/ Reset(t) \/ Query(t)
Step(t) == StepNS(t) \/ WaitTSpurious(t) \/ WaitASpurious(t)
Next == \E t \in Threads : Step(t)
Spec == Init /\ [][Next]_vars
-----------------------------------------------------------------------------
Quiescent == \A t \in Threads : ~ENABLED StepNS(t)
Stuck == {t \in Threads : th[t].pc # "idle"}

TypeOK == sh.tl \in 0..Len(prog) /\ sh.al \in 0..Len(prog)
\* C11 safety: the call/return history is linearizable w.r.t. the sequential trigger variable
Linearizable == lin # {}
\* C11 wake-up clause: at quiescence nobody is owed a return
NoLostWakeup == Quiescent => QuiescentOK(lin, Stuck, Ops)
\* at quiescence every unfinished thread is parked on a condition variable, none on a mutex
NoLockDeadlock == Quiescent => (sh.tl = 0 /\ sh.al = 0 /\ \A t \in Stuck : th[t].pc \in {"w6", "x6"})
=============================================================================

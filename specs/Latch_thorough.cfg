SPECIFICATION Spec
CONSTANTS
  Counts = {1, 2, 3}
  Progs <- ThoroughProgs
  Spurious = TRUE
  ArriveLocked = TRUE
  WaitLoops = TRUE
  NotifyAll = TRUE
VIEW View
INVARIANTS TypeOK OpensOnCount NoLostWakeup ArriveDoesNotWait NoLeakedLock
CHECK_DEADLOCK FALSE

---------------------------- MODULE DeferredTrace ----------------------------
EXTENDS Deferred, TraceBase
VARIABLE l
TInit == l = 1 /\ InitWith(<<>>, TRUE) /\ TLCSet(1, 0)
Skip == LifeKinds \cup {"blocked", "hget", "hrel", "final", "fut", "starved", "soloyield", "task"}
\* private mutexes of the queued task runners (guarded<packaged_task>): uncontended by construction
Private(e) == Len(e.o) >= 5 /\ SubSeq(e.o, 1, 5) = "anon."
TNext ==
    /\ l <= Len(Tr)
    /\ l' = l + 1
    /\ LET e == Tr[l] IN
       \/ e.k = "reset" /\ ResetTo(e.prog, e.p.mk \in {2, 3})
       \/ (e.k \in Skip \/ (e.k # "reset" /\ (Private(e) \/ e.t = 0))) /\ UNCHANGED vars
       \/ e.k \in EndKinds /\ UNCHANGED vars
       \* the user's functor is copied / moved (user code): only before the try-lock and before the task is queued
       \/ e.k = "fcopy" /\ e.t # 0 /\ th[e.t].pc \in {"s1", "q1"} /\ UNCHANGED vars
       \/ e.k \notin (Skip \cup EndKinds \cup {"reset", "fcopy"}) /\ ~Private(e) /\ e.t # 0 /\ Next /\ Matches(ev', e)
    /\ Mark(l)
TSpec == TInit /\ [][TNext]_<<vars, l>>
Accepted == IF TLCGet(1) = Len(Tr) THEN TRUE ELSE Rejected(TLCGet(1) + 1)
=============================================================================

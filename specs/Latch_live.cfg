SPECIFICATION FairSpec
CONSTANTS
  Counts = {1, 2}
  Progs <- QuickProgs
  Spurious = FALSE
  ArriveLocked = TRUE
  WaitLoops = TRUE
  NotifyAll = TRUE
VIEW View
PROPERTY AllReturn
CHECK_DEADLOCK FALSE

SPECIFICATION Spec
CONSTANTS
  Progs <- SeqProgs
  MaxN = 3
  MaxR = 7
  UnlinkBeforeLog = TRUE
  ScanOlder = TRUE
  NullCheck = TRUE
  EraseLocked = TRUE
VIEW View
INVARIANTS TypeOK NoUseAfterFree NoPrematureFree ExactlyOnce OnlyConstructedDestroyed HandlesOnlyFreeRecords TraversalsConsistent FinalContents WritersOneAtATime ReaderNeverBlocked DtorFreesAll
CHECK_DEADLOCK FALSE

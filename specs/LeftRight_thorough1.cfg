SPECIFICATION Spec
CONSTANTS
  Progs <- Thorough1
  MaxThrows = 0
  Drain1 = TRUE
  Drain2 = TRUE
  RegisterFirst = TRUE
  WriterMutex = TRUE
VIEW View
INVARIANTS TypeOK ReaderIsolation NoTornRead Visibility MonotoneReads OneOrder WritersOneAtATime ReaderWaitFree
CHECK_DEADLOCK FALSE

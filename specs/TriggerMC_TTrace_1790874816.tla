---- MODULE TriggerMC_TTrace_1790874816 ----
EXTENDS Sequences, TLCExt, Toolbox, TriggerMC, Naturals, TLC

_expression ==
    LET TriggerMC_TEExpression == INSTANCE TriggerMC_TEExpression
    IN TriggerMC_TEExpression!expression
----

_trace ==
    LET TriggerMC_TETrace == INSTANCE TriggerMC_TETrace
    IN TriggerMC_TETrace!trace
----

_inv ==
    ~(
        TLCGet("level") = Len(_TETrace)
        /\
        lin = ({[a |-> TRUE, g |-> TRUE, st |-> <<-1, -1, -2>>], [a |-> TRUE, g |-> TRUE, st |-> <<-1, -1, 1>>]})
        /\
        ev = ([k |-> "cvwait", t |-> 3, o |-> "cvt", v |-> 0, w |-> 0])
        /\
        act0 = (TRUE)
        /\
        th = (<<[op |-> 0, pc |-> "idle", opi |-> 2, res |-> 0, rs |-> FALSE], [op |-> 1, pc |-> "idle", opi |-> 2, res |-> 1, rs |-> FALSE], [op |-> 2, pc |-> "w6", opi |-> 1, res |-> 1, rs |-> FALSE]>>)
        /\
        sh = ([act |-> TRUE, trig |-> TRUE, tl |-> 0, al |-> 0, cvt |-> <<0, 0, 1>>, cva |-> <<0, 0, 0>>])
        /\
        prog = (<<<<<<0, 1, 2, 3, 4, 5, 6>>>>, <<<<0, 1, 2, 3, 4, 5, 6>>>>, <<<<0, 1, 2, 3, 4, 5, 6>>>>>>)
    )
----

_init ==
    /\ prog = _TETrace[1].prog
    /\ ev = _TETrace[1].ev
    /\ sh = _TETrace[1].sh
    /\ th = _TETrace[1].th
    /\ lin = _TETrace[1].lin
    /\ act0 = _TETrace[1].act0
----

_next ==
    /\ \E i,j \in DOMAIN _TETrace:
        /\ \/ /\ j = i + 1
              /\ i = TLCGet("level")
        /\ prog  = _TETrace[i].prog
        /\ prog' = _TETrace[j].prog
        /\ ev  = _TETrace[i].ev
        /\ ev' = _TETrace[j].ev
        /\ sh  = _TETrace[i].sh
        /\ sh' = _TETrace[j].sh
        /\ th  = _TETrace[i].th
        /\ th' = _TETrace[j].th
        /\ lin  = _TETrace[i].lin
        /\ lin' = _TETrace[j].lin
        /\ act0  = _TETrace[i].act0
        /\ act0' = _TETrace[j].act0

\* Uncomment the ASSUME below to write the states of the error trace
\* to the given file in Json format. Note that you can pass any tuple
\* to `JsonSerialize`. For example, a sub-sequence of _TETrace.
    \* ASSUME
    \*     LET J == INSTANCE Json
    \*         IN J!JsonSerialize("TriggerMC_TTrace_1790874816.json", _TETrace)

=============================================================================

 Note that you can extract this module `TriggerMC_TEExpression`
  to a dedicated file to reuse `expression` (the module in the 
  dedicated `TriggerMC_TEExpression.tla` file takes precedence 
  over the module `TriggerMC_TEExpression` below).

---- MODULE TriggerMC_TEExpression ----
EXTENDS Sequences, TLCExt, Toolbox, TriggerMC, Naturals, TLC

expression == 
    [
        \* To hide variables of the `TriggerMC` spec from the error trace,
        \* remove the variables below.  The trace will be written in the order
        \* of the fields of this record.
        prog |-> prog
        ,ev |-> ev
        ,sh |-> sh
        ,th |-> th
        ,lin |-> lin
        ,act0 |-> act0
        
        \* Put additional constant-, state-, and action-level expressions here:
        \* ,_stateNumber |-> _TEPosition
        \* ,_progUnchanged |-> prog = prog'
        
        \* Format the `prog` variable as Json value.
        \* ,_progJson |->
        \*     LET J == INSTANCE Json
        \*     IN J!ToJson(prog)
        
        \* Lastly, you may build expressions over arbitrary sets of states by
        \* leveraging the _TETrace operator.  For example, this is how to
        \* count the number of times a spec variable changed up to the current
        \* state in the trace.
        \* ,_progModCount |->
        \*     LET F[s \in DOMAIN _TETrace] ==
        \*         IF s = 1 THEN 0
        \*         ELSE IF _TETrace[s].prog # _TETrace[s-1].prog
        \*             THEN 1 + F[s-1] ELSE F[s-1]
        \*     IN F[_TEPosition - 1]
    ]

=============================================================================



Parsing and semantic processing can take forever if the trace below is long.
 In this case, it is advised to uncomment the module below to deserialize the
 trace from a generated binary file.

\*
\*---- MODULE TriggerMC_TETrace ----
\*EXTENDS IOUtils, TriggerMC, TLC
\*
\*trace == IODeserialize("TriggerMC_TTrace_1790874816.bin", TRUE)
\*
\*=============================================================================
\*

---- MODULE TriggerMC_TETrace ----
EXTENDS TriggerMC, TLC

trace == 
    <<
    ([lin |-> {[a |-> TRUE, g |-> FALSE, st |-> <<-1, -1, -1>>]},ev |-> [k |-> "init", t |-> 0, o |-> "", v |-> 0, w |-> 0],act0 |-> TRUE,th |-> <<[op |-> 0, pc |-> "idle", opi |-> 1, res |-> 0, rs |-> FALSE], [op |-> 0, pc |-> "idle", opi |-> 1, res |-> 0, rs |-> FALSE], [op |-> 0, pc |-> "idle", opi |-> 1, res |-> 0, rs |-> FALSE]>>,sh |-> [act |-> TRUE, trig |-> FALSE, tl |-> 0, al |-> 0, cvt |-> <<0, 0, 0>>, cva |-> <<0, 0, 0>>],prog |-> <<<<<<0, 1, 2, 3, 4, 5, 6>>>>, <<<<0, 1, 2, 3, 4, 5, 6>>>>, <<<<0, 1, 2, 3, 4, 5, 6>>>>>>]),
    ([lin |-> {[a |-> TRUE, g |-> FALSE, st |-> <<-2, -1, -1>>], [a |-> TRUE, g |-> FALSE, st |-> <<0, -1, -1>>]},ev |-> [k |-> "call", t |-> 1, o |-> "activate", v |-> 0, w |-> 0],act0 |-> TRUE,th |-> <<[op |-> 0, pc |-> "a1", opi |-> 1, res |-> 0, rs |-> FALSE], [op |-> 0, pc |-> "idle", opi |-> 1, res |-> 0, rs |-> FALSE], [op |-> 0, pc |-> "idle", opi |-> 1, res |-> 0, rs |-> FALSE]>>,sh |-> [act |-> TRUE, trig |-> FALSE, tl |-> 0, al |-> 0, cvt |-> <<0, 0, 0>>, cva |-> <<0, 0, 0>>],prog |-> <<<<<<0, 1, 2, 3, 4, 5, 6>>>>, <<<<0, 1, 2, 3, 4, 5, 6>>>>, <<<<0, 1, 2, 3, 4, 5, 6>>>>>>]),
    ([lin |-> {[a |-> TRUE, g |-> FALSE, st |-> <<-2, -1, -1>>], [a |-> TRUE, g |-> FALSE, st |-> <<0, -1, -1>>]},ev |-> [k |-> "ald", t |-> 1, o |-> "activated", v |-> 1, w |-> 0],act0 |-> TRUE,th |-> <<[op |-> 0, pc |-> "ret", opi |-> 1, res |-> 0, rs |-> FALSE], [op |-> 0, pc |-> "idle", opi |-> 1, res |-> 0, rs |-> FALSE], [op |-> 0, pc |-> "idle", opi |-> 1, res |-> 0, rs |-> FALSE]>>,sh |-> [act |-> TRUE, trig |-> FALSE, tl |-> 0, al |-> 0, cvt |-> <<0, 0, 0>>, cva |-> <<0, 0, 0>>],prog |-> <<<<<<0, 1, 2, 3, 4, 5, 6>>>>, <<<<0, 1, 2, 3, 4, 5, 6>>>>, <<<<0, 1, 2, 3, 4, 5, 6>>>>>>]),
    ([lin |-> {[a |-> TRUE, g |-> FALSE, st |-> <<-1, -1, -1>>]},ev |-> [k |-> "ret", t |-> 1, o |-> "activate", v |-> 0, w |-> 0],act0 |-> TRUE,th |-> <<[op |-> 0, pc |-> "idle", opi |-> 2, res |-> 0, rs |-> FALSE], [op |-> 0, pc |-> "idle", opi |-> 1, res |-> 0, rs |-> FALSE], [op |-> 0, pc |-> "idle", opi |-> 1, res |-> 0, rs |-> FALSE]>>,sh |-> [act |-> TRUE, trig |-> FALSE, tl |-> 0, al |-> 0, cvt |-> <<0, 0, 0>>, cva |-> <<0, 0, 0>>],prog |-> <<<<<<0, 1, 2, 3, 4, 5, 6>>>>, <<<<0, 1, 2, 3, 4, 5, 6>>>>, <<<<0, 1, 2, 3, 4, 5, 6>>>>>>]),
    ([lin |-> {[a |-> TRUE, g |-> FALSE, st |-> <<-1, -2, -1>>], [a |-> TRUE, g |-> TRUE, st |-> <<-1, 1, -1>>]},ev |-> [k |-> "call", t |-> 2, o |-> "trigger", v |-> 0, w |-> 0],act0 |-> TRUE,th |-> <<[op |-> 0, pc |-> "idle", opi |-> 2, res |-> 0, rs |-> FALSE], [op |-> 1, pc |-> "t1", opi |-> 1, res |-> 0, rs |-> FALSE], [op |-> 0, pc |-> "idle", opi |-> 1, res |-> 0, rs |-> FALSE]>>,sh |-> [act |-> TRUE, trig |-> FALSE, tl |-> 0, al |-> 0, cvt |-> <<0, 0, 0>>, cva |-> <<0, 0, 0>>],prog |-> <<<<<<0, 1, 2, 3, 4, 5, 6>>>>, <<<<0, 1, 2, 3, 4, 5, 6>>>>, <<<<0, 1, 2, 3, 4, 5, 6>>>>>>]),
    ([lin |-> {[a |-> TRUE, g |-> FALSE, st |-> <<-1, -2, -2>>], [a |-> TRUE, g |-> TRUE, st |-> <<-1, 1, -2>>], [a |-> TRUE, g |-> TRUE, st |-> <<-1, 1, 1>>]},ev |-> [k |-> "call", t |-> 3, o |-> "wait", v |-> 0, w |-> 0],act0 |-> TRUE,th |-> <<[op |-> 0, pc |-> "idle", opi |-> 2, res |-> 0, rs |-> FALSE], [op |-> 1, pc |-> "t1", opi |-> 1, res |-> 0, rs |-> FALSE], [op |-> 2, pc |-> "w1", opi |-> 1, res |-> 0, rs |-> FALSE]>>,sh |-> [act |-> TRUE, trig |-> FALSE, tl |-> 0, al |-> 0, cvt |-> <<0, 0, 0>>, cva |-> <<0, 0, 0>>],prog |-> <<<<<<0, 1, 2, 3, 4, 5, 6>>>>, <<<<0, 1, 2, 3, 4, 5, 6>>>>, <<<<0, 1, 2, 3, 4, 5, 6>>>>>>]),
    ([lin |-> {[a |-> TRUE, g |-> FALSE, st |-> <<-1, -2, -2>>], [a |-> TRUE, g |-> TRUE, st |-> <<-1, 1, -2>>], [a |-> TRUE, g |-> TRUE, st |-> <<-1, 1, 1>>]},ev |-> [k |-> "ald", t |-> 3, o |-> "activated", v |-> 1, w |-> 0],act0 |-> TRUE,th |-> <<[op |-> 0, pc |-> "idle", opi |-> 2, res |-> 0, rs |-> FALSE], [op |-> 1, pc |-> "t1", opi |-> 1, res |-> 0, rs |-> FALSE], [op |-> 2, pc |-> "w2", opi |-> 1, res |-> 1, rs |-> FALSE]>>,sh |-> [act |-> TRUE, trig |-> FALSE, tl |-> 0, al |-> 0, cvt |-> <<0, 0, 0>>, cva |-> <<0, 0, 0>>],prog |-> <<<<<<0, 1, 2, 3, 4, 5, 6>>>>, <<<<0, 1, 2, 3, 4, 5, 6>>>>, <<<<0, 1, 2, 3, 4, 5, 6>>>>>>]),
    ([lin |-> {[a |-> TRUE, g |-> FALSE, st |-> <<-1, -2, -2>>], [a |-> TRUE, g |-> TRUE, st |-> <<-1, 1, -2>>], [a |-> TRUE, g |-> TRUE, st |-> <<-1, 1, 1>>]},ev |-> [k |-> "mlock", t |-> 3, o |-> "tlock", v |-> 0, w |-> 0],act0 |-> TRUE,th |-> <<[op |-> 0, pc |-> "idle", opi |-> 2, res |-> 0, rs |-> FALSE], [op |-> 1, pc |-> "t1", opi |-> 1, res |-> 0, rs |-> FALSE], [op |-> 2, pc |-> "w3", opi |-> 1, res |-> 1, rs |-> FALSE]>>,sh |-> [act |-> TRUE, trig |-> FALSE, tl |-> 3, al |-> 0, cvt |-> <<0, 0, 0>>, cva |-> <<0, 0, 0>>],prog |-> <<<<<<0, 1, 2, 3, 4, 5, 6>>>>, <<<<0, 1, 2, 3, 4, 5, 6>>>>, <<<<0, 1, 2, 3, 4, 5, 6>>>>>>]),
    ([lin |-> {[a |-> TRUE, g |-> FALSE, st |-> <<-1, -2, -2>>], [a |-> TRUE, g |-> TRUE, st |-> <<-1, 1, -2>>], [a |-> TRUE, g |-> TRUE, st |-> <<-1, 1, 1>>]},ev |-> [k |-> "ald", t |-> 3, o |-> "triggered", v |-> 0, w |-> 0],act0 |-> TRUE,th |-> <<[op |-> 0, pc |-> "idle", opi |-> 2, res |-> 0, rs |-> FALSE], [op |-> 1, pc |-> "t1", opi |-> 1, res |-> 0, rs |-> FALSE], [op |-> 2, pc |-> "w4", opi |-> 1, res |-> 1, rs |-> FALSE]>>,sh |-> [act |-> TRUE, trig |-> FALSE, tl |-> 3, al |-> 0, cvt |-> <<0, 0, 0>>, cva |-> <<0, 0, 0>>],prog |-> <<<<<<0, 1, 2, 3, 4, 5, 6>>>>, <<<<0, 1, 2, 3, 4, 5, 6>>>>, <<<<0, 1, 2, 3, 4, 5, 6>>>>>>]),
    ([lin |-> {[a |-> TRUE, g |-> FALSE, st |-> <<-1, -2, -2>>], [a |-> TRUE, g |-> TRUE, st |-> <<-1, 1, -2>>], [a |-> TRUE, g |-> TRUE, st |-> <<-1, 1, 1>>]},ev |-> [k |-> "ald", t |-> 2, o |-> "activated", v |-> 1, w |-> 0],act0 |-> TRUE,th |-> <<[op |-> 0, pc |-> "idle", opi |-> 2, res |-> 0, rs |-> FALSE], [op |-> 1, pc |-> "t3", opi |-> 1, res |-> 0, rs |-> FALSE], [op |-> 2, pc |-> "w4", opi |-> 1, res |-> 1, rs |-> FALSE]>>,sh |-> [act |-> TRUE, trig |-> FALSE, tl |-> 3, al |-> 0, cvt |-> <<0, 0, 0>>, cva |-> <<0, 0, 0>>],prog |-> <<<<<<0, 1, 2, 3, 4, 5, 6>>>>, <<<<0, 1, 2, 3, 4, 5, 6>>>>, <<<<0, 1, 2, 3, 4, 5, 6>>>>>>]),
    ([lin |-> {[a |-> TRUE, g |-> FALSE, st |-> <<-1, -2, -2>>], [a |-> TRUE, g |-> TRUE, st |-> <<-1, 1, -2>>], [a |-> TRUE, g |-> TRUE, st |-> <<-1, 1, 1>>]},ev |-> [k |-> "ald", t |-> 3, o |-> "triggered", v |-> 0, w |-> 0],act0 |-> TRUE,th |-> <<[op |-> 0, pc |-> "idle", opi |-> 2, res |-> 0, rs |-> FALSE], [op |-> 1, pc |-> "t3", opi |-> 1, res |-> 0, rs |-> FALSE], [op |-> 2, pc |-> "w5", opi |-> 1, res |-> 1, rs |-> FALSE]>>,sh |-> [act |-> TRUE, trig |-> FALSE, tl |-> 3, al |-> 0, cvt |-> <<0, 0, 0>>, cva |-> <<0, 0, 0>>],prog |-> <<<<<<0, 1, 2, 3, 4, 5, 6>>>>, <<<<0, 1, 2, 3, 4, 5, 6>>>>, <<<<0, 1, 2, 3, 4, 5, 6>>>>>>]),
    ([lin |-> {[a |-> TRUE, g |-> FALSE, st |-> <<-1, -2, -2>>], [a |-> TRUE, g |-> TRUE, st |-> <<-1, 1, -2>>], [a |-> TRUE, g |-> TRUE, st |-> <<-1, 1, 1>>]},ev |-> [k |-> "ast", t |-> 2, o |-> "triggered", v |-> 1, w |-> 0],act0 |-> TRUE,th |-> <<[op |-> 0, pc |-> "idle", opi |-> 2, res |-> 0, rs |-> FALSE], [op |-> 1, pc |-> "t4", opi |-> 1, res |-> 0, rs |-> FALSE], [op |-> 2, pc |-> "w5", opi |-> 1, res |-> 1, rs |-> FALSE]>>,sh |-> [act |-> TRUE, trig |-> TRUE, tl |-> 3, al |-> 0, cvt |-> <<0, 0, 0>>, cva |-> <<0, 0, 0>>],prog |-> <<<<<<0, 1, 2, 3, 4, 5, 6>>>>, <<<<0, 1, 2, 3, 4, 5, 6>>>>, <<<<0, 1, 2, 3, 4, 5, 6>>>>>>]),
    ([lin |-> {[a |-> TRUE, g |-> FALSE, st |-> <<-1, -2, -2>>], [a |-> TRUE, g |-> TRUE, st |-> <<-1, 1, -2>>], [a |-> TRUE, g |-> TRUE, st |-> <<-1, 1, 1>>]},ev |-> [k |-> "notify", t |-> 2, o |-> "cvt", v |-> 1, w |-> 0],act0 |-> TRUE,th |-> <<[op |-> 0, pc |-> "idle", opi |-> 2, res |-> 0, rs |-> FALSE], [op |-> 1, pc |-> "ret", opi |-> 1, res |-> 1, rs |-> FALSE], [op |-> 2, pc |-> "w5", opi |-> 1, res |-> 1, rs |-> FALSE]>>,sh |-> [act |-> TRUE, trig |-> TRUE, tl |-> 3, al |-> 0, cvt |-> <<0, 0, 0>>, cva |-> <<0, 0, 0>>],prog |-> <<<<<<0, 1, 2, 3, 4, 5, 6>>>>, <<<<0, 1, 2, 3, 4, 5, 6>>>>, <<<<0, 1, 2, 3, 4, 5, 6>>>>>>]),
    ([lin |-> {[a |-> TRUE, g |-> TRUE, st |-> <<-1, -1, -2>>], [a |-> TRUE, g |-> TRUE, st |-> <<-1, -1, 1>>]},ev |-> [k |-> "ret", t |-> 2, o |-> "trigger", v |-> 1, w |-> 0],act0 |-> TRUE,th |-> <<[op |-> 0, pc |-> "idle", opi |-> 2, res |-> 0, rs |-> FALSE], [op |-> 1, pc |-> "idle", opi |-> 2, res |-> 1, rs |-> FALSE], [op |-> 2, pc |-> "w5", opi |-> 1, res |-> 1, rs |-> FALSE]>>,sh |-> [act |-> TRUE, trig |-> TRUE, tl |-> 3, al |-> 0, cvt |-> <<0, 0, 0>>, cva |-> <<0, 0, 0>>],prog |-> <<<<<<0, 1, 2, 3, 4, 5, 6>>>>, <<<<0, 1, 2, 3, 4, 5, 6>>>>, <<<<0, 1, 2, 3, 4, 5, 6>>>>>>]),
    ([lin |-> {[a |-> TRUE, g |-> TRUE, st |-> <<-1, -1, -2>>], [a |-> TRUE, g |-> TRUE, st |-> <<-1, -1, 1>>]},ev |-> [k |-> "cvwait", t |-> 3, o |-> "cvt", v |-> 0, w |-> 0],act0 |-> TRUE,th |-> <<[op |-> 0, pc |-> "idle", opi |-> 2, res |-> 0, rs |-> FALSE], [op |-> 1, pc |-> "idle", opi |-> 2, res |-> 1, rs |-> FALSE], [op |-> 2, pc |-> "w6", opi |-> 1, res |-> 1, rs |-> FALSE]>>,sh |-> [act |-> TRUE, trig |-> TRUE, tl |-> 0, al |-> 0, cvt |-> <<0, 0, 1>>, cva |-> <<0, 0, 0>>],prog |-> <<<<<<0, 1, 2, 3, 4, 5, 6>>>>, <<<<0, 1, 2, 3, 4, 5, 6>>>>, <<<<0, 1, 2, 3, 4, 5, 6>>>>>>])
    >>
----


=============================================================================

---- CONFIG TriggerMC_TTrace_1790874816 ----
CONSTANTS
    Progs <- QuickProgs
    Actives = { TRUE , FALSE }
    Spurious = TRUE
    Timeouts = TRUE
    TrigLocked = FALSE
    ClearFirst = TRUE

INVARIANT
    _inv

CHECK_DEADLOCK
    \* CHECK_DEADLOCK off because of PROPERTY or INVARIANT above.
    FALSE

INIT
    _init

NEXT
    _next

CONSTANT
    _TETrace <- _trace

ALIAS
    _expression
=============================================================================
\* Generated on Thu Oct 01 17:13:42 UTC 2026
SPECIFICATION Spec
CONSTANTS
  Progs <- ThoroughProgs
  NullCheckInDtor = TRUE
  MoveEmpties = TRUE
VIEW View
INVARIANTS FalseUntilFirstDestroy PollTruth NoCrash
PROPERTY OneWay
CHECK_DEADLOCK FALSE

SPECIFICATION Spec
CONSTANTS
  Progs <- ThoroughProgs
  NullCheckInDtor = TRUE
  MoveEmpties = TRUE
  AssignSwaps = FALSE
VIEW View
INVARIANTS FalseUntilFirstDestroy PollTruth NoCrash
PROPERTY OneWay
CHECK_DEADLOCK FALSE

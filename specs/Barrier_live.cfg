SPECIFICATION FairSpec
CONSTANTS
  Progs <- QuickProgs
  Spurious = FALSE
  PredLoop = TRUE
  NotifyAll = TRUE
  DropFirst = TRUE
VIEW View
PROPERTY AllReturn
CHECK_DEADLOCK FALSE

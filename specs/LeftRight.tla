------------------------------ MODULE LeftRight ------------------------------
(***************************************************************************)
(* gmlc::libguarded::lr_guarded<T> (lr_guarded.hpp) - the Left-Right        *)
(* algorithm - at the grain of every atomic access, mutex operation, yield  *)
(* and payload access window (payload = two-word Cell: a write or read is   *)
(* two steps, so overlap is observable as a torn / open window).            *)
(*                                                                         *)
(* writer modify(f):  lock wm; lrl = rl.load; f(first) [catch: first = second; rethrow];        *)
(*    rl.store(!lrl); lcl = cl.load; while (cnt[other].load != 0) yield; cl.store(!lcl);       *)
(*    while (cnt[this].load != 0) yield; f(second) [catch: second = first; rethrow]; unlock     *)
(* reader lock_shared: c = cl.load; cnt[c]++; side = rl.load;  ...reads...; cnt[c]-- (deleter)  *)
(*                                                                         *)
(* A modification by thread t maps the value v to 4*v + t, so a value is    *)
(* the sequence of modifications applied (base-4 digits).                   *)
(***************************************************************************)
EXTENDS Naturals, Integers, Sequences, FiniteSets, TLC

CONSTANTS Progs, MaxThrows,
          Drain1, Drain2,     \* knobs: the writer's two waits for readers (TRUE = code as read)
          RegisterFirst,      \* knob: reader increments its counter before loading the side flag
          WriterMutex         \* knob: modify takes the writer mutex

VARIABLES prog, sh, th, retmax, acq, ev
vars == <<prog, sh, th, retmax, acq, ev>>
View == <<prog, sh, th, retmax, acq>>

OpName == <<"modify", "read", "read2", "relay">>
Threads == 1..Len(prog)
NoEv == [t |-> 0, k |-> "init", o |-> "", v |-> 0, w |-> 0]
E(t, k, o, v, w) == [t |-> t, k |-> k, o |-> o, v |-> v, w |-> w]
EC(t, k, i, v, w) == [t |-> t, k |-> k, o |-> "cell", i |-> i, v |-> v, w |-> w]
B(b) == IF b THEN 1 ELSE 0
F(t, v) == 4 * v + t
Pow4 == <<1, 4, 16, 64, 256, 1024, 4096, 16384>>
IsPref(p, v) == \E k \in 1..8 : v \div Pow4[k] = p
\* what read() returns for the two words it saw
Enc(x, y) == IF x = y THEN x ELSE 0 - (x * 1000 + y) - 1
CntName == <<"cntL", "cntR">>

Init0(p) == [prog |-> p,
             sh |-> [rl |-> TRUE, cl |-> TRUE, cnt |-> <<0, 0>>, wm |-> 0, cp |-> <<[a |-> 0, b |-> 0], [a |-> 0, b |-> 0]>>, thr |-> 0],
             th |-> [t \in 1..Len(p) |-> [pc |-> "idle", op |-> 0, opi |-> 1, res |-> 0, lrl |-> TRUE, lcl |-> TRUE, c |-> 1,
                                         side |-> 0, ra |-> 0, seen |-> 0, nrd |-> 0, need |-> 0, last |-> 0, tk |-> 0]],
             retmax |-> 0, acq |-> 0, ev |-> NoEv]
InitWith(p) == LET s == Init0(p) IN prog = s.prog /\ sh = s.sh /\ th = s.th /\ retmax = s.retmax /\ acq = s.acq /\ ev = s.ev
ResetTo(p) == LET s == Init0(p) IN prog' = s.prog /\ sh' = s.sh /\ th' = s.th /\ retmax' = s.retmax /\ acq' = s.acq /\ ev' = s.ev
Init == \E p \in Progs : InitWith(p)

\* generic step of thread t: from label, guard, new shared state, updates of the thread record, event
Do(t, from, guard, sh2, th2, e) ==
    /\ th[t].pc = from /\ guard
    /\ sh' = sh2 /\ th' = [th EXCEPT ![t] = th2] /\ ev' = e /\ UNCHANGED <<prog, retmax>>
    /\ acq' = IF from = "r3" THEN acq + 1 ELSE acq    \* the harness numbers the handle acquisitions (relay programs)
Pc(t, l) == [th[t] EXCEPT !.pc = l]

Call(t) ==
    /\ th[t].pc = "idle" /\ th[t].opi <= Len(prog[t])
    /\ \E j \in 1..Len(prog[t][th[t].opi]) :
         LET o == prog[t][th[t].opi][j] IN
         /\ th' = [th EXCEPT ![t] = [@ EXCEPT !.op = o, !.res = 0, !.nrd = 0, !.need = retmax, !.side = 0,
                                            !.pc = IF o = 0 THEN (IF WriterMutex THEN "m1" ELSE "m2")
                                                   ELSE (IF RegisterFirst THEN "r1" ELSE "r3")]]
         /\ ev' = E(t, "call", OpName[o + 1], 0, 0)
    /\ UNCHANGED <<prog, sh, retmax, acq>>

Ret(t) ==
    /\ th[t].pc = "ret"
    /\ th' = [th EXCEPT ![t] = [@ EXCEPT !.pc = "idle", !.opi = @ + 1]]
    /\ retmax' = IF th[t].op = 0 /\ th[t].res > retmax THEN th[t].res ELSE retmax
    /\ ev' = E(t, "ret", OpName[th[t].op + 1], th[t].res, 0)
    /\ UNCHANGED <<prog, sh, acq>>

First(t) == IF th[t].lrl THEN 2 ELSE 1
Second(t) == 3 - First(t)
SetA(i, v) == [sh EXCEPT !.cp[i].a = v]
SetB(i, v) == [sh EXCEPT !.cp[i].b = v]
CanThrow == sh.thr < MaxThrows
Thrown(s) == [s EXCEPT !.thr = @ + 1]

\* one application of the functor to copy i: begin (word a), end (word b), each may throw instead
Apply(t, from, mid, next, catch, i) ==
    \/ Do(t, from, TRUE, SetA(i, F(t, sh.cp[i].a)), Pc(t, mid), EC(t, "wb", i, sh.cp[i].a, F(t, sh.cp[i].a)))
    \/ Do(t, from, CanThrow, Thrown(sh), Pc(t, catch), EC(t, "throw", i, sh.cp[i].a, 0))
    \/ Do(t, mid, TRUE, SetB(i, F(t, sh.cp[i].b)), [th[t] EXCEPT !.pc = next, !.res = F(t, sh.cp[i].b)],
          EC(t, "we", i, F(t, sh.cp[i].b), 0))
    \/ Do(t, mid, CanThrow, Thrown(sh), Pc(t, catch), EC(t, "throw", i, sh.cp[i].a, 1))
\* catch block: dst = src (copy assignment, two steps), then unlock and leave by exception
Recover(t, c1, c2, dst, src) ==
    \/ Do(t, c1, TRUE, SetA(dst, sh.cp[src].a), Pc(t, c2), EC(t, "cb", dst, sh.cp[src].a, 0))
    \/ Do(t, c2, TRUE, SetB(dst, sh.cp[src].b), [th[t] EXCEPT !.pc = IF WriterMutex THEN "m12" ELSE "ret", !.res = -1],
          EC(t, "ce", dst, sh.cp[src].b, 0))

Writer(t) ==
    \/ Do(t, "m1", sh.wm = 0, [sh EXCEPT !.wm = t], Pc(t, "m2"), E(t, "mlock", "wm", 0, 0))
    \/ Do(t, "m2", TRUE, sh, [th[t] EXCEPT !.pc = "m3", !.lrl = sh.rl], E(t, "ald", "rl", B(sh.rl), 0))
    \/ Apply(t, "m3", "m4", "m5", "c1", First(t))
    \/ Recover(t, "c1", "c2", First(t), Second(t))
    \/ Do(t, "m5", TRUE, [sh EXCEPT !.rl = ~th[t].lrl], Pc(t, "m6"), E(t, "ast", "rl", B(~th[t].lrl), 0))
    \/ Do(t, "m6", TRUE, sh, [th[t] EXCEPT !.pc = IF Drain1 THEN "m7" ELSE "m8", !.lcl = sh.cl], E(t, "ald", "cl", B(sh.cl), 0))
    \/ LET i == IF th[t].lcl THEN 2 ELSE 1 IN
       Do(t, "m7", TRUE, sh, Pc(t, IF sh.cnt[i] # 0 THEN "m7y" ELSE "m8"), E(t, "ald", CntName[i], sh.cnt[i], 0))
    \/ Do(t, "m7y", TRUE, sh, Pc(t, "m7"), E(t, "yield", "", 0, 0))
    \/ Do(t, "m8", TRUE, [sh EXCEPT !.cl = ~th[t].lcl], Pc(t, IF Drain2 THEN "m9" ELSE "m10"), E(t, "ast", "cl", B(~th[t].lcl), 0))
    \/ LET i == IF th[t].lcl THEN 1 ELSE 2 IN
       Do(t, "m9", TRUE, sh, Pc(t, IF sh.cnt[i] # 0 THEN "m9y" ELSE "m10"), E(t, "ald", CntName[i], sh.cnt[i], 0))
    \/ Do(t, "m9y", TRUE, sh, Pc(t, "m9"), E(t, "yield", "", 0, 0))
    \/ Apply(t, "m10", "m11", IF WriterMutex THEN "m12" ELSE "ret", "d1", Second(t))
    \/ Recover(t, "d1", "d2", Second(t), First(t))
    \/ Do(t, "m12", TRUE, [sh EXCEPT !.wm = 0], Pc(t, "ret"), E(t, "munlock", "wm", 0, 0))

Inc(i, d) == [sh EXCEPT !.cnt[i] = @ + d]
HoldsNow(u) == th[u].side # 0 /\ th[u].pc \in {"rw", "r4", "r5", "r8"}
IsRelay(u) == prog[u][1][1] = 3
RelayLeft(t) == \E u \in Threads \ {t} : IsRelay(u) /\ (th[u].pc # "idle" \/ th[u].opi <= Len(prog[u]))
RelayGo(t) == acq > th[t].tk \/ ~RelayLeft(t)
AfterReg(t) == IF RegisterFirst THEN "r3" ELSE "r4"
Reader(t) ==
    \/ Do(t, "r1", TRUE, sh, [th[t] EXCEPT !.pc = "r2", !.c = IF sh.cl THEN 1 ELSE 2], E(t, "ald", "cl", B(sh.cl), 0))
    \/ Do(t, "r2", TRUE, Inc(th[t].c, 1), Pc(t, AfterReg(t)), E(t, "arm", CntName[th[t].c], sh.cnt[th[t].c], sh.cnt[th[t].c] + 1))
    \/ Do(t, "r3", TRUE, sh, [th[t] EXCEPT !.pc = IF RegisterFirst THEN (IF th[t].op = 3 THEN "rw" ELSE "r4") ELSE "r1", !.side = IF sh.rl THEN 1 ELSE 2, !.tk = acq + 1],
          E(t, "ald", "rl", B(sh.rl), 0))
    \* op 3 (relay): hold the handle until another thread holds one as well - a stream of overlapping short-lived handles
    \/ Do(t, "rw", RelayGo(t), sh, Pc(t, "r4"), E(t, "relay", "", 0, 0))
    \/ LET i == th[t].side IN
       Do(t, "r4", TRUE, sh, [th[t] EXCEPT !.pc = "r5", !.ra = sh.cp[i].a], EC(t, "rb", i, sh.cp[i].a, 0))
    \/ LET i == th[t].side
           v == Enc(th[t].ra, sh.cp[i].b) IN
       Do(t, "r5", TRUE, sh,
          [th[t] EXCEPT !.pc = IF th[t].op = 2 /\ th[t].nrd = 0 THEN "r4" ELSE "r8", !.nrd = @ + 1,
                        !.seen = v, !.last = IF th[t].nrd = 0 THEN th[t].seen ELSE @,
                        !.res = IF th[t].nrd = 0 THEN v ELSE (IF v = th[t].seen THEN v ELSE -1)],
          EC(t, "re", i, th[t].ra, sh.cp[i].b))
    \/ Do(t, "r8", TRUE, Inc(th[t].c, -1), [th[t] EXCEPT !.pc = "ret", !.side = 0],
          E(t, "arm", CntName[th[t].c], sh.cnt[th[t].c], sh.cnt[th[t].c] - 1))

Step(t) == Call(t) \/ Ret(t) \/ Writer(t) \/ Reader(t)
Next == \E t \in Threads : Step(t)
Spec == Init /\ [][Next]_vars
FairSpec == Spec /\ \A t \in 1..4 : WF_vars(t \in Threads /\ Step(t))
ReaderFairSpec == Spec /\ \A t \in 1..4 : WF_vars(t \in Threads /\ Reader(t))
-----------------------------------------------------------------------------
Holding(t) == th[t].side # 0 /\ th[t].pc \in {"r4", "r5", "r8"} /\ (RegisterFirst \/ th[t].pc # "r1")
HeldSide(t) == th[t].side
InWindow(i) == sh.cp[i].a # sh.cp[i].b
InModify(t) == th[t].pc \in {"m2", "m3", "m4", "m5", "m6", "m7", "m7y", "m8", "m9", "m9y", "m10", "m11", "m12", "c1", "c2", "d1", "d2"}

TypeOK == sh.wm \in 0..Len(prog) /\ sh.cnt[1] \in 0..4 /\ sh.cnt[2] \in 0..4

\* C03: a reader holding a handle on a copy never coincides with an open write window on that copy,
\* and never sees a torn or unstable value
ReaderIsolation == \A t \in Threads : (th[t].side # 0 /\ th[t].pc \in {"rw", "r4", "r5", "r8"}) => ~InWindow(th[t].side)
NoTornRead == \A t \in Threads : th[t].pc \in {"r8", "ret"} /\ th[t].op \in {1, 2, 3} => th[t].res >= 0
\* C03: a read that starts after modify() returned observes that modification and all earlier ones
Visibility == \A t \in Threads : (th[t].pc \in {"r8", "ret"} /\ th[t].op \in {1, 2, 3} /\ th[t].res >= 0) => IsPref(th[t].need, th[t].seen)
\* C03: the values one reader observes never go backwards
MonotoneReads == \A t \in Threads : (th[t].pc \in {"r8", "ret"} /\ th[t].op \in {1, 2, 3} /\ th[t].res >= 0) => IsPref(th[t].last, th[t].seen)
\* C03: modifications are applied one at a time to the same sequence of states
OneOrder == (\A t \in Threads : ~InModify(t)) => (sh.cp[1] = sh.cp[2] /\ ~InWindow(1))
WritersOneAtATime == Cardinality({t \in Threads : InModify(t)}) <= 1
\* C20: after an exception both copies agree again (all-or-nothing is part of OneOrder + the value)
\* C14: a reader's acquisition and release never wait: every reader step is enabled in every state
ReaderWaitFree == \A t \in Threads : th[t].pc \in {"r1", "r2", "r3", "r4", "r5", "r8"} => ENABLED Reader(t)
\* C14: readers complete under reader-only fairness; writers complete under full fairness
ReadersFinish == \A t \in 1..4 : (t \in Threads /\ th[t].pc = "r1") ~> (th[t].pc = "ret")
WritersFinish == \A t \in 1..4 : (t \in Threads /\ th[t].pc \in {"m1", "m2"}) ~> (th[t].pc = "ret")
=============================================================================

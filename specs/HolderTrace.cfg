SPECIFICATION TSpec
CONSTANTS
  Progs = {}
  PredThrows = TRUE
INVARIANTS Linearizable
POSTCONDITION Accepted
CHECK_DEADLOCK FALSE

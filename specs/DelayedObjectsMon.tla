-------------------------- MODULE DelayedObjectsMon --------------------------
(* Property monitor for C18: the call/return history (incl. consumers blocked  *)
(* on futures, the destruction of the container and the final state of every   *)
(* future handed out) must be linearizable w.r.t. DelayedObjSeq; a key reported *)
(* completed has a ready future; nothing escapes; nobody hangs.                 *)
EXTENDS DelayedObjSeq, TraceBase
VARIABLES l, lin, ops, blk
L == INSTANCE SeqLin
MaxT == 8
TT == 0..MaxT
NoOp == [n |-> "none", k |-> 1, v |-> 0]
NoOps == [t \in TT |-> NoOp]
Viol(what) == MonViol(l, what)
\* operation record from the name "kind<key>" and the value logged with the call
KindOf(name) == SubSeq(name, 1, Len(name) - 1)
KeyOf(name) == LET c == SubSeq(name, Len(name), Len(name)) IN IF c = "1" THEN 1 ELSE IF c = "2" THEN 2 ELSE IF c = "3" THEN 3 ELSE 1
TInit == l = 1 /\ lin = L!LinInit(S0, TT) /\ ops = NoOps /\ blk = {} /\ TLCSet(1, 0)
\* the driver (thread 0) performs an operation atomically between two lines
Atomic(C, o, r) == L!LinRet(L!LinCall(C, 0, [ops EXCEPT ![0] = o]), 0, r)
TNext ==
    /\ l <= Len(Tr)
    /\ l' = l + 1
    /\ LET e == Tr[l] IN
       CASE e.k = "reset" -> lin' = L!LinInit(S0, TT) /\ ops' = NoOps /\ blk' = {}
         [] e.k = "call" ->
              LET o2 == [ops EXCEPT ![e.t] = [n |-> KindOf(e.o), k |-> KeyOf(e.o), v |-> e.v]] IN
              ops' = o2 /\ lin' = L!LinCall(lin, e.t, o2) /\ UNCHANGED blk
         [] e.k = "ret" ->
              \* a skipped operation (-3) never reached the container
              LET C1 == IF e.v = -3 THEN L!LinCall({L!Set(c, e.t, L!NONE) : c \in lin}, e.t, [ops EXCEPT ![e.t] = NoOp]) ELSE lin
                  n == L!LinRet(C1, e.t, e.v) IN
              /\ (KindOf(e.o) = "isCompleted" /\ e.v = 1 /\ e.w = 0) => Viol("C18: a key is reported completed while its future is not ready")
              /\ (e.v = -9) => Viol("C18: an exception escaped the API (promise already satisfied / broken)")
              /\ IF n = {} /\ lin # {} THEN Viol("C18: history not linearizable at return of " \o e.o \o " = " \o ToString(e.v)) /\ lin' = {} ELSE lin' = n
              /\ ops' = [ops EXCEPT ![e.t] = NoOp] /\ UNCHANGED blk
         [] e.k = "destroyed" ->
              LET n == Atomic(lin, [n |-> "destroy", k |-> 1, v |-> 0], 0) IN
              lin' = n /\ UNCHANGED <<ops, blk>>
         [] e.k = "fut" ->
              LET n == Atomic(lin, [n |-> "final", k |-> e.i, v |-> 0], e.v) IN
              /\ (e.v = -5) => Viol("C18: a future never became ready (would hang)")
              /\ (e.v = -2) => Viol("C18: a future holds a broken promise")
              /\ IF n = {} /\ lin # {} /\ e.v \notin {-5, -2} THEN Viol("C18: a future holds a value that no linearization explains: " \o ToString(e.v)) /\ lin' = {}
                                                              ELSE lin' = IF n = {} THEN lin ELSE n
              /\ UNCHANGED <<ops, blk>>
         [] e.k = "blocked" -> blk' = blk \cup ({e.t} \cap (1..MaxT)) /\ UNCHANGED <<lin, ops>>
         [] e.k = "deadlock" ->
              /\ (lin # {} /\ ~L!QuiescentOK(lin, {t \in blk : ops[t].n # "none"}, ops)) => Viol("C18: a consumer hangs although its future must be ready, or an operation is stuck")
              /\ UNCHANGED <<lin, ops, blk>>
         [] e.k \in {"crash", "terminate", "escaped"} -> Viol("C18: crash or escaped exception") /\ UNCHANGED <<lin, ops, blk>>
         [] OTHER -> UNCHANGED <<lin, ops, blk>>
    /\ Mark(l)
TSpec == TInit /\ [][TNext]_<<l, lin, ops, blk>>
Accepted == IF TLCGet(1) = Len(Tr) THEN TRUE ELSE Rejected(TLCGet(1) + 1)
=============================================================================

---- MODULE LatchMC_TTrace_1790873024 ----
EXTENDS Sequences, TLCExt, Toolbox, Naturals, TLC, LatchMC

_expression ==
    LET LatchMC_TEExpression == INSTANCE LatchMC_TEExpression
    IN LatchMC_TEExpression!expression
----

_trace ==
    LET LatchMC_TETrace == INSTANCE LatchMC_TETrace
    IN LatchMC_TETrace!trace
----

_inv ==
    ~(
        TLCGet("level") = Len(_TETrace)
        /\
        mtx = (0)
        /\
        cvs = (<<0, 0>>)
        /\
        op = (<<1, 0>>)
        /\
        ev = ([k |-> "munlock", t |-> 1, o |-> "mtx", v |-> 0, w |-> 0])
        /\
        pc = (<<"ret", "idle">>)
        /\
        count0 = (1)
        /\
        called = (0)
        /\
        opi = (<<1, 1>>)
        /\
        counter = (1)
        /\
        prog = (<<<<<<0, 1, 2>>, <<0, 1, 2>>>>, <<<<0, 1, 2>>, <<0, 1, 2>>>>>>)
        /\
        decs = (0)
    )
----

_init ==
    /\ prog = _TETrace[1].prog
    /\ decs = _TETrace[1].decs
    /\ mtx = _TETrace[1].mtx
    /\ cvs = _TETrace[1].cvs
    /\ op = _TETrace[1].op
    /\ counter = _TETrace[1].counter
    /\ pc = _TETrace[1].pc
    /\ ev = _TETrace[1].ev
    /\ opi = _TETrace[1].opi
    /\ called = _TETrace[1].called
    /\ count0 = _TETrace[1].count0
----

_next ==
    /\ \E i,j \in DOMAIN _TETrace:
        /\ \/ /\ j = i + 1
              /\ i = TLCGet("level")
        /\ prog  = _TETrace[i].prog
        /\ prog' = _TETrace[j].prog
        /\ decs  = _TETrace[i].decs
        /\ decs' = _TETrace[j].decs
        /\ mtx  = _TETrace[i].mtx
        /\ mtx' = _TETrace[j].mtx
        /\ cvs  = _TETrace[i].cvs
        /\ cvs' = _TETrace[j].cvs
        /\ op  = _TETrace[i].op
        /\ op' = _TETrace[j].op
        /\ counter  = _TETrace[i].counter
        /\ counter' = _TETrace[j].counter
        /\ pc  = _TETrace[i].pc
        /\ pc' = _TETrace[j].pc
        /\ ev  = _TETrace[i].ev
        /\ ev' = _TETrace[j].ev
        /\ opi  = _TETrace[i].opi
        /\ opi' = _TETrace[j].opi
        /\ called  = _TETrace[i].called
        /\ called' = _TETrace[j].called
        /\ count0  = _TETrace[i].count0
        /\ count0' = _TETrace[j].count0

\* Uncomment the ASSUME below to write the states of the error trace
\* to the given file in Json format. Note that you can pass any tuple
\* to `JsonSerialize`. For example, a sub-sequence of _TETrace.
    \* ASSUME
    \*     LET J == INSTANCE Json
    \*         IN J!JsonSerialize("LatchMC_TTrace_1790873024.json", _TETrace)

=============================================================================

 Note that you can extract this module `LatchMC_TEExpression`
  to a dedicated file to reuse `expression` (the module in the 
  dedicated `LatchMC_TEExpression.tla` file takes precedence 
  over the module `LatchMC_TEExpression` below).

---- MODULE LatchMC_TEExpression ----
EXTENDS Sequences, TLCExt, Toolbox, Naturals, TLC, LatchMC

expression == 
    [
        \* To hide variables of the `LatchMC` spec from the error trace,
        \* remove the variables below.  The trace will be written in the order
        \* of the fields of this record.
        prog |-> prog
        ,decs |-> decs
        ,mtx |-> mtx
        ,cvs |-> cvs
        ,op |-> op
        ,counter |-> counter
        ,pc |-> pc
        ,ev |-> ev
        ,opi |-> opi
        ,called |-> called
        ,count0 |-> count0
        
        \* Put additional constant-, state-, and action-level expressions here:
        \* ,_stateNumber |-> _TEPosition
        \* ,_progUnchanged |-> prog = prog'
        
        \* Format the `prog` variable as Json value.
        \* ,_progJson |->
        \*     LET J == INSTANCE Json
        \*     IN J!ToJson(prog)
        
        \* Lastly, you may build expressions over arbitrary sets of states by
        \* leveraging the _TETrace operator.  For example, this is how to
        \* count the number of times a spec variable changed up to the current
        \* state in the trace.
        \* ,_progModCount |->
        \*     LET F[s \in DOMAIN _TETrace] ==
        \*         IF s = 1 THEN 0
        \*         ELSE IF _TETrace[s].prog # _TETrace[s-1].prog
        \*             THEN 1 + F[s-1] ELSE F[s-1]
        \*     IN F[_TEPosition - 1]
    ]

=============================================================================



Parsing and semantic processing can take forever if the trace below is long.
 In this case, it is advised to uncomment the module below to deserialize the
 trace from a generated binary file.

\*
\*---- MODULE LatchMC_TETrace ----
\*EXTENDS IOUtils, TLC, LatchMC
\*
\*trace == IODeserialize("LatchMC_TTrace_1790873024.bin", TRUE)
\*
\*=============================================================================
\*

---- MODULE LatchMC_TETrace ----
EXTENDS TLC, LatchMC

trace == 
    <<
    ([mtx |-> 0,cvs |-> <<0, 0>>,op |-> <<0, 0>>,ev |-> [k |-> "init", t |-> 0, o |-> "", v |-> 0, w |-> 0],pc |-> <<"idle", "idle">>,count0 |-> 1,called |-> 0,opi |-> <<1, 1>>,counter |-> 1,prog |-> <<<<<<0, 1, 2>>, <<0, 1, 2>>>>, <<<<0, 1, 2>>, <<0, 1, 2>>>>>>,decs |-> 0]),
    ([mtx |-> 0,cvs |-> <<0, 0>>,op |-> <<1, 0>>,ev |-> [k |-> "call", t |-> 1, o |-> "wait", v |-> 0, w |-> 0],pc |-> <<"w_fast", "idle">>,count0 |-> 1,called |-> 0,opi |-> <<1, 1>>,counter |-> 1,prog |-> <<<<<<0, 1, 2>>, <<0, 1, 2>>>>, <<<<0, 1, 2>>, <<0, 1, 2>>>>>>,decs |-> 0]),
    ([mtx |-> 0,cvs |-> <<0, 0>>,op |-> <<1, 0>>,ev |-> [k |-> "ald", t |-> 1, o |-> "counter", v |-> 1, w |-> 0],pc |-> <<"w_lock", "idle">>,count0 |-> 1,called |-> 0,opi |-> <<1, 1>>,counter |-> 1,prog |-> <<<<<<0, 1, 2>>, <<0, 1, 2>>>>, <<<<0, 1, 2>>, <<0, 1, 2>>>>>>,decs |-> 0]),
    ([mtx |-> 1,cvs |-> <<0, 0>>,op |-> <<1, 0>>,ev |-> [k |-> "mlock", t |-> 1, o |-> "mtx", v |-> 0, w |-> 0],pc |-> <<"w_test", "idle">>,count0 |-> 1,called |-> 0,opi |-> <<1, 1>>,counter |-> 1,prog |-> <<<<<<0, 1, 2>>, <<0, 1, 2>>>>, <<<<0, 1, 2>>, <<0, 1, 2>>>>>>,decs |-> 0]),
    ([mtx |-> 1,cvs |-> <<0, 0>>,op |-> <<1, 0>>,ev |-> [k |-> "ald", t |-> 1, o |-> "counter", v |-> 1, w |-> 0],pc |-> <<"w_cvwait", "idle">>,count0 |-> 1,called |-> 0,opi |-> <<1, 1>>,counter |-> 1,prog |-> <<<<<<0, 1, 2>>, <<0, 1, 2>>>>, <<<<0, 1, 2>>, <<0, 1, 2>>>>>>,decs |-> 0]),
    ([mtx |-> 0,cvs |-> <<1, 0>>,op |-> <<1, 0>>,ev |-> [k |-> "cvwait", t |-> 1, o |-> "cv", v |-> 0, w |-> 0],pc |-> <<"w_wake", "idle">>,count0 |-> 1,called |-> 0,opi |-> <<1, 1>>,counter |-> 1,prog |-> <<<<<<0, 1, 2>>, <<0, 1, 2>>>>, <<<<0, 1, 2>>, <<0, 1, 2>>>>>>,decs |-> 0]),
    ([mtx |-> 0,cvs |-> <<0, 0>>,op |-> <<1, 0>>,ev |-> [k |-> "cvwake", t |-> 1, o |-> "cv", v |-> 1, w |-> 0],pc |-> <<"w_relock", "idle">>,count0 |-> 1,called |-> 0,opi |-> <<1, 1>>,counter |-> 1,prog |-> <<<<<<0, 1, 2>>, <<0, 1, 2>>>>, <<<<0, 1, 2>>, <<0, 1, 2>>>>>>,decs |-> 0]),
    ([mtx |-> 1,cvs |-> <<0, 0>>,op |-> <<1, 0>>,ev |-> [k |-> "mlock", t |-> 1, o |-> "mtx", v |-> 0, w |-> 0],pc |-> <<"w_unlock", "idle">>,count0 |-> 1,called |-> 0,opi |-> <<1, 1>>,counter |-> 1,prog |-> <<<<<<0, 1, 2>>, <<0, 1, 2>>>>, <<<<0, 1, 2>>, <<0, 1, 2>>>>>>,decs |-> 0]),
    ([mtx |-> 0,cvs |-> <<0, 0>>,op |-> <<1, 0>>,ev |-> [k |-> "munlock", t |-> 1, o |-> "mtx", v |-> 0, w |-> 0],pc |-> <<"ret", "idle">>,count0 |-> 1,called |-> 0,opi |-> <<1, 1>>,counter |-> 1,prog |-> <<<<<<0, 1, 2>>, <<0, 1, 2>>>>, <<<<0, 1, 2>>, <<0, 1, 2>>>>>>,decs |-> 0])
    >>
----


=============================================================================

---- CONFIG LatchMC_TTrace_1790873024 ----
CONSTANTS
    Counts = { 1 , 2 }
    Progs <- QuickProgs
    Spurious = TRUE
    ArriveLocked = TRUE
    WaitLoops = FALSE
    NotifyAll = TRUE

INVARIANT
    _inv

CHECK_DEADLOCK
    \* CHECK_DEADLOCK off because of PROPERTY or INVARIANT above.
    FALSE

INIT
    _init

NEXT
    _next

CONSTANT
    _TETrace <- _trace

ALIAS
    _expression
=============================================================================
\* Generated on Thu Oct 01 16:43:46 UTC 2026
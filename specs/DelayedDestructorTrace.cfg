SPECIFICATION TSpec
CONSTANTS
  Progs = {}
  Cbs = {}
  Reenters = {}
  Lockeds = {}
  Timeouts = TRUE
  CbThrows = {FALSE}
  ClearOutsideLock = TRUE
  SoleOwnerOnly = TRUE
INVARIANTS DestroyedOnce NeverWhileOwned UserCodeOutsideLock CallbackFirst NoLossNoDup
POSTCONDITION Accepted
CHECK_DEADLOCK FALSE

SPECIFICATION TSpec
CONSTANTS
  Progs = {}
  Cbs = {}
  Reenters = {}
  Lockeds = {}
  Timeouts = TRUE
  ClearOutsideLock = TRUE
  SoleOwnerOnly = TRUE
INVARIANTS DestroyedOnce NeverWhileOwned UserCodeOutsideLock CallbackFirst NoLossNoDup
POSTCONDITION Accepted
CHECK_DEADLOCK FALSE

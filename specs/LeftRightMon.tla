---------------------------- MODULE LeftRightMon ----------------------------
(* Property monitor for lr_guarded over API-level and payload events only     *)
(* (call/ret, handle get/release, payload access windows, final inspection,   *)
(* scheduler reports).  Violation texts are tagged with the property id.      *)
(*  C03: no write window on a copy while a reader holds it; reads are never   *)
(*       torn or unstable; a read started after modify() returned sees that   *)
(*       modification (values are base-4 sequences of applied modifications); *)
(*       per-reader values never go backwards; writers one at a time; after   *)
(*       all writers both copies hold the same sequence of exactly the        *)
(*       modifications that took effect.                                      *)
(*  C14: a reader is never starved while acquiring (solo schedules); a writer *)
(*       is never stuck once no handle is held.                               *)
(*  C20: after an exception the copies agree (all-or-nothing) and the writer  *)
(*       lock is free.                                                        *)
EXTENDS TraceBase
VARIABLES l, wopen, hold, inop, need, last, retmax, applied, ndone, blk, wstart, rstart, rdone, fairp
mv == <<wopen, hold, inop, need, last, retmax, applied, ndone, blk, wstart, rstart, rdone>>
MaxT == 8
MaxC == 8
ZT == [t \in 0..MaxT |-> 0]
Pow4 == <<1, 4, 16, 64, 256, 1024, 4096, 16384, 65536>>
IsPref(p, v) == \E k \in 1..9 : v \div Pow4[k] = p
Digits(v) == IF v <= 0 THEN 0 ELSE CHOOSE k \in 1..8 : Pow4[k] <= v /\ v < Pow4[k + 1]
TInit == /\ l = 1 /\ wopen = [i \in 0..MaxC |-> 0] /\ hold = ZT /\ inop = [t \in 0..MaxT |-> ""] /\ need = ZT /\ last = ZT
         /\ retmax = 0 /\ applied = ZT /\ ndone = 0 /\ blk = {} /\ wstart = ZT /\ rstart = ZT /\ rdone = [w \in 0..MaxT |-> ZT] /\ fairp = FALSE /\ TLCSet(1, 0)
Viol(what) == MonViol(l, what)
Readers == {"read", "read2", "relay"}
TNext ==
    /\ l <= Len(Tr)
    /\ l' = l + 1
    \* fairp: the execution ran under the fair round-robin policy (fair=1): only then does "the writer was delayed" mean that it waited
    \* for the readers and not for the scheduler
    /\ fairp' = IF Tr[l].k = "reset" THEN ("fair" \in DOMAIN Tr[l].p /\ Tr[l].p.fair = 1) ELSE fairp
    /\ LET e == Tr[l] IN
       CASE e.k = "reset" ->
              /\ wopen' = [i \in 0..MaxC |-> 0] /\ hold' = ZT /\ inop' = [t \in 0..MaxT |-> ""] /\ need' = ZT /\ last' = ZT
              /\ retmax' = 0 /\ applied' = ZT /\ ndone' = 0 /\ blk' = {} /\ wstart' = ZT /\ rstart' = ZT /\ rdone' = [w \in 0..MaxT |-> ZT]
         [] e.k = "call" ->
              /\ inop' = [inop EXCEPT ![e.t] = e.o] /\ need' = [need EXCEPT ![e.t] = retmax] /\ applied' = [applied EXCEPT ![e.t] = 0]
              /\ wstart' = IF e.o = "modify" THEN [wstart EXCEPT ![e.t] = l] ELSE wstart
              /\ rstart' = IF e.o \in Readers THEN [rstart EXCEPT ![e.t] = l] ELSE rstart
              /\ rdone' = IF e.o = "modify" THEN [rdone EXCEPT ![e.t] = ZT] ELSE rdone
              /\ UNCHANGED <<wopen, hold, last, retmax, ndone, blk>>
         [] e.k = "ret" /\ e.o = "modify" ->
              /\ retmax' = IF e.v > retmax THEN e.v ELSE retmax
              /\ ndone' = IF e.v >= 0 \/ applied[e.t] >= 1 THEN ndone + 1 ELSE ndone
              /\ inop' = [inop EXCEPT ![e.t] = ""]
              \* under fair scheduling a writer waits for handles that are still held, not for a stream of new ones
              /\ (fairp /\ \E r \in 1..MaxT : rdone[e.t][r] >= 10) => Viol("C14: a writer was delayed while one reader took and released 10 or more handles (livelock with a reader stream)")
              /\ wstart' = [wstart EXCEPT ![e.t] = 0]
              /\ UNCHANGED <<wopen, hold, need, last, applied, blk, rstart, rdone>>
         [] e.k = "ret" /\ e.o \in Readers ->
              /\ (e.v < 0) => Viol("C03: a reader saw a torn or changing value under its handle")
              /\ (e.v >= 0 /\ ~IsPref(need[e.t], e.v)) => Viol("C03: a read that started after modify() returned does not see that modification")
              /\ (e.v >= 0 /\ ~IsPref(last[e.t], e.v)) => Viol("C03: values observed by one reader went backwards")
              /\ last' = [last EXCEPT ![e.t] = IF e.v >= 0 THEN e.v ELSE @]
              /\ inop' = [inop EXCEPT ![e.t] = ""]
              /\ rdone' = [w \in 0..MaxT |-> IF wstart[w] # 0 /\ wstart[w] < rstart[e.t] THEN [rdone[w] EXCEPT ![e.t] = @ + 1] ELSE rdone[w]]
              /\ UNCHANGED <<wopen, hold, need, retmax, applied, ndone, blk, wstart, rstart>>
         [] e.k = "hget" ->
              /\ (wopen[e.i] # 0) => Viol("C03: reader obtained a handle on a copy that is being written")
              /\ hold' = [hold EXCEPT ![e.t] = e.i]
              /\ UNCHANGED <<wopen, inop, need, last, retmax, applied, ndone, blk, wstart, rstart, rdone>>
         [] e.k = "hrel" -> hold' = [hold EXCEPT ![e.t] = 0] /\ UNCHANGED <<wopen, inop, need, last, retmax, applied, ndone, blk, wstart, rstart, rdone>>
         [] e.k \in {"wb", "cb"} ->
              /\ (\E u \in 1..MaxT : u # e.t /\ hold[u] = e.i) => Viol("C03: a writer touches the copy a reader's handle points to")
              /\ (\E j \in 1..MaxC : wopen[j] # 0 /\ wopen[j] # e.t) => Viol("C03: two writers are inside the object at once")
              /\ wopen' = [wopen EXCEPT ![e.i] = e.t]
              /\ UNCHANGED <<hold, inop, need, last, retmax, applied, ndone, blk, wstart, rstart, rdone>>
         [] e.k \in {"we", "ce"} ->
              /\ wopen' = [wopen EXCEPT ![e.i] = 0]
              /\ applied' = IF e.k = "we" THEN [applied EXCEPT ![e.t] = @ + 1] ELSE applied
              /\ UNCHANGED <<hold, inop, need, last, retmax, ndone, blk, wstart, rstart, rdone>>
         [] e.k = "re" ->
              /\ (e.v # e.w) => Viol("C03: torn read")
              /\ UNCHANGED mv
         [] e.k = "final" ->
              /\ (e.v # e.w \/ e.v < 0) => Viol("C03: the two copies differ after all modifications (C20: not all-or-nothing)")
              /\ (e.v = e.w /\ e.v >= 0 /\ Digits(e.v) # ndone) => Viol("C03: final value does not consist of exactly the modifications that took effect")
              /\ (e.v >= 0 /\ ~IsPref(retmax, e.v)) => Viol("C03: a returned modification is missing from the final value")
              /\ UNCHANGED mv
         [] e.k = "starved" ->
              /\ (inop[e.t] \in Readers /\ hold[e.t] = 0) => Viol("C14: a reader cannot complete its acquisition while the other threads are suspended")
              /\ UNCHANGED mv
         [] e.k = "soloyield" ->
              /\ (inop[e.t] \in Readers /\ hold[e.t] = 0) => Viol("C14: a reader spins waiting for a writer while acquiring")
              /\ UNCHANGED mv
         [] e.k = "blocked" -> blk' = blk \cup {e.t} /\ UNCHANGED <<wopen, hold, inop, need, last, retmax, applied, ndone, wstart, rstart, rdone>>
         [] e.k \in {"deadlock", "budget"} ->
              /\ ((\E t \in 1..MaxT : inop[t] = "modify") /\ (\A u \in 1..MaxT : hold[u] = 0 /\ inop[u] \notin Readers))
                    => Viol("C14: a writer never completes although no read handle is held (C20: lock left behind)")
              /\ (\E t \in 1..MaxT : inop[t] \in Readers) => Viol("C14: a reader never completes")
              /\ (\E w \in 1..MaxT : wstart[w] # 0 /\ \E r \in 1..MaxT : rdone[w][r] >= 10) => Viol("C14: a writer is starved by a stream of short-lived read handles (livelock)")
              /\ UNCHANGED mv
         [] e.k \in {"crash", "terminate"} -> Viol("C03: crash") /\ UNCHANGED mv
         [] OTHER -> UNCHANGED mv
    /\ Mark(l)
TSpec == TInit /\ [][TNext]_<<l, mv, fairp>>
Accepted == IF TLCGet(1) = Len(Tr) THEN TRUE ELSE Rejected(TLCGet(1) + 1)
=============================================================================

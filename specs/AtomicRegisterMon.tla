-------------------------- MODULE AtomicRegisterMon --------------------------
(* Property monitor for C15: the call/return history must be linearizable      *)
(* w.r.t. the atomic register of RegSeq; loaded values are never torn.         *)
EXTENDS RegSeq, TraceBase
VARIABLES l, lin, ops
L == INSTANCE SeqLin
MaxT == 8
TT == 1..MaxT
NoOp == [n |-> "none", a |-> 0, b |-> 0]
NoOps == [t \in TT |-> NoOp]
Viol(what) == MonViol(l, what)
D(c) == IF c = "0" THEN 0 ELSE IF c = "1" THEN 1 ELSE IF c = "2" THEN 2 ELSE IF c = "3" THEN 3 ELSE 0
OpOf(name) == [n |-> SubSeq(name, 1, Len(name) - 2), a |-> D(SubSeq(name, Len(name) - 1, Len(name) - 1)), b |-> D(SubSeq(name, Len(name), Len(name)))]
TInit == l = 1 /\ lin = L!LinInit(S0, TT) /\ ops = NoOps /\ TLCSet(1, 0)
TNext ==
    /\ l <= Len(Tr)
    /\ l' = l + 1
    /\ LET e == Tr[l] IN
       CASE e.k = "reset" -> lin' = L!LinInit(S0, TT) /\ ops' = NoOps
         [] e.k = "call" /\ e.t \in TT -> LET o2 == [ops EXCEPT ![e.t] = OpOf(e.o)] IN ops' = o2 /\ lin' = L!LinCall(lin, e.t, o2)
         [] e.k = "ret" /\ e.t \in TT ->
              LET n == L!LinRet(lin, e.t, e.v) IN
              /\ (e.v < 0) => Viol("C15: an operation returned a partially written (torn) value")
              /\ IF n = {} /\ lin # {} THEN Viol("C15: history not linearizable at return of " \o e.o \o " = " \o ToString(e.v)) /\ lin' = {} ELSE lin' = n
              /\ ops' = [ops EXCEPT ![e.t] = NoOp]
         [] e.k \in {"deadlock", "budget"} -> Viol("C15: an operation never completes (deadlock; C20: a lock is still held after user code threw)") /\ UNCHANGED <<lin, ops>>
         [] e.k \in {"crash", "terminate", "escaped"} -> Viol("C15: crash") /\ UNCHANGED <<lin, ops>>
         [] OTHER -> UNCHANGED <<lin, ops>>
    /\ Mark(l)
TSpec == TInit /\ [][TNext]_<<l, lin, ops>>
Accepted == IF TLCGet(1) = Len(Tr) THEN TRUE ELSE Rejected(TLCGet(1) + 1)
=============================================================================

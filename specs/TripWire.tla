------------------------------ MODULE TripWire ------------------------------
(***************************************************************************)
(* gmlc::concurrency::TripWire: lines (shared atomic<bool>), triggers that  *)
(* trip their line on destruction (release store; a moved-from trigger has  *)
(* an empty pointer and does nothing), detectors (acquire load), indexed    *)
(* lines accessed with at() (out of range => exception).                    *)
(* Operation code = kind * 10 + line; kinds: 0 trip (create and destroy a   *)
(* trigger), 1 poll, 2 movetrip (move the trigger, destroy the moved-from   *)
(* object first, poll, destroy the new owner), 3 publish (write data, trip),*)
(* 4 consume (poll, read data if tripped), 5 badindex, 6 massign (a trigger  *)
(* of line L is move-assigned onto a trigger attached to the other explicit *)
(* line; the moved-from object is destroyed, then the new owner: only L     *)
(* trips; the target's previous line is dropped untripped).                 *)
(***************************************************************************)
EXTENDS Naturals, Integers, Sequences, FiniteSets, TLC
CONSTANTS Progs,
          NullCheckInDtor,   \* knob: TRUE = destroying a moved-from trigger is a no-op (code as repaired)
          MoveEmpties,       \* knob: TRUE = the move constructor leaves the source empty (code as read)
          AssignSwaps        \* knob: FALSE = move assignment transfers the line and empties the source (code as read); TRUE = it swaps
VARIABLES prog, line, th, began, ev
vars == <<prog, line, th, began, ev>>
View == <<prog, line, th, began>>
NL == 5
KindName == <<"trip", "poll", "movetrip", "publish", "consume", "badindex", "massign">>
Name(c) == KindName[(c \div 10) + 1]
Threads == 1..Len(prog)
NoEv == [t |-> 0, k |-> "init", o |-> "", i |-> 0, v |-> 0, w |-> 0]
E(t, k, o, i, v, w) == [t |-> t, k |-> k, o |-> o, i |-> i, v |-> v, w |-> w]
B(b) == IF b THEN 1 ELSE 0
LineName == <<"line1", "line2", "line3", "line4", "line5">>
\* op names are kind+line, e.g. "trip1"
Dig == <<"0", "1", "2", "3", "4", "5", "6", "7", "8", "9">>
OpName(c) == Name(c) \o Dig[(c % 10) + 1]
Init0(p) == [prog |-> p, line |-> [i \in 1..NL |-> FALSE],
             th |-> [t \in 1..Len(p) |-> [pc |-> "idle", op |-> 0, opi |-> 1, res |-> 0]],
             began |-> [i \in 1..NL |-> FALSE], ev |-> NoEv]
InitWith(p) == LET s == Init0(p) IN prog = s.prog /\ line = s.line /\ th = s.th /\ began = s.began /\ ev = s.ev
ResetTo(p) == LET s == Init0(p) IN prog' = s.prog /\ line' = s.line /\ th' = s.th /\ began' = s.began /\ ev' = s.ev
Init == \E p \in Progs : InitWith(p)
L(t) == th[t].op % 10
K(t) == th[t].op \div 10
Other(t) == IF L(t) = 1 THEN 2 ELSE 1     \* massign: the line the assignment target was attached to (explicit lines only)
Do(t, from, line2, th2, began2, e) ==
    /\ th[t].pc = from /\ line' = line2 /\ th' = [th EXCEPT ![t] = th2] /\ began' = began2 /\ ev' = e /\ UNCHANGED prog
Call(t) ==
    /\ th[t].pc = "idle" /\ th[t].opi <= Len(prog[t])
    /\ \E j \in 1..Len(prog[t][th[t].opi]) :
         LET c == prog[t][th[t].opi][j]
             k == c \div 10 IN
         /\ th' = [th EXCEPT ![t] = [@ EXCEPT !.op = c, !.res = 0,
                                            !.pc = CASE k = 0 -> "store" [] k = 1 -> "load" [] k = 2 -> (IF ~NullCheckInDtor /\ MoveEmpties THEN "crashed" ELSE IF MoveEmpties THEN "load" ELSE "mstore")
                                                     [] k = 3 -> "pw" [] k = 4 -> "load" [] k = 6 -> (IF AssignSwaps THEN "sstore" ELSE "store") [] OTHER -> "ret"]]
         /\ ev' = E(t, "call", OpName(c), 0, 0, 0)
    /\ UNCHANGED <<prog, line, began>>
Step(t) ==
    \/ Call(t)
    \* knob: the moved-from trigger still holds the line and trips it when destroyed
    \/ Do(t, "mstore", [line EXCEPT ![L(t)] = TRUE], [th[t] EXCEPT !.pc = "load"], began, E(t, "ast", LineName[L(t)], 0, 1, 0))
    \* knob: after a swapping move assignment the moved-from trigger holds the target's previous line and trips it
    \/ Do(t, "sstore", [line EXCEPT ![Other(t)] = TRUE], [th[t] EXCEPT !.pc = "store"], began, E(t, "ast", LineName[Other(t)], 0, 1, 0))
    \/ Do(t, "load", line,
          [th[t] EXCEPT !.res = B(line[L(t)]), !.pc = CASE K(t) = 1 -> "ret" [] K(t) = 2 -> "store"
                                                        [] OTHER -> IF line[L(t)] THEN "pr" ELSE "ret"],
          began, E(t, "ald", LineName[L(t)], 0, B(line[L(t)]), 0))
    \/ Do(t, "pw", line, [th[t] EXCEPT !.pc = "store"], began, E(t, "pw", "data", L(t), 1, 0))
    \/ Do(t, "pr", line, [th[t] EXCEPT !.pc = "ret"], began, E(t, "pr", "data", L(t), 1, 0))
    \/ Do(t, "store", [line EXCEPT ![L(t)] = TRUE], [th[t] EXCEPT !.pc = "ret"], [began EXCEPT ![L(t)] = TRUE], E(t, "ast", LineName[L(t)], 0, 1, 0))
    \/ Do(t, "ret", line, [th[t] EXCEPT !.pc = "idle", !.opi = @ + 1, !.res = IF K(t) = 5 THEN 1 ELSE @], began,
          E(t, "ret", OpName(th[t].op), 0, IF K(t) = 5 THEN 1 ELSE th[t].res, 0))
Next == \E t \in Threads : Step(t)
Spec == Init /\ [][Next]_vars
-----------------------------------------------------------------------------
\* C19: detectors report false until the first (duty-carrying) trigger of their line is destroyed
FalseUntilFirstDestroy == \A i \in 1..NL : line[i] => began[i]
\* C19: one-way, and lines are independent: a line only ever changes from FALSE to TRUE, and only by a trip on that line
OneWay == [][\A i \in 1..NL : (line[i] => line'[i]) /\ ((~line[i] /\ line'[i]) => (ev'.k = "ast" /\ ev'.o = LineName[i]))]_vars
\* C19: destroying a moved-from trigger is safe (pre-repair behaviour: null dereference)
NoCrash == \A t \in Threads : th[t].pc # "crashed"
\* C19: a poll never reports a trip that did not happen
PollTruth == \A t \in Threads : (th[t].pc = "ret" /\ K(t) \in {1, 2, 4} /\ th[t].res = 1) => began[L(t)]
=============================================================================

SPECIFICATION Spec
CONSTANTS
  Progs <- ConfAG
  Wraps = {0}
  Shareds = {FALSE}
  ExchangeReturnsOld = TRUE
  CasReportsCurrent = TRUE

INVARIANTS TypeOK Linearizable NoTornLoad NoDeadlock
CHECK_DEADLOCK FALSE

------------------------------ MODULE HolderMon ------------------------------
(* Property monitor for C17: the call/return history of the real holder must be *)
(* linearizable w.r.t. HolderSeq; objects returned to callers stay alive;       *)
(* nothing crashes (memory safety: sanitizer build), nothing deadlocks.         *)
EXTENDS HolderSeq, TraceBase
VARIABLES l, lin, ops, thrown
L == INSTANCE SeqLin
MaxT == 8
TT == 1..MaxT
NoOp == [n |-> "none", a |-> 0, b |-> 0]
NoOps == [t \in TT |-> NoOp]
Viol(what) == MonViol(l, what)
D(c) == IF c = "0" THEN 0 ELSE IF c = "1" THEN 1 ELSE IF c = "2" THEN 2 ELSE IF c = "3" THEN 3 ELSE 0
OpOf(name) == [n |-> SubSeq(name, 1, Len(name) - 2), a |-> D(SubSeq(name, Len(name) - 1, Len(name) - 1)), b |-> D(SubSeq(name, Len(name), Len(name)))]
TInit == l = 1 /\ lin = L!LinInit(S0, TT) /\ ops = NoOps /\ thrown = FALSE /\ TLCSet(1, 0)
TNext ==
    /\ l <= Len(Tr)
    /\ l' = l + 1
    /\ LET e == Tr[l] IN
       CASE e.k = "reset" -> lin' = L!LinInit(S0, TT) /\ ops' = NoOps /\ thrown' = FALSE
         [] e.k = "call" /\ e.t \in TT ->
              LET o2 == [ops EXCEPT ![e.t] = OpOf(e.o)] IN ops' = o2 /\ lin' = L!LinCall(lin, e.t, o2) /\ UNCHANGED thrown
         [] e.k = "ret" /\ e.t \in TT ->
              \* a throwing predicate (C20) aborts the operation: it must have had no effect (the lock is released: later calls proceed)
              LET C1 == IF e.v = -1 THEN L!LinCall({L!Set(c, e.t, L!NONE) : c \in lin}, e.t, [ops EXCEPT ![e.t] = NoOp]) ELSE lin
                  n == L!LinRet(C1, e.t, IF e.v = -1 THEN -3 ELSE e.v) IN
              /\ IF n = {} /\ lin # {} THEN Viol("C17: history not linearizable at return of " \o e.o \o " = " \o ToString(e.v)) /\ lin' = {} ELSE lin' = n
              /\ ops' = [ops EXCEPT ![e.t] = NoOp] /\ thrown' = (thrown \/ e.v = -1)
         [] e.k = "kept" ->
              /\ (e.v # 0) => Viol("C17: an object returned to a caller was destroyed while the caller still holds it")
              /\ UNCHANGED <<lin, ops, thrown>>
         [] e.k \in {"deadlock", "budget"} ->
              /\ Viol(IF thrown THEN "C20: the holder stays locked after a predicate threw (C17: deadlock)" ELSE "C17: an operation never completes (deadlock)")
              /\ UNCHANGED <<lin, ops, thrown>>
         [] e.k \in {"crash", "terminate", "escaped"} -> Viol("C17: crash / memory error") /\ UNCHANGED <<lin, ops, thrown>>
         [] OTHER -> UNCHANGED <<lin, ops, thrown>>
    /\ Mark(l)
TSpec == TInit /\ [][TNext]_<<l, lin, ops, thrown>>
Accepted == IF TLCGet(1) = Len(Tr) THEN TRUE ELSE Rejected(TLCGet(1) + 1)
=============================================================================

SPECIFICATION Spec
CONSTANTS
  PredThrows = FALSE
  Progs <- QuickProgs
VIEW View
INVARIANTS TypeOK Linearizable NoDeadlock
CHECK_DEADLOCK FALSE

SPECIFICATION Spec
CONSTANTS
  PredThrows = FALSE
  Progs <- SeqProgs
VIEW View
INVARIANTS TypeOK Linearizable NoDeadlock
CHECK_DEADLOCK FALSE

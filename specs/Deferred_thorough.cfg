SPECIFICATION Spec
CONSTANTS
  Progs <- ThoroughProgs
  Shareds = {TRUE, FALSE}
  MaxThrows = 0
  PushBeforeFlag = TRUE
  DrainNeedsLock = TRUE
  DrainFifo = TRUE
VIEW View
INVARIANTS TypeOK AtMostOnce Exclusive NoTornRead Order NoStranding NoLoss NoLeakedLock NoDeadlock TryNeverBlocks
CHECK_DEADLOCK FALSE

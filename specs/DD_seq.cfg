SPECIFICATION Spec
CONSTANTS
  Progs <- SeqProgs
  Cbs = {TRUE, FALSE}
  Reenters = {0}
  Lockeds = {FALSE, TRUE}
  Timeouts = TRUE
  CbThrows = {FALSE}
  ClearOutsideLock = TRUE
  SoleOwnerOnly = TRUE
VIEW View
INVARIANTS TypeOK DestroyedOnce NeverWhileOwned UserCodeOutsideLock CallbackFirst NoDeadlock NoLossNoDup EndState
CHECK_DEADLOCK FALSE

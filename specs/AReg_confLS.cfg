SPECIFICATION Spec
CONSTANTS
  Progs <- ConfLS
  Wraps = {1, 3}
  Shareds = {TRUE}
  ExchangeReturnsOld = TRUE
  CasReportsCurrent = TRUE

INVARIANTS TypeOK Linearizable NoTornLoad NoDeadlock
CHECK_DEADLOCK FALSE

---------------------------- MODULE LeftRightMC ----------------------------
EXTENDS LeftRight
Wr(k) == [i \in 1..k |-> <<0>>]
Rd(k) == [i \in 1..k |-> <<1, 2>>]
QuickProgs == {<<Wr(2), Rd(2), Rd(1)>>, <<Wr(1), Wr(1), Rd(1), Rd(1)>>}
QuickFull == {<<Wr(2), Rd(2), Rd(2)>>}
Thorough1 == {<<Wr(2), Wr(2), Rd(2), Rd(2)>>}
Thorough2 == {<<Wr(2), Rd(2), Rd(2), Rd(2)>>, <<Wr(3), Wr(3), Rd(2)>>}
ConfProgs == {<<Wr(1), Rd(1), Rd(1)>>, <<Wr(1), Wr(1), Rd(1)>>}
LiveProgs == {<<Wr(1), Rd(1), <<<<1>>>>, <<>>>>, <<Wr(1), Wr(1), <<<<1>>>>, <<>>>>}
ThrowProgs == {<<Wr(2), Rd(2), Rd(1)>>, <<Wr(1), Wr(1), Rd(2)>>}
=============================================================================

------------------------------ MODULE RcuTrace ------------------------------
EXTENDS RcuList, TraceBase
VARIABLE l
TInit == l = 1 /\ InitWith(<<>>) /\ TLCSet(1, 0)
Skip == LifeKinds \cup {"blocked", "hreg", "hrel", "hrelb", "erasing", "erased", "pushed", "fin", "finend", "destroyed", "starved", "soloyield",
                        "alloc", "construct", "destroy", "dealloc", "uaf"}
TNext ==
    /\ l <= Len(Tr)
    /\ l' = l + 1
    /\ LET e == Tr[l] IN
       \/ e.k = "reset" /\ ResetTo(e.prog)
       \* a bookkeeping step after a release-type operation is a step of the model where code follows that release
       \/ e.k = "pu" /\ e.t \in Threads /\ th[e.t].pc = "e6p" /\ Next /\ Matches(ev', e)
       \/ (e.k \in Skip \/ (e.t = 0 /\ e.k # "reset")) /\ ~(e.k = "pu" /\ e.t \in Threads /\ th[e.t].pc = "e6p") /\ UNCHANGED vars     \* the driver's construction / inspection / destruction
       \/ e.k \in EndKinds /\ e.t # 0 /\ UNCHANGED vars
       \/ e.t # 0 /\ e.k \notin (Skip \cup EndKinds \cup {"reset"}) /\ Next /\ Matches(ev', e)
    /\ Mark(l)
TSpec == TInit /\ [][TNext]_<<vars, l>>
Accepted == IF TLCGet(1) = Len(Tr) THEN TRUE ELSE Rejected(TLCGet(1) + 1)
=============================================================================

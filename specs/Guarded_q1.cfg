SPECIFICATION Spec
CONSTANTS
  Progs <- GuardedProgs
  Shareds = {FALSE}
  Enableds = {TRUE, FALSE}
  LoadShareds = {FALSE}
  MaxThrows = 0
  StoreLocked = TRUE
  ReadLocked = TRUE
  TryHonest = TRUE
VIEW View
INVARIANTS TypeOK Exclusive NoTornRead HandleTruth ReleaseOnce NoLeakedLock NoDeadlock TryNeverBlocks DisabledNeverWaits SharedNotBlockedByReaders NoLostUpdate 
CHECK_DEADLOCK FALSE

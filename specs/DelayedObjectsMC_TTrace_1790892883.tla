---- MODULE DelayedObjectsMC_TTrace_1790892883 ----
EXTENDS Sequences, TLCExt, Toolbox, DelayedObjectsMC, Naturals, TLC

_expression ==
    LET DelayedObjectsMC_TEExpression == INSTANCE DelayedObjectsMC_TEExpression
    IN DelayedObjectsMC_TEExpression!expression
----

_trace ==
    LET DelayedObjectsMC_TETrace == INSTANCE DelayedObjectsMC_TETrace
    IN DelayedObjectsMC_TETrace!trace
----

_inv ==
    ~(
        TLCGet("level") = Len(_TETrace)
        /\
        lin = ({[s |-> [fut |-> <<-1, -1, -1>>, st |-> <<"pending", "none", "none">>], st |-> <<[k |-> "pend", r |-> 0], [k |-> "none", r |-> 0]>>], [s |-> [fut |-> <<12, -1, -1>>, st |-> <<"used", "none", "none">>], st |-> <<[k |-> "done", r |-> 0], [k |-> "none", r |-> 0]>>]})
        /\
        ev = ([t |-> 1, k |-> "mlock", o |-> "pl", i |-> 1, v |-> 0, w |-> 0])
        /\
        abs = ([fut |-> <<-1, -1, -1>>, st |-> <<"used", "none", "none">>])
        /\
        th = (<<[o |-> [k |-> 1, v |-> 12, n |-> "set_copy"], opi |-> 2, pc |-> "unlock", op |-> 11, res |-> 0], [o |-> [k |-> 1, v |-> 0, n |-> "none"], opi |-> 1, pc |-> "idle", op |-> 0, res |-> 0]>>)
        /\
        claimed = (<<TRUE, FALSE, FALSE>>)
        /\
        pl = (1)
        /\
        prog = (<<<<<<1, 11, 30, 41, 61, 71, 3, 13, 23, 43, 63, 73>>, <<1, 11, 30, 41, 61, 71, 3, 13, 23, 43, 63, 73>>>>, <<<<1, 11, 30, 41, 61, 71, 3, 13, 23, 43, 63, 73>>>>>>)
    )
----

_init ==
    /\ prog = _TETrace[1].prog
    /\ pl = _TETrace[1].pl
    /\ ev = _TETrace[1].ev
    /\ abs = _TETrace[1].abs
    /\ th = _TETrace[1].th
    /\ lin = _TETrace[1].lin
    /\ claimed = _TETrace[1].claimed
----

_next ==
    /\ \E i,j \in DOMAIN _TETrace:
        /\ \/ /\ j = i + 1
              /\ i = TLCGet("level")
        /\ prog  = _TETrace[i].prog
        /\ prog' = _TETrace[j].prog
        /\ pl  = _TETrace[i].pl
        /\ pl' = _TETrace[j].pl
        /\ ev  = _TETrace[i].ev
        /\ ev' = _TETrace[j].ev
        /\ abs  = _TETrace[i].abs
        /\ abs' = _TETrace[j].abs
        /\ th  = _TETrace[i].th
        /\ th' = _TETrace[j].th
        /\ lin  = _TETrace[i].lin
        /\ lin' = _TETrace[j].lin
        /\ claimed  = _TETrace[i].claimed
        /\ claimed' = _TETrace[j].claimed

\* Uncomment the ASSUME below to write the states of the error trace
\* to the given file in Json format. Note that you can pass any tuple
\* to `JsonSerialize`. For example, a sub-sequence of _TETrace.
    \* ASSUME
    \*     LET J == INSTANCE Json
    \*         IN J!JsonSerialize("DelayedObjectsMC_TTrace_1790892883.json", _TETrace)

=============================================================================

 Note that you can extract this module `DelayedObjectsMC_TEExpression`
  to a dedicated file to reuse `expression` (the module in the 
  dedicated `DelayedObjectsMC_TEExpression.tla` file takes precedence 
  over the module `DelayedObjectsMC_TEExpression` below).

---- MODULE DelayedObjectsMC_TEExpression ----
EXTENDS Sequences, TLCExt, Toolbox, DelayedObjectsMC, Naturals, TLC

expression == 
    [
        \* To hide variables of the `DelayedObjectsMC` spec from the error trace,
        \* remove the variables below.  The trace will be written in the order
        \* of the fields of this record.
        prog |-> prog
        ,pl |-> pl
        ,ev |-> ev
        ,abs |-> abs
        ,th |-> th
        ,lin |-> lin
        ,claimed |-> claimed
        
        \* Put additional constant-, state-, and action-level expressions here:
        \* ,_stateNumber |-> _TEPosition
        \* ,_progUnchanged |-> prog = prog'
        
        \* Format the `prog` variable as Json value.
        \* ,_progJson |->
        \*     LET J == INSTANCE Json
        \*     IN J!ToJson(prog)
        
        \* Lastly, you may build expressions over arbitrary sets of states by
        \* leveraging the _TETrace operator.  For example, this is how to
        \* count the number of times a spec variable changed up to the current
        \* state in the trace.
        \* ,_progModCount |->
        \*     LET F[s \in DOMAIN _TETrace] ==
        \*         IF s = 1 THEN 0
        \*         ELSE IF _TETrace[s].prog # _TETrace[s-1].prog
        \*             THEN 1 + F[s-1] ELSE F[s-1]
        \*     IN F[_TEPosition - 1]
    ]

=============================================================================



Parsing and semantic processing can take forever if the trace below is long.
 In this case, it is advised to uncomment the module below to deserialize the
 trace from a generated binary file.

\*
\*---- MODULE DelayedObjectsMC_TETrace ----
\*EXTENDS IOUtils, DelayedObjectsMC, TLC
\*
\*trace == IODeserialize("DelayedObjectsMC_TTrace_1790892883.bin", TRUE)
\*
\*=============================================================================
\*

---- MODULE DelayedObjectsMC_TETrace ----
EXTENDS DelayedObjectsMC, TLC

trace == 
    <<
    ([lin |-> {[s |-> [fut |-> <<-1, -1, -1>>, st |-> <<"none", "none", "none">>], st |-> <<[k |-> "none", r |-> 0], [k |-> "none", r |-> 0]>>]},ev |-> [t |-> 0, k |-> "init", o |-> "", i |-> 0, v |-> 0, w |-> 0],abs |-> [fut |-> <<-1, -1, -1>>, st |-> <<"none", "none", "none">>],th |-> <<[o |-> [k |-> 1, v |-> 0, n |-> "none"], opi |-> 1, pc |-> "idle", op |-> 0, res |-> 0], [o |-> [k |-> 1, v |-> 0, n |-> "none"], opi |-> 1, pc |-> "idle", op |-> 0, res |-> 0]>>,claimed |-> <<FALSE, FALSE, FALSE>>,pl |-> 0,prog |-> <<<<<<1, 11, 30, 41, 61, 71, 3, 13, 23, 43, 63, 73>>, <<1, 11, 30, 41, 61, 71, 3, 13, 23, 43, 63, 73>>>>, <<<<1, 11, 30, 41, 61, 71, 3, 13, 23, 43, 63, 73>>>>>>]),
    ([lin |-> {[s |-> [fut |-> <<-1, -1, -1>>, st |-> <<"none", "none", "none">>], st |-> <<[k |-> "pend", r |-> 0], [k |-> "none", r |-> 0]>>], [s |-> [fut |-> <<-1, -1, -1>>, st |-> <<"pending", "none", "none">>], st |-> <<[k |-> "done", r |-> 0], [k |-> "none", r |-> 0]>>]},ev |-> [t |-> 1, k |-> "call", o |-> "getFuture1", i |-> 0, v |-> 0, w |-> 0],abs |-> [fut |-> <<-1, -1, -1>>, st |-> <<"none", "none", "none">>],th |-> <<[o |-> [k |-> 1, v |-> 0, n |-> "getFuture"], opi |-> 1, pc |-> "lock", op |-> 1, res |-> 0], [o |-> [k |-> 1, v |-> 0, n |-> "none"], opi |-> 1, pc |-> "idle", op |-> 0, res |-> 0]>>,claimed |-> <<TRUE, FALSE, FALSE>>,pl |-> 0,prog |-> <<<<<<1, 11, 30, 41, 61, 71, 3, 13, 23, 43, 63, 73>>, <<1, 11, 30, 41, 61, 71, 3, 13, 23, 43, 63, 73>>>>, <<<<1, 11, 30, 41, 61, 71, 3, 13, 23, 43, 63, 73>>>>>>]),
    ([lin |-> {[s |-> [fut |-> <<-1, -1, -1>>, st |-> <<"none", "none", "none">>], st |-> <<[k |-> "pend", r |-> 0], [k |-> "none", r |-> 0]>>], [s |-> [fut |-> <<-1, -1, -1>>, st |-> <<"pending", "none", "none">>], st |-> <<[k |-> "done", r |-> 0], [k |-> "none", r |-> 0]>>]},ev |-> [t |-> 1, k |-> "mlock", o |-> "pl", i |-> 1, v |-> 0, w |-> 0],abs |-> [fut |-> <<-1, -1, -1>>, st |-> <<"pending", "none", "none">>],th |-> <<[o |-> [k |-> 1, v |-> 0, n |-> "getFuture"], opi |-> 1, pc |-> "unlock", op |-> 1, res |-> 0], [o |-> [k |-> 1, v |-> 0, n |-> "none"], opi |-> 1, pc |-> "idle", op |-> 0, res |-> 0]>>,claimed |-> <<TRUE, FALSE, FALSE>>,pl |-> 1,prog |-> <<<<<<1, 11, 30, 41, 61, 71, 3, 13, 23, 43, 63, 73>>, <<1, 11, 30, 41, 61, 71, 3, 13, 23, 43, 63, 73>>>>, <<<<1, 11, 30, 41, 61, 71, 3, 13, 23, 43, 63, 73>>>>>>]),
    ([lin |-> {[s |-> [fut |-> <<-1, -1, -1>>, st |-> <<"none", "none", "none">>], st |-> <<[k |-> "pend", r |-> 0], [k |-> "none", r |-> 0]>>], [s |-> [fut |-> <<-1, -1, -1>>, st |-> <<"pending", "none", "none">>], st |-> <<[k |-> "done", r |-> 0], [k |-> "none", r |-> 0]>>]},ev |-> [t |-> 1, k |-> "munlock", o |-> "pl", i |-> 1, v |-> 0, w |-> 0],abs |-> [fut |-> <<-1, -1, -1>>, st |-> <<"pending", "none", "none">>],th |-> <<[o |-> [k |-> 1, v |-> 0, n |-> "getFuture"], opi |-> 1, pc |-> "ret", op |-> 1, res |-> 0], [o |-> [k |-> 1, v |-> 0, n |-> "none"], opi |-> 1, pc |-> "idle", op |-> 0, res |-> 0]>>,claimed |-> <<TRUE, FALSE, FALSE>>,pl |-> 0,prog |-> <<<<<<1, 11, 30, 41, 61, 71, 3, 13, 23, 43, 63, 73>>, <<1, 11, 30, 41, 61, 71, 3, 13, 23, 43, 63, 73>>>>, <<<<1, 11, 30, 41, 61, 71, 3, 13, 23, 43, 63, 73>>>>>>]),
    ([lin |-> {[s |-> [fut |-> <<-1, -1, -1>>, st |-> <<"pending", "none", "none">>], st |-> <<[k |-> "none", r |-> 0], [k |-> "none", r |-> 0]>>]},ev |-> [t |-> 1, k |-> "ret", o |-> "getFuture1", i |-> 0, v |-> 0],abs |-> [fut |-> <<-1, -1, -1>>, st |-> <<"pending", "none", "none">>],th |-> <<[o |-> [k |-> 1, v |-> 0, n |-> "getFuture"], opi |-> 2, pc |-> "idle", op |-> 1, res |-> 0], [o |-> [k |-> 1, v |-> 0, n |-> "none"], opi |-> 1, pc |-> "idle", op |-> 0, res |-> 0]>>,claimed |-> <<TRUE, FALSE, FALSE>>,pl |-> 0,prog |-> <<<<<<1, 11, 30, 41, 61, 71, 3, 13, 23, 43, 63, 73>>, <<1, 11, 30, 41, 61, 71, 3, 13, 23, 43, 63, 73>>>>, <<<<1, 11, 30, 41, 61, 71, 3, 13, 23, 43, 63, 73>>>>>>]),
    ([lin |-> {[s |-> [fut |-> <<-1, -1, -1>>, st |-> <<"pending", "none", "none">>], st |-> <<[k |-> "pend", r |-> 0], [k |-> "none", r |-> 0]>>], [s |-> [fut |-> <<12, -1, -1>>, st |-> <<"used", "none", "none">>], st |-> <<[k |-> "done", r |-> 0], [k |-> "none", r |-> 0]>>]},ev |-> [t |-> 1, k |-> "call", o |-> "set_copy1", i |-> 0, v |-> 12, w |-> 0],abs |-> [fut |-> <<-1, -1, -1>>, st |-> <<"pending", "none", "none">>],th |-> <<[o |-> [k |-> 1, v |-> 12, n |-> "set_copy"], opi |-> 2, pc |-> "lock", op |-> 11, res |-> 0], [o |-> [k |-> 1, v |-> 0, n |-> "none"], opi |-> 1, pc |-> "idle", op |-> 0, res |-> 0]>>,claimed |-> <<TRUE, FALSE, FALSE>>,pl |-> 0,prog |-> <<<<<<1, 11, 30, 41, 61, 71, 3, 13, 23, 43, 63, 73>>, <<1, 11, 30, 41, 61, 71, 3, 13, 23, 43, 63, 73>>>>, <<<<1, 11, 30, 41, 61, 71, 3, 13, 23, 43, 63, 73>>>>>>]),
    ([lin |-> {[s |-> [fut |-> <<-1, -1, -1>>, st |-> <<"pending", "none", "none">>], st |-> <<[k |-> "pend", r |-> 0], [k |-> "none", r |-> 0]>>], [s |-> [fut |-> <<12, -1, -1>>, st |-> <<"used", "none", "none">>], st |-> <<[k |-> "done", r |-> 0], [k |-> "none", r |-> 0]>>]},ev |-> [t |-> 1, k |-> "mlock", o |-> "pl", i |-> 1, v |-> 0, w |-> 0],abs |-> [fut |-> <<-1, -1, -1>>, st |-> <<"used", "none", "none">>],th |-> <<[o |-> [k |-> 1, v |-> 12, n |-> "set_copy"], opi |-> 2, pc |-> "unlock", op |-> 11, res |-> 0], [o |-> [k |-> 1, v |-> 0, n |-> "none"], opi |-> 1, pc |-> "idle", op |-> 0, res |-> 0]>>,claimed |-> <<TRUE, FALSE, FALSE>>,pl |-> 1,prog |-> <<<<<<1, 11, 30, 41, 61, 71, 3, 13, 23, 43, 63, 73>>, <<1, 11, 30, 41, 61, 71, 3, 13, 23, 43, 63, 73>>>>, <<<<1, 11, 30, 41, 61, 71, 3, 13, 23, 43, 63, 73>>>>>>])
    >>
----


=============================================================================

---- CONFIG DelayedObjectsMC_TTrace_1790892883 ----
CONSTANTS
    Progs <- QuickProgs
    SetUnderLock = FALSE

INVARIANT
    _inv

CHECK_DEADLOCK
    \* CHECK_DEADLOCK off because of PROPERTY or INVARIANT above.
    FALSE

INIT
    _init

NEXT
    _next

CONSTANT
    _TETrace <- _trace

ALIAS
    _expression
=============================================================================
\* Generated on Thu Oct 01 22:14:44 UTC 2026
SPECIFICATION Spec
CONSTANTS
  PredThrows = TRUE
  Progs <- QuickProgs
VIEW View
INVARIANTS TypeOK Linearizable NoDeadlock
CHECK_DEADLOCK FALSE

--------------------------------- MODULE HB ---------------------------------
(***************************************************************************)
(* C++ happens-before as vector clocks, over the common event alphabet of   *)
(* the substitution layer (every harness).  A trace monitor: it consumes    *)
(* thread spawn/join, mutex, condition-variable, atomic (with the memory    *)
(* order the code actually passed, field m: 0 relaxed 1 consume 2 acquire   *)
(* 3 release 4 acq_rel 5 seq_cst) and payload / allocator access events and *)
(* reports a data race when two conflicting non-atomic accesses are not     *)
(* ordered by happens-before.                                               *)
(*   - mutex unlock (and the release inside cv.wait) -> later lock          *)
(*   - release-or-stronger store starts a release sequence on that atomic;  *)
(*     RMWs continue it (adding their clock if release-or-stronger); a      *)
(*     relaxed store ends it (C++20); an acquire-or-stronger load / RMW     *)
(*     that reads from it joins its clock (the scheduler is sequentially    *)
(*     consistent, so a load reads the latest store)                        *)
(*   - thread creation and join                                             *)
(*   - fences: a release fence makes the later relaxed stores / RMWs of the  *)
(*     thread publish the clock it had at the fence (fr); an acquire fence   *)
(*     joins what the earlier relaxed loads / RMWs of the thread read (fa)   *)
(* Vector clocks are exactly the happens-before relation of the recorded    *)
(* execution: no false positives.                                           *)
(***************************************************************************)
EXTENDS TraceBase
VARIABLES l, vc, rel, endc, lastw, reads, raced, mute, fr, fa
hv == <<vc, rel, endc, lastw, reads, raced, mute>>
MaxT == 8
TT == 0..MaxT
Zero == [t \in TT |-> 0]
Join(a, b) == [t \in TT |-> IF a[t] >= b[t] THEN a[t] ELSE b[t]]
Leq(a, b) == \A t \in TT : a[t] <= b[t]
Key(e) == <<e.o, e.i>>
Get(f, k) == IF k \in DOMAIN f THEN f[k] ELSE Zero
Put(f, k, v) == [x \in DOMAIN f \cup {k} |-> IF x = k THEN v ELSE f[x]]
Tick(t) == [vc EXCEPT ![t][t] = @ + 1]

VC0 == [t \in TT |-> [u \in TT |-> IF u = t THEN 1 ELSE 0]]
TInit == l = 1 /\ vc = VC0 /\ rel = <<>> /\ endc = <<>> /\ lastw = <<>> /\ reads = <<>> /\ raced = {} /\ mute = FALSE /\ fr = [t \in TT |-> Zero] /\ fa = [t \in TT |-> Zero] /\ TLCSet(1, 0)

Acq(m) == m \in {1, 2, 4, 5}
Rel(m) == m \in {3, 4, 5}

\* acquire side: thread t joins the clock stored under key k
AcquireFrom(t, k) == [vc EXCEPT ![t] = Join(@, Get(rel, k))]
\* release side: clock of t joined into key k, then t ticks
ReleaseTo(v, t, k) == Put(rel, k, Join(Get(rel, k), v[t]))

\* data accesses on location loc (a tuple) by thread t; wr = is it a write.  Pure: maps a record
\* [lastw, reads, raced, bad] to the next one so that several accesses of one event can be chained.
RaceFree(s, t, loc, wr) ==
    /\ Leq(Get(s.lastw, loc), vc[t])
    /\ wr => Leq(Get(s.reads, loc), vc[t])
Acc(s, t, loc, wr) ==
    LET ok == RaceFree(s, t, loc, wr) \/ loc \in s.raced IN
    [lastw |-> IF wr THEN Put(s.lastw, loc, [u \in TT |-> IF u = t THEN vc[t][t] ELSE 0]) ELSE s.lastw,
     reads |-> IF wr THEN Put(s.reads, loc, Zero) ELSE Put(s.reads, loc, [Get(s.reads, loc) EXCEPT ![t] = vc[t][t]]),
     raced |-> IF ok THEN s.raced ELSE s.raced \cup {loc},
     bad |-> IF ok THEN s.bad ELSE s.bad \cup {loc}]
Cur == [lastw |-> lastw, reads |-> reads, raced |-> raced, bad |-> {}]
Commit(s, t, what) ==
    /\ mute' = mute
    /\ (s.bad # {} /\ ~mute) => MonViol(l, "C07: data race: " \o what \o " by thread " \o ToString(t) \o " on " \o ToString(s.bad)
                                  \o " is not ordered by happens-before after a conflicting access")
    /\ lastw' = s.lastw /\ reads' = s.reads /\ raced' = s.raced

\* (ctor / dtor of shared_ptr-managed payload versions are ordered by the uninstrumented reference counts: not judged here)
WriteKinds == {"wb", "we", "pw", "construct", "destroy", "dealloc", "alloc"}
CopyKinds == {"cb", "ce", "kb", "ke"}   \* write of the destination (o, i), read of the source (o, u)
ReadKinds == {"rb", "re", "pr"}
LockKinds == {"mlock", "slock"}
TryKinds == {"mtry", "mtimed", "stry", "stimed"}
UnlockKinds == {"munlock", "sunlock"}

TNext ==
    /\ l <= Len(Tr)
    /\ l' = l + 1
    /\ LET e == Tr[l]
           t == IF e.t \in TT THEN e.t ELSE 0 IN
       /\ fr' = IF e.k = "reset" THEN [u \in TT |-> Zero]
                ELSE IF e.k = "fence" /\ Rel(e.m) THEN [fr EXCEPT ![t] = IF Acq(e.m) THEN Join(vc[t], fa[t]) ELSE vc[t]] ELSE fr
       /\ fa' = IF e.k = "reset" THEN [u \in TT |-> Zero]
                ELSE IF (e.k \in {"ald", "arm"} \/ e.k = "cas") /\ ~Acq(e.m) THEN [fa EXCEPT ![t] = Join(@, Get(rel, Key(e)))]
                ELSE IF e.k = "fence" /\ Acq(e.m) THEN [fa EXCEPT ![t] = Zero] ELSE fa
    /\ LET e == Tr[l]
           t == IF e.t \in TT THEN e.t ELSE 0 IN
       CASE e.k = "reset" ->
              /\ vc' = VC0 /\ rel' = <<>> /\ endc' = <<>> /\ lastw' = <<>> /\ reads' = <<>> /\ raced' = {}
              \* wrappers constructed with locking disabled promise nothing about races
              /\ mute' = ("enabled" \in DOMAIN e.p /\ e.p.enabled = 0)
         [] e.k = "spawn" ->
              /\ vc' = [vc EXCEPT ![e.v] = Join(@, vc[0]), ![0][0] = @ + 1]
              /\ UNCHANGED <<rel, endc, lastw, reads, raced, mute>>
         [] e.k = "end" -> endc' = Put(endc, t, vc[t]) /\ UNCHANGED <<vc, rel, lastw, reads, raced, mute>>
         [] e.k = "join" ->
              /\ vc' = [vc EXCEPT ![0] = [u \in TT |-> LET s == {vc[0][u]} \cup {endc[x][u] : x \in DOMAIN endc}
                                                       IN CHOOSE m \in s : \A y \in s : y <= m]]
              /\ UNCHANGED <<rel, endc, lastw, reads, raced, mute>>
         [] e.k \in LockKinds \/ (e.k \in TryKinds /\ e.v = 1) ->
              vc' = AcquireFrom(t, Key(e)) /\ UNCHANGED <<rel, endc, lastw, reads, raced, mute>>
         [] e.k \in UnlockKinds ->
              rel' = ReleaseTo(vc, t, Key(e)) /\ vc' = Tick(t) /\ UNCHANGED <<endc, lastw, reads, raced, mute>>
         [] e.k = "cvwait" ->
              rel' = ReleaseTo(vc, t, <<e.x, e.i>>) /\ vc' = Tick(t) /\ UNCHANGED <<endc, lastw, reads, raced, mute>>
         [] e.k = "ald" ->
              /\ vc' = IF Acq(e.m) THEN AcquireFrom(t, Key(e)) ELSE vc
              /\ UNCHANGED <<rel, endc, lastw, reads, raced, mute>>
         [] e.k = "ast" ->
              /\ rel' = IF Rel(e.m) THEN Put(rel, Key(e), vc[t]) ELSE Put(rel, Key(e), fr[t])
              /\ vc' = IF Rel(e.m) THEN Tick(t) ELSE vc
              /\ UNCHANGED <<endc, lastw, reads, raced, mute>>
         [] e.k = "arm" \/ (e.k = "cas" /\ e.u = 1) ->
              LET v1 == IF Acq(e.m) THEN AcquireFrom(t, Key(e)) ELSE vc IN
              /\ rel' = IF Rel(e.m) THEN Put(rel, Key(e), Join(Get(rel, Key(e)), v1[t])) ELSE Put(rel, Key(e), Join(Get(rel, Key(e)), fr[t]))
              /\ vc' = IF Rel(e.m) THEN [v1 EXCEPT ![t][t] = @ + 1] ELSE v1
              /\ UNCHANGED <<endc, lastw, reads, raced, mute>>
         [] e.k = "cas" /\ e.u = 0 ->
              /\ vc' = IF Acq(e.m) THEN AcquireFrom(t, Key(e)) ELSE vc
              /\ UNCHANGED <<rel, endc, lastw, reads, raced, mute>>
         [] e.k = "fence" ->
              /\ vc' = LET v1 == IF Acq(e.m) THEN [vc EXCEPT ![t] = Join(@, fa[t])] ELSE vc IN
                       IF Rel(e.m) THEN [v1 EXCEPT ![t][t] = @ + 1] ELSE v1
              /\ UNCHANGED <<rel, endc, lastw, reads, raced, mute>>
         [] e.k \in WriteKinds -> Commit(Acc(Cur, t, Key(e), TRUE), t, e.k) /\ UNCHANGED <<vc, rel, endc>>
         [] e.k \in ReadKinds -> Commit(Acc(Cur, t, Key(e), FALSE), t, e.k) /\ UNCHANGED <<vc, rel, endc>>
         [] e.k \in CopyKinds -> Commit(Acc(Acc(Cur, t, Key(e), TRUE), t, <<e.o, e.u>>, FALSE), t, e.k) /\ UNCHANGED <<vc, rel, endc>>
         [] OTHER -> UNCHANGED hv
    /\ Mark(l)
TSpec == TInit /\ [][TNext]_<<l, hv, fr, fa>>
Accepted == IF TLCGet(1) = Len(Tr) THEN TRUE ELSE Rejected(TLCGet(1) + 1)
=============================================================================

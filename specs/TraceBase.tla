----------------------------- MODULE TraceBase -----------------------------
(* Common definitions for trace specifications and property monitors.       *)
(* The trace is an ndjson file (one event per line) named by env TRACE.     *)
EXTENDS Naturals, Integers, Sequences, FiniteSets, Json, IOUtils, TLC

Tr == ndJsonDeserialize(IOEnv.TRACE)

(* thread life-cycle and bookkeeping events that algorithm-level trace      *)
(* specifications skip (they are consumed by Sync/HB monitors)              *)
LifeKinds == {"spawn", "start", "end", "join", "done", "enabled", "pu"}   \* pu: bookkeeping step after a lock release
(* events that end an execution abnormally                                  *)
EndKinds  == {"deadlock", "budget", "diverged", "terminate", "hang", "crash"}

(* e is a record built by the specification; r a record read from the trace *)
Matches(e, r) == \A f \in DOMAIN e : e[f] = r[f]

(* reporting (single-line strings, parsed by the orchestrator)               *)
MonViol(n, what) == PrintT("MONVIOL|" \o ToString(n) \o "|" \o what)
Rejected(n) == Print("TRACE-REJECTED|" \o ToString(n), FALSE)

(* high-water mark of consumed lines: register 1; needs -workers 1          *)
Mark(n) == IF TLCGet(1) < n THEN TLCSet(1, n) ELSE TRUE
=============================================================================

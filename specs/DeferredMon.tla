----------------------------- MODULE DeferredMon -----------------------------
(* Property monitor for deferred_guarded over API-level and payload events.    *)
(*  C06: every accepted modification is applied at most once, exclusively, in  *)
(*       an order respecting real time and each thread's own order; after the  *)
(*       submitters returned one lock_shared applies all of them; each         *)
(*       modify_async future holds its function's result or exception          *)
(*  C02: no modification runs while a shared handle is alive (and vice versa)  *)
(*  C08: try forms return null only if the lock was in use; never block        *)
(*  C20: an exception of a queued functor is captured, nothing else is lost    *)
EXTENDS TraceBase
VARIABLES l, applied, callAt, retAt, thrown, hs, wwin, rwin, inop, use1, clean, pendq, cur, hp
mv == <<applied, callAt, retAt, thrown, hs, wwin, rwin, inop, use1, clean, pendq, cur>>
MaxT == 8
TT == 1..MaxT
ZT == [t \in 0..MaxT |-> 0]
Viol(what) == MonViol(l, what)
Get(f, k, d) == IF k \in DOMAIN f THEN f[k] ELSE d
Put(f, k, v) == [x \in DOMAIN f \cup {k} |-> IF x = k THEN v ELSE f[x]]
SeqSet(q) == {q[j] : j \in 1..Len(q)}
Others(t) == TT \ {t}
TryOps == {"try_shared_read", "timed_shared_read"}
Readers == {"shared_read", "try_shared_read", "timed_shared_read", "load"}
\* value after the modifications in q were applied in order
RECURSIVE Fold(_, _)
Upd(v, d) == IF v < 0 \/ v >= 32768 THEN d ELSE 8 * v + d
Fold(v, q) == IF q = <<>> THEN v ELSE Fold(Upd(v, Head(q)), Tail(q))
TInit == /\ l = 1 /\ applied = <<>> /\ callAt = <<>> /\ retAt = <<>> /\ thrown = {} /\ hs = ZT /\ wwin = ZT /\ rwin = ZT
         /\ inop = [t \in 0..MaxT |-> ""] /\ use1 = [t \in 0..MaxT |-> FALSE] /\ clean = [t \in 0..MaxT |-> FALSE] /\ pendq = [t \in 0..MaxT |-> 0] /\ cur = ZT
         /\ hp = FALSE /\ TLCSet(1, 0)
TNext ==
    /\ l <= Len(Tr)
    /\ l' = l + 1
    \* hp: the execution ran with help=1 (a lone thread's wait for a lock held inside library code is bridged by the scheduler),
    \* the precondition of the "blocked merely by readers" verdict
    /\ hp' = IF Tr[l].k = "reset" THEN ("help" \in DOMAIN Tr[l].p /\ Tr[l].p.help = 1 /\ Tr[l].p.mk \in {2, 3}) ELSE hp   \* (plain mutexes: readers exclude each other)
    /\ LET e == Tr[l]
           t == e.t IN
       CASE e.k = "reset" ->
              /\ applied' = <<>> /\ callAt' = <<>> /\ retAt' = <<>> /\ thrown' = {} /\ hs' = ZT /\ wwin' = ZT /\ rwin' = ZT
              /\ inop' = [u \in 0..MaxT |-> ""] /\ use1' = [u \in 0..MaxT |-> FALSE] /\ clean' = [u \in 0..MaxT |-> FALSE]
              /\ pendq' = [u \in 0..MaxT |-> 0] /\ cur' = ZT
         [] e.k = "call" ->
              /\ inop' = [inop EXCEPT ![t] = e.o] /\ use1' = [use1 EXCEPT ![t] = TRUE]
              /\ clean' = [u \in 0..MaxT |-> IF u = t THEN \A x \in Others(t) : ~use1[x] ELSE FALSE]
              /\ callAt' = IF e.v # 0 THEN Put(callAt, e.v, l) ELSE callAt
              /\ pendq' = [pendq EXCEPT ![t] = e.v]
              /\ UNCHANGED <<applied, retAt, thrown, hs, wwin, rwin, cur>>
         [] e.k = "ret" ->
              /\ (e.o \in TryOps /\ e.v = -1 /\ clean[t]) => Viol("C08: try/timed shared acquisition returned a null handle although nobody else used the object during the call")
              /\ retAt' = IF pendq[t] # 0 THEN Put(retAt, pendq[t], l) ELSE retAt
              /\ inop' = [inop EXCEPT ![t] = ""] /\ use1' = [use1 EXCEPT ![t] = FALSE]
              /\ UNCHANGED <<applied, callAt, thrown, hs, wwin, rwin, clean, pendq, cur>>
         [] e.k = "hget" ->
              /\ (\E u \in Others(t) : wwin[u] # 0) => Viol("C02: shared handle granted while a modification is running")
              /\ hs' = [hs EXCEPT ![t] = 1] /\ UNCHANGED <<applied, callAt, retAt, thrown, wwin, rwin, inop, use1, clean, pendq, cur>>
         [] e.k = "hrel" -> hs' = [hs EXCEPT ![t] = 0] /\ UNCHANGED <<applied, callAt, retAt, thrown, wwin, rwin, inop, use1, clean, pendq, cur>>
         [] e.k = "wb" /\ e.i = 1 ->
              /\ (\E u \in Others(t) : hs[u] # 0) => Viol("C02: a modification runs while a shared handle is alive (C06: not exclusive)")
              /\ (\E u \in Others(t) : wwin[u] # 0 \/ rwin[u] # 0) => Viol("C06: a modification overlaps another access")
              /\ wwin' = [wwin EXCEPT ![t] = 1] /\ UNCHANGED <<applied, callAt, retAt, thrown, hs, rwin, inop, use1, clean, pendq, cur>>
         [] e.k = "we" /\ e.i = 1 ->
              LET d == e.v % 8 IN
              /\ (d \in SeqSet(applied)) => Viol("C06: a modification was executed twice")
              /\ (d \notin DOMAIN callAt) => Viol("C06: a modification that was never submitted was executed")
              \* real-time / per-thread order: whatever had returned before this one was submitted is already applied
              /\ (d \in DOMAIN callAt /\ \E a \in DOMAIN retAt : retAt[a] < callAt[d] /\ a \notin SeqSet(applied) /\ a \notin thrown)
                    => Viol("C06: modifications were applied in an order that contradicts real time or the submitting thread's order")
              /\ applied' = Append(applied, d) /\ wwin' = [wwin EXCEPT ![t] = 0] /\ cur' = [cur EXCEPT ![t] = 0]
              /\ UNCHANGED <<callAt, retAt, thrown, hs, rwin, inop, use1, clean, pendq>>
         [] e.k = "task" -> cur' = [cur EXCEPT ![t] = e.i] /\ UNCHANGED <<applied, callAt, retAt, thrown, hs, wwin, rwin, inop, use1, clean, pendq>>
         [] e.k = "throw" ->
              /\ wwin' = [wwin EXCEPT ![t] = 0] /\ thrown' = thrown \cup {cur[t]} /\ cur' = [cur EXCEPT ![t] = 0]
              /\ UNCHANGED <<applied, callAt, retAt, hs, rwin, inop, use1, clean, pendq>>
         [] e.k \in {"rb", "kb"} ->
              /\ (\E u \in Others(t) : wwin[u] # 0) => Viol("C02: a read overlaps a modification")
              /\ rwin' = [rwin EXCEPT ![t] = 1] /\ UNCHANGED <<applied, callAt, retAt, thrown, hs, wwin, inop, use1, clean, pendq, cur>>
         [] e.k \in {"re", "ke"} ->
              /\ (e.k = "re" /\ e.v # e.w) => Viol("C02: torn read")
              /\ rwin' = [rwin EXCEPT ![t] = 0] /\ UNCHANGED <<applied, callAt, retAt, thrown, hs, wwin, inop, use1, clean, pendq, cur>>
         [] e.k = "final" ->
              /\ (e.v = -9) => Viol("C20: the exception of a queued functor escaped into an unrelated caller (C06)")
              /\ (SeqSet(applied) \cup thrown # DOMAIN callAt) => Viol("C06: an accepted modification was stranded: not applied by the next lock_shared after the submitters returned")
              /\ (e.v >= 0 /\ Len(applied) <= 5 /\ e.v # Fold(0, applied)) => Viol("C06: the final value is not the result of the applied modifications")
              /\ UNCHANGED mv
         [] e.k = "fut" ->
              /\ (e.w = 0) => Viol("C06: a modify_async future is not ready after the queue was drained")
              /\ (e.v = -1 /\ e.i \notin thrown) => Viol("C06: a future holds an exception although its function did not throw")
              /\ (e.v = -2) => Viol("C06: a modify_async future holds a broken promise (C20)")
              /\ (e.v >= 0 /\ e.v % 8 # e.i) => Viol("C06: a modify_async future does not hold its own function's result")
              /\ (e.v >= 0 /\ e.i \notin SeqSet(applied)) => Viol("C06: a future reports a result although its modification was not applied")
              /\ UNCHANGED mv
         [] e.k = "starved" ->
              /\ (inop[t] \in TryOps) => Viol("C08: a try/timed shared acquisition blocks")
              \* cur[u] # 0: u is inside a modification functor (user code under the exclusive lock): the only thing a reader may wait for
              /\ (hp /\ inop[t] \in Readers \ TryOps /\ \A u \in Others(t) : cur[u] = 0)
                    => Viol("C02: a shared acquisition is blocked although no modification is running (a reader blocked merely by readers)")
              /\ UNCHANGED mv
         [] e.k \in {"deadlock", "budget"} -> Viol("C06: an operation never completes (deadlock)") /\ UNCHANGED mv
         [] e.k \in {"crash", "terminate", "escaped"} -> Viol("C06: crash or escaped exception (C20)") /\ UNCHANGED mv
         [] OTHER -> UNCHANGED mv
    /\ Mark(l)
TSpec == TInit /\ [][TNext]_<<l, mv, hp>>
Accepted == IF TLCGet(1) = Len(Tr) THEN TRUE ELSE Rejected(TLCGet(1) + 1)
=============================================================================

----------------------------- MODULE TriggerLin -----------------------------
(***************************************************************************)
(* What C11 states, as a sequential object plus a linearizability checker   *)
(* in "set of configurations" form (deterministic, linear in the history).  *)
(*                                                                         *)
(* Abstract state: a (activated), g (triggered since the last activation).  *)
(* Operation codes: 0 activate 1 trigger 2 wait 3 wait_for 4 waitActivation *)
(*   5 wait_forActivation 6 reset 7 isActive 8 isTriggered                  *)
(* A configuration is [a, g, st] where st[t] is the status of thread t's    *)
(* current operation: NONE, PEND (called, no effect yet), OPEN (reset that  *)
(* has begun: it may fire trigger effects), or its result (>= 0) once it    *)
(* has taken effect.                                                        *)
(*  - trigger: on inactive: no effect, 0; on active: result 1 and - a        *)
(*    separate step, as in the code: the store may land after a reset and   *)
(*    re-activation that happened meanwhile - g := TRUE                     *)
(*  - activate: g := FALSE, then (a separate step, as in the code) a := TRUE, *)
(*    or a no-op when already active; its result is not constrained by C11   *)
(*    (normalised to 0)                                                      *)
(*  - reset: on inactive nothing; on active any number of trigger effects   *)
(*    then a := FALSE ("cause the trigger to occur and then be reset")      *)
(*  - wait takes effect only when ~a \/ g; wait_for returns 0 only when     *)
(*    a /\ ~g; waitActivation only when a; wait_forActivation 0 only if ~a  *)
(*  - a timed form can answer 0 only after it gave up (its time-out): codes  *)
(*    13 / 15 are 3 / 5 after the give-up; before it only the answer 1 can   *)
(*    take effect ("false only if the event had not happened when they gave  *)
(*    up")                                                                   *)
(***************************************************************************)
EXTENDS Naturals, Integers, FiniteSets
NONE == -1
PEND == -2
OPEN == -3
OPENT == -5     \* trigger() that found the variable active and has not yet stored `triggered` (check and store are separate steps)
OPENA == -4     \* activate() that has cleared `triggered` and not yet set `activated` (its two effects are separate steps of the code)

Set(c, t, v) == [c EXCEPT !.st[t] = v]
B(b) == IF b THEN 1 ELSE 0

\* one effect step of thread t's pending operation o in configuration c
Eff(c, t, o) ==
  IF c.st[t] = PEND THEN
    CASE o = 0 -> {[a |-> c.a, g |-> FALSE, st |-> [c.st EXCEPT ![t] = OPENA]]} \cup (IF c.a THEN {Set(c, t, 0)} ELSE {})
      [] o = 1 -> IF c.a THEN {Set(c, t, OPENT)} ELSE {Set(c, t, 0)}
      [] o = 2 -> IF ~c.a \/ c.g THEN {Set(c, t, 1)} ELSE {}
      [] o = 3 -> IF ~c.a \/ c.g THEN {Set(c, t, 1)} ELSE {}
      \* after the give-up: 0 whenever the event has not happened (also when the variable was deactivated meanwhile)
      [] o = 13 -> (IF ~c.a \/ c.g THEN {Set(c, t, 1)} ELSE {}) \cup (IF ~c.g THEN {Set(c, t, 0)} ELSE {})
      [] o = 4 -> IF c.a THEN {Set(c, t, 0)} ELSE {}
      [] o = 5 -> IF c.a THEN {Set(c, t, 1)} ELSE {}
      [] o = 15 -> IF c.a THEN {Set(c, t, 1)} ELSE {Set(c, t, 0)}
      [] o = 6 -> IF c.a THEN {Set(c, t, OPEN)} ELSE {Set(c, t, 0)}
      [] o = 7 -> {Set(c, t, B(c.a))}
      [] o = 8 -> {Set(c, t, B(c.g))}
      [] OTHER -> {}
  ELSE IF c.st[t] = OPENT THEN
    {[a |-> c.a, g |-> TRUE, st |-> [c.st EXCEPT ![t] = 1]]}
  ELSE IF c.st[t] = OPENA THEN
    {[a |-> TRUE, g |-> c.g, st |-> [c.st EXCEPT ![t] = 0]]}
  ELSE IF c.st[t] = OPEN THEN
    \* reset in progress: a trigger effect, or the final deactivation
    \* (the trigger effect was decided when the reset saw the variable active: like trigger()'s store it may land after another
    \* thread's reset and re-activation)
    {[a |-> c.a, g |-> TRUE, st |-> c.st], [a |-> FALSE, g |-> c.g, st |-> [c.st EXCEPT ![t] = 0]]}
  ELSE {}

Succ(c, ops) == UNION {Eff(c, t, ops[t]) : t \in DOMAIN c.st}

RECURSIVE Close(_, _)
Close(C, ops) == LET N == C \cup UNION {Succ(c, ops) : c \in C} IN IF N = C THEN C ELSE Close(N, ops)

LinInit(a0, T) == {[a |-> a0, g |-> FALSE, st |-> [t \in T |-> NONE]]}
\* thread t calls an operation (ops already maps t to its code)
LinCall(C, t, ops) == Close({Set(c, t, PEND) : c \in C}, ops)
\* thread t's timed wait gave up (ops already maps t to its code + 10): answers 0 may take effect from now on
LinGiveUp(C, ops) == Close(C, ops)
\* normalised result: activate's result is unconstrained
Norm(o, r) == IF o = 0 THEN 0 ELSE r
\* thread t returns r from operation o
LinRet(C, t, o, r, ops) == {Set(c, t, NONE) : c \in {d \in C : d.st[t] = Norm(o, r)}}

\* could the pending operation o still take effect in c (i.e. is its caller owed a return)?
Owed(o, c) == CASE o = 2 -> ~c.a \/ c.g
                [] o = 4 -> c.a
                [] OTHER -> TRUE
\* quiescent linearizability: some linearization of what returned leaves every operation of the
\* stuck threads S pending, without effect, and not owed anything
QuiescentOK(C, S, ops) == \E c \in C : \A t \in S : c.st[t] = PEND /\ ~Owed(ops[t], c)
=============================================================================

SPECIFICATION TSpec
CONSTANTS
  Progs = {}
  NullCheckInDtor = TRUE
  MoveEmpties = TRUE
  AssignSwaps = FALSE
INVARIANTS FalseUntilFirstDestroy PollTruth
POSTCONDITION Accepted
CHECK_DEADLOCK FALSE

SPECIFICATION TSpec
CONSTANTS
  Progs = {}
  NullCheckInDtor = TRUE
  MoveEmpties = TRUE
INVARIANTS FalseUntilFirstDestroy PollTruth
POSTCONDITION Accepted
CHECK_DEADLOCK FALSE

----------------------------- MODULE BarrierMon -----------------------------
(* Property monitor for C09 over API-level events (call / ret / quiescence). *)
(* Participants are the N threads the barrier was constructed for; a thread  *)
(* that called wait_and_drop in round r takes no part in rounds > r.         *)
(*  - the n-th wait of a thread returns only when every other current        *)
(*    participant has made (called) its n-th arrival;                        *)
(*  - when nothing can move any more, no thread is still inside round n      *)
(*    although every current participant has arrived in round n.             *)
EXTENDS TraceBase
VARIABLES l, n, round, inop, dropR, blk
MaxT == 16
Z == [t \in 0..MaxT |-> 0]
TInit == l = 1 /\ n = 0 /\ round = Z /\ inop = [t \in 0..MaxT |-> ""] /\ dropR = Z /\ blk = {} /\ TLCSet(1, 0)
Viol(what) == MonViol(l, what)
AllIn(r) == \A u \in 1..n : round[u] >= r \/ (dropR[u] # 0 /\ dropR[u] < r)
TNext ==
    /\ l <= Len(Tr)
    /\ l' = l + 1
    /\ LET e == Tr[l] IN
       CASE e.k = "reset" ->
              n' = Len(e.prog) /\ round' = Z /\ inop' = [t \in 0..MaxT |-> ""] /\ dropR' = Z /\ blk' = {}
         [] e.k = "call" ->
              /\ round' = [round EXCEPT ![e.t] = @ + 1]
              /\ inop' = [inop EXCEPT ![e.t] = e.o]
              /\ dropR' = IF e.o = "wait_and_drop" THEN [dropR EXCEPT ![e.t] = round[e.t] + 1] ELSE dropR
              /\ UNCHANGED <<n, blk>>
         [] e.k = "ret" ->
              /\ ~AllIn(round[e.t]) => Viol("wait returned before all participants arrived in its generation")
              /\ inop' = [inop EXCEPT ![e.t] = ""]
              /\ UNCHANGED <<n, round, dropR, blk>>
         [] e.k = "blocked" -> blk' = blk \cup {e.t} /\ UNCHANGED <<n, round, inop, dropR>>
         [] e.k = "deadlock" ->
              /\ (\E t \in blk : inop[t] # "" /\ AllIn(round[t])) => Viol("lost wake-up: all participants arrived but a waiter is never released")
              /\ UNCHANGED <<n, round, inop, dropR, blk>>
         [] e.k \in {"crash", "terminate"} -> Viol("crash") /\ UNCHANGED <<n, round, inop, dropR, blk>>
         [] OTHER -> UNCHANGED <<n, round, inop, dropR, blk>>
    /\ Mark(l)
TSpec == TInit /\ [][TNext]_<<l, n, round, inop, dropR, blk>>
Accepted == IF TLCGet(1) = Len(Tr) THEN TRUE ELSE Rejected(TLCGet(1) + 1)
=============================================================================

SPECIFICATION Spec
CONSTANTS
  Progs <- ConfProgs
  Actives = {TRUE, FALSE}
  Spurious = TRUE
  Timeouts = TRUE
  TrigLocked = TRUE
  ClearFirst = TRUE
INVARIANTS TypeOK Linearizable NoLostWakeup NoLockDeadlock
CHECK_DEADLOCK FALSE

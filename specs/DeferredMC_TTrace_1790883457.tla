---- MODULE DeferredMC_TTrace_1790883457 ----
EXTENDS Sequences, TLCExt, Toolbox, DeferredMC, Naturals, TLC

_expression ==
    LET DeferredMC_TEExpression == INSTANCE DeferredMC_TEExpression
    IN DeferredMC_TEExpression!expression
----

_trace ==
    LET DeferredMC_TETrace == INSTANCE DeferredMC_TETrace
    IN DeferredMC_TETrace!trace
----

_inv ==
    ~(
        TLCGet("level") = Len(_TETrace)
        /\
        lm = (0)
        /\
        shared = (TRUE)
        /\
        ev = ([k |-> "sunlock", i |-> 1, t |-> 3, o |-> "m", v |-> 0, w |-> 0])
        /\
        gh = ([applied |-> <<>>, returned |-> {}, snap |-> <<{}, {}, {}, {}, {}, {}, {}, {}>>, accepted |-> {1, 3}, thrown |-> {}, thr |-> 0, nid |-> 2])
        /\
        th = ()
        /\
        pw = (FALSE)
        /\
        mx = ([x |-> 0, s |-> {}])
        /\
        cp = ([b |-> 0, a |-> 0])
        /\
        prog = (<<<<<<0, 1>>, <<0, 1>>>>, <<<<0, 1>>>>, <<<<2, 3>>, <<2, 3>>>>>>)
        /\
        pend = (<<>>)
    )
----

_init ==
    /\ prog = _TETrace[1].prog
    /\ lm = _TETrace[1].lm
    /\ mx = _TETrace[1].mx
    /\ shared = _TETrace[1].shared
    /\ cp = _TETrace[1].cp
    /\ pend = _TETrace[1].pend
    /\ pw = _TETrace[1].pw
    /\ ev = _TETrace[1].ev
    /\ gh = _TETrace[1].gh
    /\ th = _TETrace[1].th
----

_next ==
    /\ \E i,j \in DOMAIN _TETrace:
        /\ \/ /\ j = i + 1
              /\ i = TLCGet("level")
        /\ prog  = _TETrace[i].prog
        /\ prog' = _TETrace[j].prog
        /\ lm  = _TETrace[i].lm
        /\ lm' = _TETrace[j].lm
        /\ mx  = _TETrace[i].mx
        /\ mx' = _TETrace[j].mx
        /\ shared  = _TETrace[i].shared
        /\ shared' = _TETrace[j].shared
        /\ cp  = _TETrace[i].cp
        /\ cp' = _TETrace[j].cp
        /\ pend  = _TETrace[i].pend
        /\ pend' = _TETrace[j].pend
        /\ pw  = _TETrace[i].pw
        /\ pw' = _TETrace[j].pw
        /\ ev  = _TETrace[i].ev
        /\ ev' = _TETrace[j].ev
        /\ gh  = _TETrace[i].gh
        /\ gh' = _TETrace[j].gh
        /\ th  = _TETrace[i].th
        /\ th' = _TETrace[j].th

\* Uncomment the ASSUME below to write the states of the error trace
\* to the given file in Json format. Note that you can pass any tuple
\* to `JsonSerialize`. For example, a sub-sequence of _TETrace.
    \* ASSUME
    \*     LET J == INSTANCE Json
    \*         IN J!JsonSerialize("DeferredMC_TTrace_1790883457.json", _TETrace)

=============================================================================

 Note that you can extract this module `DeferredMC_TEExpression`
  to a dedicated file to reuse `expression` (the module in the 
  dedicated `DeferredMC_TEExpression.tla` file takes precedence 
  over the module `DeferredMC_TEExpression` below).

---- MODULE DeferredMC_TEExpression ----
EXTENDS Sequences, TLCExt, Toolbox, DeferredMC, Naturals, TLC

expression == 
    [
        \* To hide variables of the `DeferredMC` spec from the error trace,
        \* remove the variables below.  The trace will be written in the order
        \* of the fields of this record.
        prog |-> prog
        ,lm |-> lm
        ,mx |-> mx
        ,shared |-> shared
        ,cp |-> cp
        ,pend |-> pend
        ,pw |-> pw
        ,ev |-> ev
        ,gh |-> gh
        ,th |-> th
        
        \* Put additional constant-, state-, and action-level expressions here:
        \* ,_stateNumber |-> _TEPosition
        \* ,_progUnchanged |-> prog = prog'
        
        \* Format the `prog` variable as Json value.
        \* ,_progJson |->
        \*     LET J == INSTANCE Json
        \*     IN J!ToJson(prog)
        
        \* Lastly, you may build expressions over arbitrary sets of states by
        \* leveraging the _TETrace operator.  For example, this is how to
        \* count the number of times a spec variable changed up to the current
        \* state in the trace.
        \* ,_progModCount |->
        \*     LET F[s \in DOMAIN _TETrace] ==
        \*         IF s = 1 THEN 0
        \*         ELSE IF _TETrace[s].prog # _TETrace[s-1].prog
        \*             THEN 1 + F[s-1] ELSE F[s-1]
        \*     IN F[_TEPosition - 1]
    ]

=============================================================================



Parsing and semantic processing can take forever if the trace below is long.
 In this case, it is advised to uncomment the module below to deserialize the
 trace from a generated binary file.

\*
\*---- MODULE DeferredMC_TETrace ----
\*EXTENDS IOUtils, DeferredMC, TLC
\*
\*trace == IODeserialize("DeferredMC_TTrace_1790883457.bin", TRUE)
\*
\*=============================================================================
\*

---- MODULE DeferredMC_TETrace ----
EXTENDS DeferredMC, TLC

trace == 
    <<
    ([lm |-> 0,shared |-> TRUE,ev |-> [k |-> "init", i |-> 0, t |-> 0, o |-> "", v |-> 0, w |-> 0],gh |-> [applied |-> <<>>, returned |-> {}, snap |-> <<{}, {}, {}, {}, {}, {}, {}, {}>>, accepted |-> {}, thrown |-> {}, thr |-> 0, nid |-> 2],th |-> <<[d |-> 0, opi |-> 1, pc |-> "idle", op |-> 0, res |-> 0, loc |-> <<>>, cur |-> 0, ra |-> 0, after |-> "", tmp |-> 0], [d |-> 0, opi |-> 1, pc |-> "idle", op |-> 0, res |-> 0, loc |-> <<>>, cur |-> 0, ra |-> 0, after |-> "", tmp |-> 0], [d |-> 0, opi |-> 1, pc |-> "idle", op |-> 0, res |-> 0, loc |-> <<>>, cur |-> 0, ra |-> 0, after |-> "", tmp |-> 0]>>,pw |-> FALSE,mx |-> [x |-> 0, s |-> {}],cp |-> [b |-> 0, a |-> 0],prog |-> <<<<<<0, 1>>, <<0, 1>>>>, <<<<0, 1>>>>, <<<<2, 3>>, <<2, 3>>>>>>,pend |-> <<>>]),
    ([lm |-> 0,shared |-> TRUE,ev |-> [k |-> "call", i |-> 0, t |-> 1, o |-> "modify_detach", v |-> 1, w |-> 0],gh |-> [applied |-> <<>>, returned |-> {}, snap |-> <<{}, {}, {}, {}, {}, {}, {}, {}>>, accepted |-> {1}, thrown |-> {}, thr |-> 0, nid |-> 2],th |-> <<[d |-> 1, opi |-> 1, pc |-> "s1", op |-> 0, res |-> 0, loc |-> <<>>, cur |-> 0, ra |-> 0, after |-> "", tmp |-> 0], [d |-> 0, opi |-> 1, pc |-> "idle", op |-> 0, res |-> 0, loc |-> <<>>, cur |-> 0, ra |-> 0, after |-> "", tmp |-> 0], [d |-> 0, opi |-> 1, pc |-> "idle", op |-> 0, res |-> 0, loc |-> <<>>, cur |-> 0, ra |-> 0, after |-> "", tmp |-> 0]>>,pw |-> FALSE,mx |-> [x |-> 0, s |-> {}],cp |-> [b |-> 0, a |-> 0],prog |-> <<<<<<0, 1>>, <<0, 1>>>>, <<<<0, 1>>>>, <<<<2, 3>>, <<2, 3>>>>>>,pend |-> <<>>]),
    ([lm |-> 0,shared |-> TRUE,ev |-> [k |-> "call", i |-> 0, t |-> 2, o |-> "modify_detach", v |-> 3, w |-> 0],gh |-> [applied |-> <<>>, returned |-> {}, snap |-> <<{}, {}, {}, {}, {}, {}, {}, {}>>, accepted |-> {1, 3}, thrown |-> {}, thr |-> 0, nid |-> 2],th |-> <<[d |-> 1, opi |-> 1, pc |-> "s1", op |-> 0, res |-> 0, loc |-> <<>>, cur |-> 0, ra |-> 0, after |-> "", tmp |-> 0], [d |-> 3, opi |-> 1, pc |-> "s1", op |-> 0, res |-> 0, loc |-> <<>>, cur |-> 0, ra |-> 0, after |-> "", tmp |-> 0], [d |-> 0, opi |-> 1, pc |-> "idle", op |-> 0, res |-> 0, loc |-> <<>>, cur |-> 0, ra |-> 0, after |-> "", tmp |-> 0]>>,pw |-> FALSE,mx |-> [x |-> 0, s |-> {}],cp |-> [b |-> 0, a |-> 0],prog |-> <<<<<<0, 1>>, <<0, 1>>>>, <<<<0, 1>>>>, <<<<2, 3>>, <<2, 3>>>>>>,pend |-> <<>>]),
    ([lm |-> 0,shared |-> TRUE,ev |-> [k |-> "call", i |-> 0, t |-> 3, o |-> "shared_read", v |-> 0, w |-> 0],gh |-> [applied |-> <<>>, returned |-> {}, snap |-> <<{}, {}, {}, {}, {}, {}, {}, {}>>, accepted |-> {1, 3}, thrown |-> {}, thr |-> 0, nid |-> 2],th |-> <<[d |-> 1, opi |-> 1, pc |-> "s1", op |-> 0, res |-> 0, loc |-> <<>>, cur |-> 0, ra |-> 0, after |-> "", tmp |-> 0], [d |-> 3, opi |-> 1, pc |-> "s1", op |-> 0, res |-> 0, loc |-> <<>>, cur |-> 0, ra |-> 0, after |-> "", tmp |-> 0], [d |-> 0, opi |-> 1, pc |-> "r1", op |-> 2, res |-> 0, loc |-> <<>>, cur |-> 0, ra |-> 0, after |-> "", tmp |-> 0]>>,pw |-> FALSE,mx |-> [x |-> 0, s |-> {}],cp |-> [b |-> 0, a |-> 0],prog |-> <<<<<<0, 1>>, <<0, 1>>>>, <<<<0, 1>>>>, <<<<2, 3>>, <<2, 3>>>>>>,pend |-> <<>>]),
    ([lm |-> 0,shared |-> TRUE,ev |-> [k |-> "ald", i |-> 1, t |-> 3, o |-> "pw", v |-> 0, w |-> 0],gh |-> [applied |-> <<>>, returned |-> {}, snap |-> <<{}, {}, {}, {}, {}, {}, {}, {}>>, accepted |-> {1, 3}, thrown |-> {}, thr |-> 0, nid |-> 2],th |-> <<[d |-> 1, opi |-> 1, pc |-> "s1", op |-> 0, res |-> 0, loc |-> <<>>, cur |-> 0, ra |-> 0, after |-> "", tmp |-> 0], [d |-> 3, opi |-> 1, pc |-> "s1", op |-> 0, res |-> 0, loc |-> <<>>, cur |-> 0, ra |-> 0, after |-> "", tmp |-> 0], [d |-> 0, opi |-> 1, pc |-> "a1", op |-> 2, res |-> 0, loc |-> <<>>, cur |-> 0, ra |-> 0, after |-> "", tmp |-> 0]>>,pw |-> FALSE,mx |-> [x |-> 0, s |-> {}],cp |-> [b |-> 0, a |-> 0],prog |-> <<<<<<0, 1>>, <<0, 1>>>>, <<<<0, 1>>>>, <<<<2, 3>>, <<2, 3>>>>>>,pend |-> <<>>]),
    ([lm |-> 0,shared |-> TRUE,ev |-> [k |-> "slock", i |-> 1, t |-> 3, o |-> "m", v |-> 0, w |-> 0],gh |-> [applied |-> <<>>, returned |-> {}, snap |-> <<{}, {}, {}, {}, {}, {}, {}, {}>>, accepted |-> {1, 3}, thrown |-> {}, thr |-> 0, nid |-> 2],th |-> <<[d |-> 1, opi |-> 1, pc |-> "s1", op |-> 0, res |-> 0, loc |-> <<>>, cur |-> 0, ra |-> 0, after |-> "", tmp |-> 0], [d |-> 3, opi |-> 1, pc |-> "s1", op |-> 0, res |-> 0, loc |-> <<>>, cur |-> 0, ra |-> 0, after |-> "", tmp |-> 0], [d |-> 0, opi |-> 1, pc |-> "b1", op |-> 2, res |-> 0, loc |-> <<>>, cur |-> 0, ra |-> 0, after |-> "", tmp |-> 0]>>,pw |-> FALSE,mx |-> [x |-> 0, s |-> {3}],cp |-> [b |-> 0, a |-> 0],prog |-> <<<<<<0, 1>>, <<0, 1>>>>, <<<<0, 1>>>>, <<<<2, 3>>, <<2, 3>>>>>>,pend |-> <<>>]),
    ([lm |-> 0,shared |-> TRUE,ev |-> [k |-> "rb", i |-> 1, t |-> 3, o |-> "cell", v |-> 0, w |-> 0],gh |-> [applied |-> <<>>, returned |-> {}, snap |-> <<{}, {}, {}, {}, {}, {}, {}, {}>>, accepted |-> {1, 3}, thrown |-> {}, thr |-> 0, nid |-> 2],th |-> <<[d |-> 1, opi |-> 1, pc |-> "s1", op |-> 0, res |-> 0, loc |-> <<>>, cur |-> 0, ra |-> 0, after |-> "", tmp |-> 0], [d |-> 3, opi |-> 1, pc |-> "s1", op |-> 0, res |-> 0, loc |-> <<>>, cur |-> 0, ra |-> 0, after |-> "", tmp |-> 0], [d |-> 0, opi |-> 1, pc |-> "b2", op |-> 2, res |-> 0, loc |-> <<>>, cur |-> 0, ra |-> 0, after |-> "", tmp |-> 0]>>,pw |-> FALSE,mx |-> [x |-> 0, s |-> {3}],cp |-> [b |-> 0, a |-> 0],prog |-> <<<<<<0, 1>>, <<0, 1>>>>, <<<<0, 1>>>>, <<<<2, 3>>, <<2, 3>>>>>>,pend |-> <<>>]),
    ([lm |-> 0,shared |-> TRUE,ev |-> [k |-> "re", i |-> 1, t |-> 3, o |-> "cell", v |-> 0, w |-> 0],gh |-> [applied |-> <<>>, returned |-> {}, snap |-> <<{}, {}, {}, {}, {}, {}, {}, {}>>, accepted |-> {1, 3}, thrown |-> {}, thr |-> 0, nid |-> 2],th |-> <<[d |-> 1, opi |-> 1, pc |-> "s1", op |-> 0, res |-> 0, loc |-> <<>>, cur |-> 0, ra |-> 0, after |-> "", tmp |-> 0], [d |-> 3, opi |-> 1, pc |-> "s1", op |-> 0, res |-> 0, loc |-> <<>>, cur |-> 0, ra |-> 0, after |-> "", tmp |-> 0], [d |-> 0, opi |-> 1, pc |-> "b3", op |-> 2, res |-> 0, loc |-> <<>>, cur |-> 0, ra |-> 0, after |-> "", tmp |-> 0]>>,pw |-> FALSE,mx |-> [x |-> 0, s |-> {3}],cp |-> [b |-> 0, a |-> 0],prog |-> <<<<<<0, 1>>, <<0, 1>>>>, <<<<0, 1>>>>, <<<<2, 3>>, <<2, 3>>>>>>,pend |-> <<>>]),
    ([lm |-> 0,shared |-> TRUE,ev |-> [k |-> "sunlock", i |-> 1, t |-> 3, o |-> "m", v |-> 0, w |-> 0],gh |-> [applied |-> <<>>, returned |-> {}, snap |-> <<{}, {}, {}, {}, {}, {}, {}, {}>>, accepted |-> {1, 3}, thrown |-> {}, thr |-> 0, nid |-> 2],th |-> ,pw |-> FALSE,mx |-> [x |-> 0, s |-> {}],cp |-> [b |-> 0, a |-> 0],prog |-> <<<<<<0, 1>>, <<0, 1>>>>, <<<<0, 1>>>>, <<<<2, 3>>, <<2, 3>>>>>>,pend |-> <<>>])
    >>
----


=============================================================================

---- CONFIG DeferredMC_TTrace_1790883457 ----
CONSTANTS
    Progs <- ThrowProgs
    Shareds = { TRUE }
    MaxThrows = 2
    PushBeforeFlag = TRUE
    DrainNeedsLock = TRUE
    DrainFifo = TRUE

INVARIANT
    _inv

CHECK_DEADLOCK
    \* CHECK_DEADLOCK off because of PROPERTY or INVARIANT above.
    FALSE

INIT
    _init

NEXT
    _next

CONSTANT
    _TETrace <- _trace

ALIAS
    _expression
=============================================================================
\* Generated on Thu Oct 01 19:37:38 UTC 2026
-------------------------- MODULE DelayedDestructor --------------------------
(***************************************************************************)
(* gmlc::concurrency::DelayedDestructor<X> (and, with Locked = FALSE, the   *)
(* DelayedDestructorSingleThread<X> twin): a vector of shared_ptr under a   *)
(* timed mutex.                                                            *)
(*  addObjectsToBeDestroyed: lock; push_back; unlock                       *)
(*  size: lock; size; unlock                                               *)
(*  destroyObjects: try_lock_for(200ms) [fails: return -1]; select the      *)
(*    elements whose use_count is 1 (no other owner), keep them alive in a  *)
(*    local vector, erase them from the container; UNLOCK; run the callback *)
(*    on each; clear the local vector (destructors run here); try_lock_for  *)
(*    again to report the size [fails: report the size seen before]         *)
(* Objects: ids; an object may have one external owner (the adding thread)  *)
(* which drops its reference later.  The callback and the destructor are    *)
(* user code: they may call back into the container: size() (reenter 1: from *)
(* the destructor, 2: from the callback) or destroyObjects() itself (3: from *)
(* the destructor, 4: from the callback; one level of nesting: the inner     *)
(* sweep works on what the outer one left in the container).                 *)
(* Operation codes: 0 add (keeping an external reference) 1 drop 2 destroy  *)
(* 3 size 4 add_temp (no external owner).                                   *)
(***************************************************************************)
EXTENDS Naturals, Integers, Sequences, FiniteSets, TLC
CONSTANTS Progs, Cbs, Reenters, Lockeds, Timeouts,
          CbThrows,           \* set of BOOLEAN: may an invocation of the callback throw (C20; the exception is swallowed by destroyObjects)
          ClearOutsideLock,   \* knob: the local vector is cleared (destructors run) after the unlock (code as read)
          SoleOwnerOnly       \* knob: only elements without any other owner are selected (code as read)
VARIABLES prog, cfg, vec, ext, alive, dl, th, gh, ev
vars == <<prog, cfg, vec, ext, alive, dl, th, gh, ev>>
View == <<prog, cfg, vec, ext, alive, dl, th, gh>>
OpName == <<"add", "drop", "destroy", "size", "add_temp">>
Threads == 1..Len(prog)
NoEv == [t |-> 0, k |-> "init", o |-> "", i |-> 0, v |-> 0, w |-> 0]
E(t, k, o, i, v, w) == [t |-> t, k |-> k, o |-> o, i |-> i, v |-> v, w |-> w]
Obj(t) == 4 * (t - 1) + th[t].opi
Th0 == [pc |-> "idle", op |-> 0, opi |-> 1, res |-> 0, mine |-> 0, sel |-> <<>>, idx |-> 1, back |-> "", o |-> 0, threw |-> FALSE,
        nest |-> FALSE, osel |-> <<>>, oidx |-> 1, ores |-> 0, oback |-> "", othrew |-> FALSE]
Init0(p, c) == [prog |-> p, cfg |-> c, vec |-> <<>>, ext |-> {}, alive |-> {}, dl |-> 0, th |-> [t \in 1..Len(p) |-> Th0],
                gh |-> [destroyed |-> {}, dbl |-> FALSE, owned |-> FALSE, underlock |-> FALSE, cbd |-> {}, cbbad |-> FALSE, added |-> {}],
                ev |-> NoEv]
InitWith(p, c) == LET z == Init0(p, c) IN
    prog = z.prog /\ cfg = z.cfg /\ vec = z.vec /\ ext = z.ext /\ alive = z.alive /\ dl = z.dl /\ th = z.th /\ gh = z.gh /\ ev = z.ev
ResetTo(p, c) == LET z == Init0(p, c) IN
    prog' = z.prog /\ cfg' = z.cfg /\ vec' = z.vec /\ ext' = z.ext /\ alive' = z.alive /\ dl' = z.dl /\ th' = z.th /\ gh' = z.gh /\ ev' = z.ev
Init == \E p \in Progs, cb \in Cbs, re \in Reenters, lk \in Lockeds, ct \in CbThrows :
           InitWith(p, [cb |-> cb, reenter |-> re, locked |-> lk, cbthrow |-> ct /\ cb])
Upd(t, r) == th' = [th EXCEPT ![t] = r]
Pc(t, l) == [th[t] EXCEPT !.pc = l]
UC == UNCHANGED <<prog, cfg>>
SeqSet(q) == {q[j] : j \in 1..Len(q)}
Sel(q) == SelectSeq(q, LAMBDA x : IF SoleOwnerOnly THEN x \notin ext ELSE TRUE)
Minus(q, S) == SelectSeq(q, LAMBDA x : x \notin S)
L(t, yes, no) == IF cfg.locked THEN yes ELSE no
\* a destroyObjects frame of thread t ends with result r: back to the caller, or - for a nested call made by user code - back
\* into the outer sweep
Leave(t, r) == IF th[t].nest
                 THEN [th[t] EXCEPT !.pc = th[t].oback, !.sel = th[t].osel, !.idx = th[t].oidx, !.res = th[t].ores, !.threw = th[t].othrew,
                                    !.nest = FALSE, !.osel = <<>>, !.oidx = 1, !.ores = 0, !.oback = "", !.othrew = FALSE]
                 ELSE [th[t] EXCEPT !.pc = "ret", !.res = r]
\* user code of the outer sweep calls destroyObjects(): a new frame; cont / ci / cs = where and with what the outer sweep continues
Enter(t, cont, ci, cs) == [th[t] EXCEPT !.pc = "x1", !.nest = TRUE, !.oback = cont, !.oidx = ci, !.osel = cs, !.ores = th[t].res, !.othrew = th[t].threw,
                                        !.sel = <<>>, !.idx = 1, !.threw = FALSE]
NestHere(t, m) == cfg.reenter = m /\ cfg.locked /\ ~th[t].nest

Call(t) ==
    /\ th[t].pc = "idle" /\ th[t].opi <= Len(prog[t])
    /\ \E j \in 1..Len(prog[t][th[t].opi]) :
         LET o == prog[t][th[t].opi][j]
             id == Obj(t) IN
         /\ CASE o \in {0, 4} ->
                   \* the object is created by the caller right after the call step; a thread keeps at most one external reference
                   LET keep == (o = 0 /\ th[t].mine = 0) IN
                   /\ alive' = alive \cup {id} /\ ext' = IF keep THEN ext \cup {id} ELSE ext
                   /\ gh' = [gh EXCEPT !.added = @ \cup {id}]
                   /\ Upd(t, [th[t] EXCEPT !.op = o, !.o = id, !.mine = IF keep THEN id ELSE th[t].mine, !.res = 0, !.pc = L(t, "a1", "a1n")])
              [] o = 1 -> /\ UNCHANGED <<alive, ext, gh>>
                          /\ Upd(t, [th[t] EXCEPT !.op = o, !.o = th[t].mine, !.res = 0, !.pc = IF th[t].mine = 0 THEN "ret" ELSE "drop"])
              [] o = 2 -> UNCHANGED <<alive, ext, gh>> /\ Upd(t, [th[t] EXCEPT !.op = o, !.o = 0, !.res = 0, !.pc = L(t, "x1", "x1n")])
              [] OTHER -> UNCHANGED <<alive, ext, gh>> /\ Upd(t, [th[t] EXCEPT !.op = o, !.o = 0, !.res = 0, !.pc = L(t, "s1", "s1n")])
         /\ ev' = E(t, "call", OpName[o + 1], 0, IF o \in {0, 4} THEN id ELSE 0, IF o = 0 /\ th[t].mine = 0 THEN 1 ELSE 0)
    /\ UNCHANGED <<prog, cfg, vec, dl>>
Ret(t) ==
    /\ th[t].pc = "ret" /\ Upd(t, [th[t] EXCEPT !.pc = "idle", !.opi = @ + 1, !.threw = FALSE, !.back = ""])
    /\ ev' = E(t, "ret", OpName[th[t].op + 1], 0, th[t].res, 0) /\ UNCHANGED <<vec, ext, alive, dl, gh>> /\ UC

\* destruction of object x by thread t (user code; may re-enter the container: a nested size())
DtorG(t, x) == [gh EXCEPT !.dbl = @ \/ x \in gh.destroyed, !.destroyed = @ \cup {x}, !.owned = @ \/ x \in ext, !.underlock = @ \/ dl = t,
                          !.cbbad = @ \/ (cfg.cb /\ th[t].op = 2 /\ x \notin gh.cbd /\ ~th[t].threw)]

Add(t) == LET x == th[t].o IN
    \/ /\ th[t].pc = "a1" /\ dl = 0 /\ dl' = t /\ vec' = Append(vec, x) /\ Upd(t, Pc(t, "a2"))
       /\ ev' = E(t, "mlock", "dl", 1, 0, 0) /\ UNCHANGED <<ext, alive, gh>> /\ UC
    \/ /\ th[t].pc = "a2" /\ dl' = 0 /\ Upd(t, Pc(t, "ret")) /\ ev' = E(t, "munlock", "dl", 1, 0, 0) /\ UNCHANGED <<vec, ext, alive, gh>> /\ UC
    \* single-thread class: no lock; the push rides on a bookkeeping step of the harness
    \/ /\ th[t].pc = "a1n" /\ vec' = Append(vec, x) /\ Upd(t, Pc(t, "ret")) /\ ev' = E(t, "added", "obj", x, 0, 0) /\ UNCHANGED <<ext, alive, dl, gh>> /\ UC
Size(t) ==
    \/ /\ th[t].pc = "s1" /\ dl = 0 /\ dl' = t /\ Upd(t, [th[t] EXCEPT !.pc = "s2", !.res = IF th[t].back = "" THEN Len(vec) ELSE @])
       /\ ev' = E(t, "mlock", "dl", 1, 0, 0) /\ UNCHANGED <<vec, ext, alive, gh>> /\ UC
    \/ /\ th[t].pc = "s2" /\ dl' = 0 /\ Upd(t, Pc(t, IF th[t].back = "" THEN "ret" ELSE th[t].back))
       /\ ev' = E(t, "munlock", "dl", 1, 0, 0) /\ UNCHANGED <<vec, ext, alive, gh>> /\ UC
    \/ /\ th[t].pc = "s1n" /\ Upd(t, [th[t] EXCEPT !.pc = "ret", !.res = Len(vec)]) /\ ev' = E(t, "sized", "obj", 0, Len(vec), 0)
       /\ UNCHANGED <<vec, ext, alive, dl, gh>> /\ UC
\* the external owner lets go: if nobody else owns the object it dies here, in this thread
Drop(t) == LET x == th[t].o IN
    /\ th[t].pc = "drop" /\ ext' = ext \ {x}
    /\ Upd(t, [th[t] EXCEPT !.mine = 0, !.pc = IF x \in SeqSet(vec) \/ (\E u \in Threads : x \in SeqSet(th[u].sel)) THEN "ret" ELSE "dsolo"])
    /\ ev' = E(t, "drop", "obj", x, 0, 0) /\ UNCHANGED <<vec, alive, dl, gh>> /\ UC
DSolo(t) == LET x == th[t].o IN
    /\ th[t].pc = "dsolo" /\ alive' = alive \ {x} /\ gh' = DtorG(t, x) /\ Upd(t, Pc(t, "ret"))
    /\ ev' = E(t, "dtor", "obj", x, 0, 0) /\ UNCHANGED <<vec, ext, dl>> /\ UC

AfterUnlock(t) == IF th[t].sel = <<>> THEN "x5" ELSE IF cfg.cb THEN "cb" ELSE "dt"
Destroy(t) == LET s == th[t].sel
                  i == th[t].idx IN
    \* timed acquisition: acquire, or give up (-1)
    \/ /\ th[t].pc = "x1" /\ dl = 0 /\ dl' = t
       /\ LET sl == Sel(vec) IN
          /\ vec' = Minus(vec, SeqSet(sl))
          /\ Upd(t, [th[t] EXCEPT !.sel = sl, !.idx = 1, !.res = Len(vec) - Len(sl),
                                  !.pc = IF sl = <<>> THEN "x7" ELSE (IF ClearOutsideLock THEN "x2" ELSE "dt")])
       /\ ev' = E(t, "mtimed", "dl", 1, 1, 0) /\ UNCHANGED <<ext, alive, gh>> /\ UC
    \/ /\ th[t].pc = "x1" /\ dl # 0 /\ Timeouts /\ Upd(t, Leave(t, -1))
       /\ ev' = E(t, "mtimed", "dl", 1, 0, 0) /\ UNCHANGED <<vec, ext, alive, dl, gh>> /\ UC
    \/ /\ th[t].pc = "x1n" /\ LET sl == Sel(vec) IN
          /\ vec' = Minus(vec, SeqSet(sl))
          /\ Upd(t, [th[t] EXCEPT !.sel = sl, !.idx = 1, !.res = Len(vec) - Len(sl), !.pc = IF sl = <<>> THEN "ret" ELSE (IF cfg.cb THEN "cb" ELSE "dt")])
          /\ ev' = E(t, "swept", "obj", 0, 0, 0)
       /\ UNCHANGED <<ext, alive, dl, gh>> /\ UC
    \/ /\ th[t].pc = "x2" /\ dl' = 0 /\ Upd(t, Pc(t, IF cfg.cb THEN "cb" ELSE "dt"))
       /\ ev' = E(t, "munlock", "dl", 1, 0, 0) /\ UNCHANGED <<vec, ext, alive, gh>> /\ UC
    \* callbacks, one per selected object (user code; with reenter = 2 it calls size())
    \/ /\ th[t].pc = "cb"
       /\ gh' = [gh EXCEPT !.cbd = @ \cup {s[i]}, !.underlock = @ \/ dl = t]
       /\ Upd(t, IF cfg.reenter = 2 /\ cfg.locked
                   THEN [th[t] EXCEPT !.pc = "s1", !.back = IF i < Len(s) THEN "cb" ELSE "dt", !.idx = IF i < Len(s) THEN i + 1 ELSE 1]
                   ELSE IF NestHere(t, 4)
                   THEN Enter(t, IF i < Len(s) THEN "cb" ELSE "dt", IF i < Len(s) THEN i + 1 ELSE 1, s)
                   ELSE [th[t] EXCEPT !.pc = IF i < Len(s) THEN "cb" ELSE "dt", !.idx = IF i < Len(s) THEN i + 1 ELSE 1])
       /\ ev' = E(t, "cb", "obj", s[i], 0, 0) /\ UNCHANGED <<vec, ext, alive, dl>> /\ UC
    \* C20: the callback throws: the remaining callbacks of the batch are skipped, the selected objects are destroyed while the
    \* exception unwinds (still outside the lock), destroyObjects swallows the exception and reports the size it had computed
    \/ /\ th[t].pc = "cb" /\ cfg.cbthrow
       /\ Upd(t, [th[t] EXCEPT !.pc = "dt", !.idx = 1, !.threw = TRUE])
       /\ ev' = E(t, "cbthrow", "obj", s[i], 0, 0) /\ UNCHANGED <<vec, ext, alive, dl, gh>> /\ UC
    \* destructors, one per selected object (user code; with reenter = 1 it calls size())
    \/ /\ th[t].pc = "dt" /\ alive' = alive \ {s[i]} /\ gh' = DtorG(t, s[i])
       /\ LET nxt == IF i < Len(s) THEN "dt" ELSE IF th[t].threw THEN "ret" ELSE (IF ClearOutsideLock THEN L(t, "x5", "ret") ELSE "x2b")
              ni == IF i < Len(s) THEN i + 1 ELSE 1
              ns == IF i < Len(s) THEN s ELSE <<>> IN
          Upd(t, IF cfg.reenter = 1 /\ cfg.locked
                   THEN [th[t] EXCEPT !.pc = "s1", !.back = nxt, !.idx = ni, !.sel = ns]
                   ELSE IF NestHere(t, 3) THEN Enter(t, nxt, ni, ns)
                   ELSE IF nxt = "ret" /\ th[t].nest THEN Leave(t, th[t].res)
                   ELSE [th[t] EXCEPT !.pc = nxt, !.idx = ni, !.sel = ns])
       /\ ev' = E(t, "dtor", "obj", s[i], 0, 0) /\ UNCHANGED <<vec, ext, dl>> /\ UC
    \* knob variant: unlock only after the destructors
    \/ /\ th[t].pc = "x2b" /\ dl' = 0 /\ Upd(t, Pc(t, "x5")) /\ ev' = E(t, "munlock", "dl", 1, 0, 0) /\ UNCHANGED <<vec, ext, alive, gh>> /\ UC
    \* second timed acquisition, only to report the size
    \/ /\ th[t].pc = "x5" /\ dl = 0 /\ dl' = t /\ Upd(t, [th[t] EXCEPT !.pc = "x6", !.res = Len(vec), !.back = ""])
       /\ ev' = E(t, "mtimed", "dl", 1, 1, 0) /\ UNCHANGED <<vec, ext, alive, gh>> /\ UC
    \/ /\ th[t].pc = "x5" /\ dl # 0 /\ Timeouts /\ Upd(t, [Leave(t, th[t].res) EXCEPT !.back = ""])
       /\ ev' = E(t, "mtimed", "dl", 1, 0, 0) /\ UNCHANGED <<vec, ext, alive, dl, gh>> /\ UC
    \/ /\ th[t].pc \in {"x6", "x7"} /\ dl' = 0 /\ Upd(t, Leave(t, Len(vec)))
       /\ ev' = E(t, "munlock", "dl", 1, 0, 0) /\ UNCHANGED <<vec, ext, alive, gh>> /\ UC

Step(t) == Call(t) \/ Ret(t) \/ Add(t) \/ Size(t) \/ Drop(t) \/ DSolo(t) \/ Destroy(t)
Next == \E t \in Threads : Step(t)
Spec == Init /\ [][Next]_vars
-----------------------------------------------------------------------------
AllDone == \A t \in Threads : th[t].pc = "idle" /\ th[t].opi > Len(prog[t])
TypeOK == dl \in 0..Len(prog)
\* C16: destroyed exactly once, never while another owner holds it
DestroyedOnce == ~gh.dbl
NeverWhileOwned == ~gh.owned
\* C16: callback and destructor always run outside the internal lock
UserCodeOutsideLock == ~gh.underlock
\* C16: the callback runs before each object reaped by destroyObjects
CallbackFirst == ~gh.cbbad
\* C16: no deadlock (re-entrant user code cannot self-deadlock)
NoDeadlock == (\A t \in Threads : ~ENABLED Step(t)) => AllDone
\* C16: nothing is lost or duplicated: every object added is in the container, in flight in a sweep, or destroyed
NoLossNoDup == gh.added = SeqSet(vec) \cup (UNION {SeqSet(th[t].sel) \cup SeqSet(th[t].osel) : t \in Threads}) \cup gh.destroyed
                          \cup {x \in gh.added : \E t \in Threads : th[t].o = x /\ th[t].pc \in {"a1", "a1n", "dsolo"}}
               /\ \A i, j \in 1..Len(vec) : i # j => vec[i] # vec[j]
\* C16: at the end whatever has no owner left is destroyed by the container's destructor: everything unowned is either
\* destroyed already or still in the container (which then destroys it)
EndState == AllDone => \A x \in gh.added : x \in gh.destroyed \/ x \in SeqSet(vec)
=============================================================================

-------------------------------- MODULE CowMon --------------------------------
(* Property monitor for cow_guarded over API-level and payload events (C04; C14 *)
(* starvation; C20).  Versions are payload instances.                          *)
EXTENDS TraceBase
VARIABLES l, held, dead, committed, cvals, latest, wcur, curval, ncommit, inop
mv == <<held, dead, committed, cvals, latest, wcur, curval, ncommit, inop>>
MaxT == 8
ZT == [t \in 0..MaxT |-> 0]
Viol(what) == MonViol(l, what)
Digits(v) == IF v <= 0 THEN 0 ELSE IF v < 8 THEN 1 ELSE IF v < 64 THEN 2 ELSE IF v < 512 THEN 3 ELSE IF v < 4096 THEN 4 ELSE IF v < 32768 THEN 5 ELSE 6
Snaps == {"snap_read", "snap_hold", "try_snap"}
TInit == /\ l = 1 /\ held = ZT /\ dead = {} /\ committed = {1} /\ cvals = {0} /\ latest = 0 /\ wcur = 0 /\ curval = ZT /\ ncommit = 0
         /\ inop = [t \in 0..MaxT |-> ""] /\ TLCSet(1, 0)
HeldBy(i) == {u \in 1..MaxT : held[u] = i}
TNext ==
    /\ l <= Len(Tr)
    /\ l' = l + 1
    /\ LET e == Tr[l]
           t == e.t IN
       CASE e.k = "reset" ->
              /\ held' = ZT /\ dead' = {} /\ committed' = {1} /\ cvals' = {0} /\ latest' = 0 /\ wcur' = 0 /\ curval' = ZT /\ ncommit' = 0
              /\ inop' = [u \in 0..MaxT |-> ""]
         [] e.k = "call" -> inop' = [inop EXCEPT ![t] = e.o] /\ UNCHANGED <<held, dead, committed, cvals, latest, wcur, curval, ncommit>>
         [] e.k = "ret" ->
              /\ (e.o \in Snaps /\ e.v < 0) => Viol("C04: a snapshot's contents changed or were torn while it was held")
              /\ (e.o \in Snaps /\ e.v >= 0 /\ e.v \notin cvals) => Viol("C04: a snapshot shows a value that was never committed")
              /\ inop' = [inop EXCEPT ![t] = ""]
              /\ UNCHANGED <<held, dead, committed, cvals, latest, wcur, curval, ncommit>>
         [] e.k = "wget" ->
              /\ (wcur # 0 /\ wcur # t) => Viol("C04: two writers hold write handles at the same time")
              /\ (e.v # latest) => Viol("C04: a write handle does not start from the latest committed value (lost update)")
              /\ wcur' = t /\ curval' = [curval EXCEPT ![t] = e.v]
              /\ UNCHANGED <<held, dead, committed, cvals, latest, ncommit, inop>>
         [] e.k = "wdone" -> wcur' = (IF wcur = t THEN 0 ELSE wcur) /\ UNCHANGED <<held, dead, committed, cvals, latest, curval, ncommit, inop>>
         [] e.k = "we" -> curval' = [curval EXCEPT ![t] = e.v] /\ UNCHANGED <<held, dead, committed, cvals, latest, wcur, ncommit, inop>>
         [] e.k = "wrel" ->
              /\ IF e.v = 1 THEN /\ latest' = curval[t] /\ committed' = committed \cup {e.i} /\ cvals' = cvals \cup {curval[t]} /\ ncommit' = ncommit + 1
                            ELSE UNCHANGED <<latest, committed, cvals, ncommit>>
              \* the handle is being released: the user's exclusive window ends here (the next wget can only follow the real unlock)
              /\ wcur' = (IF wcur = t THEN 0 ELSE wcur)
              /\ UNCHANGED <<held, dead, curval, inop>>
         [] e.k \in {"wb", "cb"} ->
              /\ (e.i \in committed) => Viol("C04: a committed version is modified (snapshots are not immutable)")
              /\ (HeldBy(e.i) # {}) => Viol("C04: a version is modified while a snapshot of it is held")
              /\ UNCHANGED mv
         [] e.k = "sget" ->
              /\ (e.i \in dead) => Viol("C04: a snapshot refers to a destroyed version")
              /\ held' = [held EXCEPT ![t] = e.i] /\ UNCHANGED <<dead, committed, cvals, latest, wcur, curval, ncommit, inop>>
         [] e.k = "srel" -> held' = [held EXCEPT ![t] = 0] /\ UNCHANGED <<dead, committed, cvals, latest, wcur, curval, ncommit, inop>>
         [] e.k \in {"rb", "re"} ->
              /\ (e.i \in dead \/ e.u = 1) => Viol("C04: a destroyed version is read through a snapshot")
              /\ UNCHANGED mv
         [] e.k \in {"kb", "ke"} ->
              /\ (e.u \in dead) => Viol("C04: the committed value was destroyed while a writer copies it")
              /\ UNCHANGED mv
         [] e.k = "dtor" ->
              /\ (e.i \in dead) => Viol("C04: a version is destroyed twice")
              /\ (HeldBy(e.i) # {}) => Viol("C04: a version is destroyed while a snapshot of it is held")
              /\ dead' = dead \cup {e.i} /\ UNCHANGED <<held, committed, cvals, latest, wcur, curval, ncommit, inop>>
         [] e.k = "final" ->
              /\ (e.v # latest) => Viol("C04: the final committed value is not the last commit (lost update or cancelled copy published)")
              /\ (e.v >= 0 /\ ncommit <= 5 /\ Digits(e.v) # ncommit) => Viol("C04: the final value does not consist of exactly the committed modifications")
              /\ (e.w # 1) => Viol("C04: versions are leaked or destroyed wrongly (live payload instances at the end)")
              /\ UNCHANGED mv
         [] e.k = "starved" ->
              /\ (inop[t] \in Snaps /\ held[t] = 0) => Viol("C14: a reader cannot take a snapshot while the other threads are suspended")
              /\ UNCHANGED mv
         [] e.k = "soloyield" ->
              /\ (inop[t] \in Snaps /\ held[t] = 0) => Viol("C14: a reader spins waiting for a writer while taking a snapshot")
              /\ UNCHANGED mv
         [] e.k \in {"deadlock", "budget"} -> Viol("C04: an operation never completes (writer lock not freed / deadlock)") /\ UNCHANGED mv
         [] e.k \in {"crash", "terminate", "escaped"} -> Viol("C04: crash") /\ UNCHANGED mv
         [] OTHER -> UNCHANGED mv
    /\ Mark(l)
TSpec == TInit /\ [][TNext]_<<l, mv>>
Accepted == IF TLCGet(1) = Len(Tr) THEN TRUE ELSE Rejected(TLCGet(1) + 1)
=============================================================================

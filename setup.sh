#!/bin/bash
# offline setup: tool presence + precompiled substitution header (rebuilt lazily by the checks if missing)
set -e
cd "$(dirname "$0")"
command -v java >/dev/null && command -v g++ >/dev/null && command -v python3 >/dev/null
test -f /opt/veriftools/tla/tla2tools.jar
mkdir -p build evidence replays
python3 - <<'PY'
import sys
sys.path.insert(0,'.')
from vlib import core
flags = ['-std=c++17', '-O1', '-g', '-pthread', '-DGMLC_TDC_CONCURRENCY_VERIF']
core._pch(flags, False)
core._pch(flags + ['-fsanitize=address,undefined', '-fno-omit-frame-pointer', '-fno-sanitize-recover=undefined'], True)
print('setup ok')
PY

#!/bin/bash
export VERIF_EVIDENCE_DIR=$(mktemp -d /tmp/seedev.XXXXXX)   # evidence of runs on a mutated tree is not evidence
trap 'rm -rf $VERIF_EVIDENCE_DIR' EXIT
# usage: tryseed.sh <patch.diff> <PID> [tier]   applies the patch to /repo, runs the check, reverts
p="$1"; id="$2"; tier="${3:-quick}"
cd /repo || exit 9
git diff --quiet || { echo "/repo dirty"; exit 9; }
git apply "$p" || { echo "patch does not apply"; exit 9; }
cd /verif && ./check "$id" --tier "$tier" 2>&1 | grep -E "^(VIOLATION|DRIFT|OK|INFRA|KNOWN|NOTE|\[time\] total)" | cut -c1-400
rc=${PIPESTATUS[0]}
git -C /repo checkout -- .
echo "exit=$rc"

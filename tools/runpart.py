#!/usr/bin/env python3
"""debugging aid: run one CheckDef (a slice of a multi-part check) without writing evidence.
usage: runpart.py <check module, e.g. c02> <attribute, e.g. DEF2 | PARTS:rcu,barrier> [tier]"""
import os, sys
sys.path.insert(0, os.path.dirname(os.path.dirname(os.path.abspath(__file__))))
os.environ.setdefault('VERIF_EVIDENCE_DIR', '/tmp/ev_scratch')
import importlib
from vlib import engine
mod = importlib.import_module('checks.' + sys.argv[1])
what = sys.argv[2]
tier = sys.argv[3] if len(sys.argv) > 3 else 'quick'
if what.startswith('PARTS:'):
    names = what[6:].split(',')
    defs = [p for p in mod.PARTS if p.harness in names]
else:
    defs = [getattr(mod, what)]
for d in defs:
    r = engine.run_check(d, tier, int(os.environ.get('VERIF_SEED', '1')), write=False)
    print('VIOLATIONS', len(r.violations), [v['what'][:160] for v in r.violations][:3])
    print('DRIFT', [x[:2500] for x in r.drift[:2]])

#!/bin/bash
# usage: tryscratch.sh <seed> <PID> : apply seed to scratch copy of /repo and run ./check PID against it (evidence to scratch)
s=$1; pid=$2
d=$(mktemp -d /tmp/sr.XXXXXX); rsync -a --exclude _build --exclude .git /repo/ $d/
(cd $d && patch -p1 -s < /verif/seeded/$s/patch.diff) || { echo PATCHFAIL; rm -rf $d; exit 9; }
cd /verif; a=$(date +%s)
VERIF_REPO=$d VERIF_EVIDENCE_DIR=/tmp/ev_scratch timeout 1800 ./check $pid 2>&1 > /tmp/tryscratch.$$.out; rc=$?
(grep -E "^VIOLATION" /tmp/tryscratch.$$.out | sed 's/replay=[^ ]* *//' | head -3; grep -E "^(DRIFT|OK|INFRA|KNOWN|NOTE)" /tmp/tryscratch.$$.out | head -${3:-3}) | cut -c1-330
echo "rc=$rc $(( $(date +%s)-a ))s"; rm -f /tmp/tryscratch.$$.out
rm -rf $d

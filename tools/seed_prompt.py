#!/usr/bin/env python3
import json,sys
pid=sys.argv[1]
n=int(sys.argv[2]) if len(sys.argv)>2 else 2
letters=sys.argv[3] if len(sys.argv)>3 else 'abcdefgh'[:n]     # names of the changes, e.g. 'cd' for a later round
import glob,os
avoid=[]
for d in sorted(glob.glob('/verif/seeded/%s?'%pid)):
    if os.path.basename(d)[-1] in letters: continue
    try:
        first=[l for l in open(d+'/notes.md') if l.strip()][0].strip().lstrip('# ').strip()
        avoid.append(first)
    except Exception: pass
names=[pid+c for c in letters]
p=[json.loads(l) for l in open('/verif/properties.jsonl') if json.loads(l)['id']==pid][0]
print(f"""You are helping to evaluate a verification effort for the header-only C++17 library GMLC-TDC/concurrency (thread-synchronization wrappers). Your job is to act as a "bug seeder": produce {n} DIFFERENT, realistic source changes to the library, each of which breaks the semantic property quoted below, while the library still compiles and its existing test suite still passes.

Your private scratch git worktree of the repository is at /tmp/seed/{pid} (already configured: `cmake --build /tmp/seed/{pid}/_build` builds; `ctest --test-dir /tmp/seed/{pid}/_build -j8 --timeout 900` runs the 39 existing tests, about 15 s). Work ONLY inside /tmp/seed/{pid}. Never read or touch /repo, /verif or any other directory under /tmp/seed. Do not commit anything in git.

THE PROPERTY ({pid}: {p['title']})
Statement: {p['statement']}
Quantified: {p['quantifier']['text']}
Main files: {', '.join(p['anchors']['files'])}

WHAT TO PRODUCE
For each of the {n} changes (call them {', '.join(names)}):
 1. A change to the library headers under gmlc/ (not to tests) that a plausible, well-meaning refactoring / optimisation / cleanup could introduce, and that violates the property. It must NOT be exposed by ordinary use at once: it should need something specific to manifest - a particular interleaving of threads, a multi-step sequence of operations, an unusual input or configuration (e.g. a particular mutex type, an element type with a destructor, a spurious wake-up, a time-out, an exception thrown by user code), or two cooperating sites that each look fine alone. Prefer subtle changes (reordering two statements, weakening a condition, moving work outside a lock, using the wrong counter, if-instead-of-while, ...) over gross ones (deleting a whole function body). The different changes should break the property through different mechanisms / different code sites.
 2. The library must still compile and ALL 39 existing tests must still pass with the change (run the suite at least 3 times; flaky hangs or failures mean the change is rejected - pick another).
 3. A demonstration: a small self-contained C++ program demo.cpp (compiled with `g++ -std=c++17 -O1 -g -pthread -I/tmp/seed/{pid} demo.cpp -o demo`, optionally with -fsanitize=address,undefined or -fsanitize=thread when that is how the violation shows) that exits non-zero / reports the violation WITH the change and exits 0 WITHOUT it (verify both, e.g. with `git stash` or `git diff > p.diff; git checkout -- gmlc; ...; git apply p.diff`). If the violation needs a specific interleaving, force it deterministically in the demo (e.g. a user functor / payload type / custom mutex or allocator that blocks on a flag at the right moment, sleeps, or a custom mutex type passed as the template parameter), rather than relying on luck; a demo that fails only sometimes is acceptable only if it fails in the great majority of runs with the change and never without it.
 4. Save for each change, under /tmp/seed/{pid}/out/{names[0]}/ (resp. {', '.join(n_+'/' for n_ in names[1:])}): patch.diff (output of `git diff -- gmlc` with only that one change applied to the pristine tree), demo.cpp, and notes.md (which clause of the property is broken, what exactly is needed for it to manifest, the commands you ran and what they printed with and without the change, and how many times you ran the test suite).
 5. Leave the worktree's gmlc/ directory pristine (`git checkout -- gmlc`) at the end.

{('ALREADY KNOWN CHANGES - do NOT reproduce these or close variants of them (same site and same mechanism); find different sites, different clauses of the property, different mechanisms:' + chr(10) + chr(10).join(' - ' + a for a in avoid) + chr(10) + chr(10)) if avoid else ''}Your final message should list, per change: a one-line description, the file and function changed, what is needed to manifest, and whether you verified (a) the suite passes 3x with it, (b) the demo fails with it, (c) the demo passes without it. Be honest: if you could not make one of them work, say so rather than presenting an unverified change.""")

#!/bin/bash
export VERIF_EVIDENCE_DIR=$(mktemp -d /tmp/seedev.XXXXXX)   # evidence of runs on a mutated tree is not evidence
trap 'rm -rf $VERIF_EVIDENCE_DIR' EXIT
# usage: seedmatrix.sh [seed names...]  - applies each seeded change to a scratch copy of the repository (never to /repo),
# runs the quick check of the property it was written for against that copy (VERIF_REPO) and prints one line per seed.
cd "$(dirname "$0")/.."
V=$(pwd)
names="$@"; [ -z "$names" ] && names=$(ls seeded)
for s in $names; do
  pid=${s%?}
  scratch=$(mktemp -d /tmp/seedrepo.XXXXXX)
  rsync -a --exclude _build --exclude .git /repo/ $scratch/
  if ! (cd $scratch && patch -p1 -s < $V/seeded/$s/patch.diff); then echo "$s PATCH-FAILED"; rm -rf $scratch; continue; fi
  a=$(date +%s); out=$(VERIF_REPO=$scratch timeout 1800 ./check $pid 2>&1); rc=$?; b=$(date +%s)
  echo "$s check=$pid rc=$rc $((b-a))s $(echo "$out" | grep -E '^(VIOLATION|OK|INFRA)' | head -1 | sed 's/replay=[^ ]* *//' | cut -c1-220)"
  rm -rf $scratch
done

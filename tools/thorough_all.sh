#!/bin/bash
# runs the thorough tier of every claimed check (one after the other); prints one line per check
cd "$(dirname "$0")/.."
for id in $(python3 -c "import json;print(' '.join(c['property_id'] for c in json.load(open('MANIFEST.json'))['checks']))") ; do
  s=$(date +%s); out=$(timeout ${THOROUGH_TIMEOUT:-5400} ./check $id --tier thorough 2>&1); rc=$?; e=$(date +%s)
  echo "$id rc=$rc $((e-s))s $(echo "$out" | grep -E '^(OK|VIOLATION|INFRA|DRIFT)' | head -2 | cut -c1-200 | tr '\n' ' ')"
  echo "$out" | grep -E "^\[time\]|^\[tlc\]" | sed "s/^/    $id /"
done

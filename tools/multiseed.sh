#!/bin/bash
# usage: multiseed.sh <seed>...   runs the quick tier of every claimed check with each seed (VERIF_REPO honoured)
cd "$(dirname "$0")/.."
for s in "$@"; do
 for id in $(python3 -c "import json;print(' '.join(c['property_id'] for c in json.load(open('MANIFEST.json'))['checks']))"); do
  a=$(date +%s); out=$(timeout 1800 ./check $id --seed $s 2>&1); rc=$?; b=$(date +%s)
  echo "seed=$s $id rc=$rc $((b-a))s $(echo "$out" | grep -E '^(OK|VIOLATION|INFRA)' | head -2 | cut -c1-200 | tr '\n' ' ')"
 done
done

#!/usr/bin/env python3
"""prints the measurement table of DESIGN.md section 8 from the evidence files of the last runs"""
import json, glob, os
V = os.path.dirname(os.path.dirname(os.path.abspath(__file__)))
print('| id | tier | wall s | TLC configs | distinct states | model paths replayed on the code (mismatches) | bounded-preemption schedules | executions validated by TLC | distinct / non-trivial |')
print('|---|---|---|---|---|---|---|---|---|')
for f in sorted(glob.glob(V + '/evidence/C*.json')):
    e = json.load(open(f)); c = e['coverage']
    for k in ('models', 'bounded_preemption'):
        if k not in c: c[k] = [m for q in c.get('parts', []) for m in q.get(k, [])]
    for k in ('model_paths_replayed', 'model_path_mismatches'):
        if k not in c and c.get('parts'): c[k] = sum(q.get(k, 0) for q in c['parts'])
    pb = sum(b.get('schedules', 0) for b in c.get('bounded_preemption', []))
    print('| %s | %s | %d | %d | %s | %s (%s) | %s | %s | %s / %s |' % (
        e['property_id'], e['tier'], e['wall_s'], len(c.get('models', [])), c.get('states', ''), c.get('model_paths_replayed', ''),
        c.get('model_path_mismatches', ''), pb or '', c.get('traces_validated_against_impl', ''), c.get('distinct_executions', ''),
        c.get('distinct_nontrivial', '')))

#!/bin/bash
# usage: dbgtrace.sh <harness> <TraceModule> <cfg> n seed pol "prog" [k=v ...]  - run executions, validate, show the rejected line in context
h=$1; mod=$2; cfg=$3; n=$4; seed=$5; pol=$6; prog=$7; shift 7
b=$(ls -t /verif/build/bin/h_$h.* | head -1)
out=/tmp/dbg_$h.ndjson
$b out=$out n=$n seed=$seed pol=$pol "prog=$prog" "$@" > /dev/null 2>&1
cd /verif/specs
r=$(TRACE=$out timeout 600 tlc -workers 1 -metadir /tmp/md_dbg -noGenerateSpecTE -config $cfg $mod 2>&1 | grep -E "TRACE-REJECTED|MONVIOL|violated|Error" | head -5)
rm -rf /tmp/md_dbg
echo "$r"
ln=$(echo "$r" | grep -o "TRACE-REJECTED|[0-9]*" | head -1 | cut -d'|' -f2)
if [ -n "$ln" ]; then
  python3 - "$out" "$ln" <<'PY'
import json,sys
ev=[json.loads(l) for l in open(sys.argv[1])]; ln=int(sys.argv[2])
st=max(i for i in range(ln) if ev[i]['k']=='reset')
print('reset:',ev[st]['o'],ev[st].get('p'))
for i in range(max(st,ln-45),min(len(ev),ln+3)):
    e=ev[i]; print(('>>' if i==ln-1 else '  '),i+1,e['t'],e['k'],e['o'],e['i'],e['v'],e['w'],e.get('u'),'s' if e.get('s') else '')
PY
fi

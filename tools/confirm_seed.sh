#!/bin/bash
# usage: confirm_seed.sh <PID> <seedname>   e.g. confirm_seed.sh C10 C10a
# Confirms in the scratch worktree /tmp/seed/<PID>: suite passes with the patch, demo fails with it, passes without it.
# On success copies to /verif/seeded/<seedname>/ with meta.json.
pid="$1"; s="$2"; wt=/tmp/seed/$pid; od=$wt/out/$s
cd $wt || exit 9
git checkout -- gmlc 2>/dev/null
res=$od/confirm.log; : > $res
flags=${SEEDFLAGS-$(grep -o -- "-fsanitize=[a-z,]*" $od/notes.md | head -1)}
build_demo() { g++ -std=c++17 -O1 -g -pthread $flags -I$wt $od/demo.cpp -o $od/demo_bin >>$res 2>&1; }
run_demo() { timeout 120 $od/demo_bin >>$res 2>&1; echo $?; }
# without the change
build_demo || { echo "demo does not build (pristine)" | tee -a $res; exit 1; }
rc0=$(run_demo)
git apply $od/patch.diff || { echo "patch does not apply" | tee -a $res; exit 1; }
cmake --build _build >>$res 2>&1 || { echo "build fails with patch" | tee -a $res; git checkout -- gmlc; exit 1; }
t1=$(ctest --test-dir _build -j8 --timeout 300 2>&1 | grep -c "100% tests passed")
t2=$(ctest --test-dir _build -j8 --timeout 300 2>&1 | grep -c "100% tests passed")
build_demo
rc1=$(run_demo)
git checkout -- gmlc
echo "seed=$s pristine_demo_rc=$rc0 patched_demo_rc=$rc1 suite_pass_runs=$((t1+t2))/2 flags=$flags" | tee -a $res
if [ "$rc0" = "0" ] && [ "$rc1" != "0" ] && [ $((t1+t2)) = 2 ]; then
  mkdir -p /verif/seeded/$s
  cp $od/patch.diff $od/demo.cpp /verif/seeded/$s/
  cp $od/notes.md /verif/seeded/$s/notes.md
  python3 - "$pid" "$s" "$rc0" "$rc1" "$flags" <<'PY'
import json,sys
pid,s,rc0,rc1,flags=sys.argv[1:6]
notes=open('/verif/seeded/%s/notes.md'%s).read()
json.dump({"seed":s,"property":pid,"breaks":pid,"needs":"see notes.md (written by the independent seeding agent)",
 "confirmed":{"suite_with_patch":"2/2 runs pass (ctest, 39 gtest cases) in scratch worktree","demo_without_patch_rc":int(rc0),"demo_with_patch_rc":int(rc1),"demo_flags":flags},
 "ran":"tools/confirm_seed.sh %s %s"%(pid,s)},open('/verif/seeded/%s/meta.json'%s,'w'),indent=1)
PY
  echo CONFIRMED $s
else
  echo NOT-CONFIRMED $s
fi
rm -f $od/demo_bin

#!/usr/bin/env python3
"""Regenerates MANIFEST.json from checks/registry.json (one entry per claimed property)."""
import json, os
V = os.path.dirname(os.path.dirname(os.path.abspath(__file__)))
props = [json.loads(l) for l in open(os.path.join(V, 'properties.jsonl'))]
reg = json.load(open(os.path.join(V, 'checks', 'registry.json')))
checks = []
for p in props:
    r = reg.get(p['id'])
    if not r or not r.get('claimed'):
        continue
    checks.append({
        'property_id': p['id'],
        'quick_cmd': './check %s --tier quick' % p['id'],
        'thorough_cmd': './check %s --tier thorough' % p['id'],
        'evidence_file': '/verif/evidence/%s.json' % p['id'],
        'replay_cmd_template': './check %s --replay {path}' % p['id'],
        'engine': r.get('engine', 'tlc+harness'),
        'level_claimed': {'category': 'model_checking', 'text': r['text'], 'design_ref': r.get('design_ref', 'DESIGN.md section 4 ' + p['id'])},
        'level_note': r['note'],
        'technique': r.get('technique', 'TLA+ specification checked exhaustively with TLC for small bounds; bound to the code by replaying '
                           'TLC-generated behaviours on the real object and validating recorded executions against the trace specification '
                           'and a TLA+ property monitor'),
    })
na = [{'property_id': p['id'], 'reason': reg.get(p['id'], {}).get('reason', 'check not built yet (in progress) - not a statement that the technique cannot apply')}
      for p in props if not reg.get(p['id'], {}).get('claimed')]
m = {
    'version': 1,
    'setup_cmd': 'cd /verif && ./setup.sh',
    'hooks': {'guard': 'GMLC_TDC_CONCURRENCY_VERIF',
              'enable': 'harness builds only: g++ -DGMLC_TDC_CONCURRENCY_VERIF -include harness/vstd.hpp -I$VERIF_REPO (substitution layer for the standard primitives; the only guarded code in /repo declares four plain internal fields - rcu_list::node::deleted, Barrier::threshold_/count_/generation_ - through gmlc_verif::plain<T>, supplied by vstd.hpp)',
              'baseline_off_cmd': 'cmake --build /repo/_build && ctest --test-dir /repo/_build -j8 --timeout 900',
              'source_commits': ['aee6fc7502ef85dcd3a8cebf41101f2a023885a0'], 'add_only': True},
    'engines': [{'name': 'tlc+harness', 'path': '/verif/check', 'serves_properties': [c['property_id'] for c in checks],
                 'kind_free_text': 'TLC (exhaustive bounded model checking + trace validation) bound to the unmodified headers through a force-included '
                                   'substitution layer and a deterministic cooperative scheduler'}],
    'checks': checks,
    'notes': 'See DESIGN.md. Every check honours VERIF_SEED, VERIF_TIER and VERIF_REPO (default /repo). exit 2 = infrastructure failure (no verdict). DRIFT / NOTE lines are informational (exit 0): DRIFT = a recorded execution or a replayed model path is not a behaviour of the algorithm-level specification (the code changed; the property monitors decide); NOTE = e.g. a thorough breadth-first run stopped by its time budget. Quick tier: 1-5 minutes per property on 16 cores; thorough tier: 5-25 minutes (budgets in vlib/engine.py, DESIGN 8). 80 seeded changes with demonstrations are under seeded/ (seeded/MATRIX.txt: 78 caught by the check of their own property).',
    'not_applicable': na,
}
json.dump(m, open(os.path.join(V, 'MANIFEST.json'), 'w'), indent=1)
print('claimed:', [c['property_id'] for c in checks])

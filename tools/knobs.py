#!/usr/bin/env python3
"""Vacuity check of the specifications: every knob (boolean CONSTANT whose default describes the code as read) is flipped in turn and
TLC must refute some invariant / property of the bounded model.  Prints one line per knob; exit 1 if a flipped knob goes unnoticed."""
import os, re, shutil, subprocess, sys, tempfile
V = os.path.dirname(os.path.dirname(os.path.abspath(__file__)))
KNOBS = [  # (module, [cfgs to try in order], knob)
    ('LatchMC.tla', ['Latch_quick.cfg', 'Latch_live.cfg'], 'ArriveLocked'), ('LatchMC.tla', ['Latch_quick.cfg', 'Latch_live.cfg'], 'WaitLoops'),
    ('LatchMC.tla', ['Latch_quick.cfg', 'Latch_live.cfg'], 'NotifyAll'),
    ('BarrierMC.tla', ['Barrier_quick.cfg', 'Barrier_live.cfg'], 'PredLoop'), ('BarrierMC.tla', ['Barrier_quick.cfg', 'Barrier_live.cfg'], 'NotifyAll'),
    ('BarrierMC.tla', ['Barrier_quick.cfg', 'Barrier_live.cfg'], 'DropFirst'),
    ('TriggerMC.tla', ['Trigger_quick.cfg'], 'TrigLocked'), ('TriggerMC.tla', ['Trigger_quick.cfg'], 'ClearFirst'),
    ('TripWireMC.tla', ['TripWire_quick.cfg'], 'NullCheckInDtor'), ('TripWireMC.tla', ['TripWire_quick.cfg'], 'MoveEmpties'),
    ('TripWireMC.tla', ['TripWire_quick.cfg'], 'AssignSwaps'),
    ('LeftRightMC.tla', ['LeftRight_quick.cfg'], 'Drain1'), ('LeftRightMC.tla', ['LeftRight_quick.cfg'], 'Drain2'),
    ('LeftRightMC.tla', ['LeftRight_quick.cfg'], 'RegisterFirst'), ('LeftRightMC.tla', ['LeftRight_quick.cfg'], 'WriterMutex'),
    ('CowMC.tla', ['Cow_quick.cfg', 'Cow_quick2.cfg'], 'CopyUnderMutex'), ('CowMC.tla', ['Cow_quick.cfg'], 'CancelUnlocks'),
    ('GuardedMC.tla', ['Guarded_q1.cfg', 'Guarded_q3.cfg'], 'StoreLocked'), ('GuardedMC.tla', ['Guarded_q2.cfg', 'Guarded_q3.cfg'], 'ReadLocked'),
    ('GuardedMC.tla', ['Guarded_q1.cfg', 'Guarded_q2.cfg'], 'TryHonest'),
    ('DeferredMC.tla', ['Deferred_quick3.cfg'], 'PushBeforeFlag'), ('DeferredMC.tla', ['Deferred_quick3.cfg'], 'DrainNeedsLock'),
    ('DeferredMC.tla', ['Deferred_quick3.cfg'], 'DrainFifo'),
    ('RcuListMC.tla', ['Rcu_A.cfg', 'Rcu_E.cfg'], 'UnlinkBeforeLog'), ('RcuListMC.tla', ['Rcu_A.cfg', 'Rcu_E.cfg'], 'ScanOlder'),
    ('RcuListMC.tla', ['Rcu_seq.cfg', 'Rcu_A.cfg'], 'NullCheck'), ('RcuListMC.tla', ['Rcu_E.cfg'], 'EraseLocked'),
    ('AtomicRegisterMC.tla', ['AReg_quick.cfg', 'AReg_seq.cfg'], 'ExchangeReturnsOld'), ('AtomicRegisterMC.tla', ['AReg_quick.cfg', 'AReg_seq.cfg'], 'CasReportsCurrent'),
    ('DelayedObjectsMC.tla', ['DelayedObjects_quick.cfg'], 'SetUnderLock'),
    ('DelayedDestructorMC.tla', ['DD_quick.cfg'], 'ClearOutsideLock'), ('DelayedDestructorMC.tla', ['DD_quick.cfg'], 'SoleOwnerOnly'),
]


def main():
    wd = tempfile.mkdtemp(prefix='knobs.')
    sp = os.path.join(wd, 'specs')
    shutil.copytree(os.path.join(V, 'specs'), sp)
    bad = 0
    only = sys.argv[1:]
    for mod, cfgs, knob in KNOBS:
        if only and knob not in only and mod not in only:
            continue
        verdict = None
        for cfg in cfgs:
            t = open(os.path.join(sp, cfg)).read()
            m = re.search(r'^(\s*' + knob + r'\s*=\s*)(TRUE|FALSE)\s*$', t, re.M)
            if not m:
                continue
            flipped = 'FALSE' if m.group(2) == 'TRUE' else 'TRUE'
            t2 = t[:m.start()] + m.group(1) + flipped + t[m.end():]
            kc = os.path.join(sp, 'knob_' + cfg)
            open(kc, 'w').write(t2)
            md = os.path.join(wd, 'md')
            shutil.rmtree(md, ignore_errors=True)
            try:
                out = subprocess.run(['timeout', '900', 'tlc', '-workers', '8', '-metadir', md, '-noGenerateSpecTE', '-config', kc, mod],
                                     cwd=sp, capture_output=True, text=True).stdout
            except Exception as e:
                out = str(e)
            v = re.search(r'Invariant (\w+) is violated|(Temporal properties were violated)|Action property (\w+) is violated|(Deadlock reached)', out)
            if v:
                verdict = '%s=%s in %s: TLC refutes %s' % (knob, flipped, cfg, next(g for g in v.groups() if g))
                break
        if verdict is None:
            bad += 1
            verdict = '%s: flipping it is NOT noticed by %s' % (knob, ', '.join(cfgs))
        print('%-24s %s' % (mod[:-4], verdict), flush=True)
    shutil.rmtree(wd, ignore_errors=True)
    return 1 if bad else 0


if __name__ == '__main__':
    sys.exit(main())

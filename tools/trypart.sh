#!/bin/bash
# usage: trypart.sh <seed> <check module> <attr>  - like tryscratch.sh but runs one slice (tools/runpart.py)
V=$(cd "$(dirname "$0")/.." && pwd)
s=$1; d=$(mktemp -d /tmp/sr.XXXXXX); rsync -a --exclude _build --exclude .git /repo/ $d/
(cd $d && patch -p1 -s < $V/seeded/$s/patch.diff) || { echo PATCHFAIL; rm -rf $d; exit 9; }
cd $V; VERIF_REPO=$d timeout 1800 python3 tools/runpart.py $2 $3 2>&1 | grep -E "VIOLATIONS|DRIFT|rror" | cut -c1-400
rm -rf $d

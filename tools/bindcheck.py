#!/usr/bin/env python3
"""Binding demonstration: a recorded execution of the real code with ONE corrupted field / removed event / wrong thread
must be rejected by the algorithm-level trace specification (XTrace.tla).  usage: tools/bindcheck.py [ids...]

For every check definition: record a few executions of the unchanged code (first random / pct program of the quick tier),
validate them (must be accepted), then derive single-point corruptions of the trace file and validate each:
   val   : the value field `v` of one event is changed (+1)
   drop  : one event is removed (a missing hook)
   thr   : the thread of one event is changed
   dup   : one event is duplicated
Bookkeeping-free choice: only events that are not `reset` lines are corrupted.  A corruption the specification accepts is
counted as `accepted`; it is not necessarily a gap (e.g. the value of an event whose `v` the specification does not read),
but the table shows that the trace specifications are far from accepting anything.
Output: one line per subsystem; written to seeded/logs/bindcheck.txt by the caller (stdout)."""
import importlib
import json
import os
import random
import sys

sys.path.insert(0, os.path.join(os.path.dirname(os.path.abspath(__file__)), '..'))
from vlib import core  # noqa: E402

IDS = sys.argv[1:] or ['c01', 'c03', 'c04', 'c05', 'c06', 'c09', 'c10', 'c11', 'c15', 'c16', 'c17', 'c18', 'c19']
PER_KIND = int(os.environ.get('BIND_PER_KIND', '8'))


def defs_of(mod):
    m = importlib.import_module('checks.' + mod)
    if hasattr(m, 'DEF'):
        return [m.DEF]
    return [d for d in getattr(m, 'DEFS', []) if getattr(d, 'trace_spec', None)]


def corrupt(lines, kind, rnd):
    idx = [i for i, l in enumerate(lines) if '"k":"reset"' not in l.replace(' ', '')]
    for _ in range(50):
        i = rnd.choice(idx)
        e = json.loads(lines[i])
        out = list(lines)
        if kind == 'val':
            if not isinstance(e.get('v'), int):
                continue
            e['v'] = e['v'] + 1
            out[i] = json.dumps(e)
        elif kind == 'thr':
            if not isinstance(e.get('t'), int) or e['t'] < 1:
                continue
            e['t'] = e['t'] % 2 + 1 if e['t'] <= 2 else 1
            out[i] = json.dumps(e)
        elif kind == 'drop':
            del out[i]
        elif kind == 'dup':
            out.insert(i, lines[i])
        return out, i + 1, e.get('k')
    return None, None, None


def main():
    rnd = random.Random(1)
    core.sweep_stale()
    for mod in IDS:
        for cd in defs_of(mod)[:1]:
            b = core.build_harness(cd.harness)
            progs = [p for p in cd.programs['quick'] if p[3] in ('random', 'pct')]
            if not progs:
                continue
            prog, params, n, pol = progs[0]
            args = list(cd.harness_args) + ['prog=' + prog] + ['%s=%s' % kv for kv in params.items()] + ['pol=' + pol]
            files, _ = core.run_harness(b, args, 6, 1, jobs=1, tag='bind')
            lines = [l.rstrip('\n') for l in open(files[0]) if l.strip()]
            spec, cfg = cd.trace_spec
            cfgp = os.path.join(core.SPECS, cfg)
            fnd, _ = core.validate(files, spec, cfgp, jobs=1, tag='bind')
            base_ok = not [f for f in fnd if f['kind'] in ('rejected', 'invariant', 'error')]
            res = {}
            mutants = []
            wd = os.path.dirname(files[0])
            for kind in ('val', 'drop', 'thr', 'dup'):
                for j in range(PER_KIND):
                    out, ln, k = corrupt(lines, kind, rnd)
                    if out is None:
                        continue
                    p = os.path.join(wd, 'mut_%s_%d.ndjson' % (kind, j))
                    open(p, 'w').write('\n'.join(out) + '\n')
                    mutants.append((kind, p, ln, k))
            fnd, _ = core.validate([m[1] for m in mutants], spec, cfgp, tag='bindm')
            bad = {f['file'] for f in fnd if f['kind'] in ('rejected', 'invariant', 'error')}
            acc = []
            for kind, p, ln, k in mutants:
                r = res.setdefault(kind, [0, 0])
                r[1] += 1
                if p in bad:
                    r[0] += 1
                else:
                    acc.append('%s@%s' % (kind, k))
            print('%-4s %-22s events=%-5d unchanged=%s  rejected: %s  accepted: %s' % (
                cd.pid, spec, len(lines), 'accepted' if base_ok else 'REJECTED',
                ' '.join('%s %d/%d' % (k, v[0], v[1]) for k, v in res.items()), ','.join(acc) or '-'), flush=True)
    core.cleanup()


if __name__ == '__main__':
    main()

#!/bin/bash
# usage: mkworktree.sh <dir>   creates a scratch git worktree of /repo HEAD with googletest and a configured _build
set -e
d="$1"
git -C /repo worktree add --detach "$d" HEAD >/dev/null 2>&1
if [ ! -e "$d/ThirdParty/googletest/CMakeLists.txt" ]; then
  rm -rf "$d/ThirdParty/googletest"; cp -r /repo/ThirdParty/googletest "$d/ThirdParty/googletest"
fi
cmake -G Ninja -S "$d" -B "$d/_build" -DCMAKE_CXX_FLAGS=-Wno-error -DCMAKE_BUILD_TYPE=$(grep CMAKE_BUILD_TYPE:STRING /repo/_build/CMakeCache.txt | cut -d= -f2) >/dev/null 2>&1
echo "$d ready"

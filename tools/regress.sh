#!/bin/bash
# runs the quick tier of every claimed check on the unchanged tree; prints one line per check
cd /verif
for id in $(python3 -c "import json;print(' '.join(c['property_id'] for c in json.load(open('MANIFEST.json'))['checks']))") "$@"; do
  s=$(date +%s); out=$(timeout 1500 ./check $id 2>&1); rc=$?; e=$(date +%s)
  echo "$id rc=$rc $((e-s))s $(echo "$out" | grep -E '^(OK|VIOLATION|INFRA|DRIFT)' | head -2 | cut -c1-160 | tr '\n' ' ')"
done

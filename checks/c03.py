"""C03 - lr_guarded readers see only complete, current states."""
from vlib import engine
from vlib.engine import CheckDef, ModelRun, prog_string

OPS = {'modify': 0, 'read': 1, 'read2': 2, 'relay': 3}
R = '1,2'


class C03(CheckDef):
    pid = 'C03'
    tags = ('C03', 'C07')   # C03 quantifies over the memory-model behaviours of the atomics involved
    harness = 'lr'
    models = {
        'quick': [ModelRun('LeftRightMC.tla', 'LeftRight_quick.cfg', workers=16,
                           note='1 writer x 2 + readers x 2/1; 2 writers x 1 + 2 readers x 1; every reader may read once or twice under one handle')],
        'thorough': [ModelRun('LeftRightMC.tla', 'LeftRight_quick.cfg', workers=16, note='quick mixes'),
                     ModelRun('LeftRightMC.tla', 'LeftRight_thorough1.cfg', workers=16, xmx='28g', note='2 writers x 2 + 2 readers x 2'),
                     ModelRun('LeftRightMC.tla', 'LeftRight_thorough2.cfg', workers=16, xmx='28g', note='1 x 2 + 3 readers x 2; 2 writers x 3 + 1 reader x 2'),
                     ModelRun('LeftRightMC.tla', 'LeftRight_throw.cfg', workers=16, xmx='28g', note='with up to 2 injected exceptions')],
    }
    conf = ModelRun('LeftRightMC.tla', 'LeftRight_conf.cfg', workers=16)
    conf_limit = {'quick': 2500, 'thorough': 60000}
    trace_spec = ('LeftRightTrace.tla', 'LeftRightTrace.cfg')
    monitors = [('LeftRightMon.tla', 'LeftRightMon.cfg'), ('HB.tla', 'HB.cfg')]
    programs = {
        'quick': [('0;0/%s;%s/%s;%s' % ((R,) * 4), {}, 1500, 'random'), ('0;0/0;0/%s;%s/%s' % ((R,) * 3), {}, 1500, 'random'),
                  ('0;0;0/0;0/2;2;2', {}, 1000, 'pct'), ('0/0/0/%s;%s' % (R, R), {}, 800, 'random'), ('0/2/1', {}, 3000, 'pb1'), ('0/0/2', {}, 3000, 'pb1'),
                  ('0;0/%s;%s/%s' % (R, R, R), {'maxthrows': 1}, 700, 'random')],   # a functor throwing in its first or its second invocation
        'thorough': [('0;0/%s;%s/%s;%s' % ((R,) * 4), {}, 25000, 'random'), ('0;0/0;0/%s;%s/%s' % ((R,) * 3), {}, 25000, 'random'),
                     ('0;0;0/0;0/2;2;2', {}, 20000, 'pct'), ('0/0/0/%s;%s' % (R, R), {}, 15000, 'random'),
                     ('0;0;0/0;0;0/%s;%s;%s/%s;%s;%s' % ((R,) * 6), {}, 25000, 'random'), ('0;0/0;0/2;2/2;2/1;1', {}, 20000, 'pct'), ('0;0/%s;%s/%s' % (R, R, R), {'maxthrows': 1}, 15000, 'random'),
                     ('0;0;0/0;0/2;2', {'maxthrows': 2}, 10000, 'random')],
    }
    assumptions = ['bounded: TLC results are for the thread/operation counts named in the configs',
                   'sequentially consistent interleavings here; the memory orders of the four control variables are decided under C07',
                   'payload = two-word Cell; modification by thread t maps v to 4v+t so values encode the sequence of modifications']

    def path_header(self, s0):
        return 'prog=%s' % prog_string(s0['prog'])

    def call_alt(self, ev, s0, pos):
        return s0['prog'][ev['t'] - 1][pos].index(OPS[ev['o']])

    fields = ('t', 'k', 'o', 'v', 'w', 'i')


DEF = C03()


def run(tier, seed):
    return engine.run_check(DEF, tier, seed)

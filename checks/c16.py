"""C16 - DelayedDestructor destroys late, once, and never under its own lock."""
from vlib import engine
from vlib.engine import CheckDef, ModelRun, prog_string

NAMES = ['add', 'drop', 'destroy', 'size', 'add_temp']
OPS = {n: i for i, n in enumerate(NAMES)}
A = '0,1,2,3,4'


def conf(cfg):
    return ModelRun('DelayedDestructorMC.tla', cfg)


class C16(CheckDef):
    pid = 'C16'
    tags = ('C16', 'C20')
    harness = 'dd'
    ignore_driver = True
    models = {'quick': [ModelRun('DelayedDestructorMC.tla', 'DD_quick.cfg', workers=16, note='adder/dropper/destroyer + a thread doing anything x 2; with and without callback; destructor / callback re-entering size()'),
                        ModelRun('DelayedDestructorMC.tla', 'DD_quick3.cfg', workers=16, note='3 threads incl. two concurrent destroyObjects, time-outs'),
                        ModelRun('DelayedDestructorMC.tla', 'DD_seq.cfg', note='every one-thread sequence of 5 operations, locked and single-thread class'),
                        ModelRun('DelayedDestructorMC.tla', 'DD_throw.cfg', workers=16, note='every callback invocation may throw'),
                        ModelRun('DelayedDestructorMC.tla', 'DD_nest.cfg', workers=16, note='destructor / callback calling destroyObjects() again (one level)')],
              'thorough': [ModelRun('DelayedDestructorMC.tla', c, workers=16, xmx='24g') for c in ('DD_quick.cfg', 'DD_quick3.cfg', 'DD_seq.cfg')] +
                          [ModelRun('DelayedDestructorMC.tla', 'DD_thorough.cfg', workers=16, xmx='28g', timeout=200, simulate='num=500000', note='3+2+1 operations: simulation')]}
    confs = [conf('DD_conf.cfg'), conf('DD_confst.cfg')]
    conf_limit = {'quick': 2400, 'thorough': None}
    trace_spec = ('DelayedDestructorTrace.tla', 'DelayedDestructorTrace.cfg')
    monitors = [('DelayedDestructorMon.tla', 'DelayedDestructorMon.cfg'), ('HB.tla', 'HB.cfg')]
    fields = ('t', 'k', 'o', 'i', 'v', 'w')
    programs = {
        'quick': [('%s;%s;%s/%s;%s/2,3' % ((A,) * 5), {'cb': 1, 'reenter': 1, 'locked': 1}, 700, 'random'), ('%s;%s;%s/%s;%s/2,3' % ((A,) * 5), {'cb': 1, 'reenter': 2, 'locked': 1}, 500, 'random'),
                  ('%s;%s;%s/%s;%s/2;2' % ((A,) * 5), {'cb': 0, 'reenter': 1, 'locked': 1}, 500, 'random'), ('0;1;2/2;2/4;2', {'cb': 1, 'reenter': 0, 'locked': 1}, 500, 'pct'),
                  ('%s;%s;%s;%s' % ((A,) * 4), {'cb': 1, 'reenter': 0, 'locked': 0}, 300, 'random'), ('4;4;4;2', {'cb': 1, 'reenter': 0, 'locked': 0, 'rev': 1}, 50, 'random'),
                  ('4;0;4;1;2;2', {'cb': 1, 'reenter': 0, 'locked': 0, 'rev': 1}, 50, 'random'), ('4;2/2;3', {'cb': 0, 'reenter': 1, 'locked': 1}, 4000, 'pb2'),
                  ('0;1/2;2', {'cb': 1, 'reenter': 2, 'locked': 1}, 4000, 'pb2'),
                  # user code calling destroyObjects() again
                  ('4;4;2/0;1;2/4;2', {'cb': 1, 'reenter': 4, 'locked': 1}, 400, 'random'), ('4;4;2/0;1;2/4;2', {'cb': 0, 'reenter': 3, 'locked': 1}, 400, 'random'),
                  # a throwing callback: the batch is still destroyed, in this call
                  ('4;4;2;3/0;2;1/2,3', {'cb': 1, 'reenter': 0, 'locked': 1, 'cbthrow': 1}, 400, 'random'),
                  # a thread held inside a callback / destructor: nobody else may have to wait for it
                  ('4;4;2/0;3;1/3;4;2', {'cb': 1, 'reenter': 0, 'locked': 1}, 500, 'stall'), ('4;2/0;3/3;4', {'cb': 0, 'reenter': 0, 'locked': 1}, 400, 'stall')],
        'thorough': [('%s;%s;%s/%s;%s/2,3' % ((A,) * 5), {'cb': 1, 'reenter': 1, 'locked': 1}, 15000, 'random'), ('%s;%s;%s/%s;%s/2,3' % ((A,) * 5), {'cb': 1, 'reenter': 2, 'locked': 1}, 10000, 'random'),
                     ('%s;%s;%s/%s;%s/2;2' % ((A,) * 5), {'cb': 0, 'reenter': 1, 'locked': 1}, 10000, 'random'), ('0;1;2/2;2/4;2', {'cb': 1, 'reenter': 0, 'locked': 1}, 8000, 'pct'),
                     ('%s;%s;%s;%s' % ((A,) * 4), {'cb': 1, 'reenter': 0, 'locked': 0}, 5000, 'random'), ('4;4;4;2', {'cb': 1, 'reenter': 0, 'locked': 0, 'rev': 1}, 50, 'random'),
                     ('4;0;4;1;2;2', {'cb': 1, 'reenter': 0, 'locked': 0, 'rev': 1}, 50, 'random'), ('4;2/2;3', {'cb': 0, 'reenter': 1, 'locked': 1}, 300000, 'pb2'),
                     ('0;1/2;2', {'cb': 1, 'reenter': 2, 'locked': 1}, 300000, 'pb2'), ('%s;%s;%s;%s/%s;%s;%s/2;3;2' % ((A,) * 7), {'cb': 1, 'reenter': 1, 'locked': 1}, 15000, 'random'),
                     ('4;4;2;3/0;2;1/2,3', {'cb': 1, 'reenter': 0, 'locked': 1, 'cbthrow': 1}, 10000, 'random'),
                     ('4;4;2/0;1;2/4;2', {'cb': 1, 'reenter': 4, 'locked': 1}, 10000, 'random'), ('4;4;2/0;1;2/4;2', {'cb': 1, 'reenter': 3, 'locked': 1}, 10000, 'random'),
                     ('%s;%s;%s/%s;%s/2,3' % ((A,) * 5), {'cb': 1, 'reenter': 4, 'locked': 1}, 10000, 'random'),
                     ('4;4;2/0;3;1/3;4;2', {'cb': 1, 'reenter': 0, 'locked': 1}, 10000, 'stall'), ('4;2/0;3/3;4', {'cb': 0, 'reenter': 0, 'locked': 1}, 8000, 'stall')],
    }
    assumptions = ['bounded object/thread counts; a thread keeps at most one external reference at a time',
                   'time is abstract: try_lock_for may time out whenever the lock is held; the 200 ms / sleep durations are not measured',
                   'user code (callback, element destructor) is a step that reports whether the calling thread holds the container lock']

    def driver_prefix(self, s0):
        return []

    def path_header(self, s0):
        c = s0['cfg']
        return 'prog=%s cb=%d reenter=%d locked=%d' % (prog_string(s0['prog']), 1 if c['cb'] else 0, c['reenter'], 1 if c['locked'] else 0)

    def call_alt(self, ev, s0, pos):
        return s0['prog'][ev['t'] - 1][pos].index(OPS[ev['o']])


DEF = C16()


def run(tier, seed):
    return engine.run_check(DEF, tier, seed)

"""C11 - TriggerVariable waits end only on their event, and the event wakes them."""
from vlib import engine
from vlib.engine import CheckDef, ModelRun, prog_string

OPS = {n: i for i, n in enumerate(['activate', 'trigger', 'wait', 'wait_for', 'waitActivation', 'wait_forActivation', 'reset',
                                   'isActive', 'isTriggered'])}
ALL = '0,1,2,3,4,5,6'


class C11(CheckDef):
    pid = 'C11'
    harness = 'trigger'
    models = {
        'quick': [ModelRun('TriggerMC.tla', 'Trigger_quick.cfg', workers=16,
                           note='3 threads x 1 operation over all 7 kinds, initially active and inactive')],
        'thorough': [ModelRun('TriggerMC.tla', 'Trigger_quick.cfg', workers=16, note='3 x 1, all kinds'),
                     ModelRun('TriggerMC.tla', 'Trigger_quick2.cfg', workers=16, xmx='24g', note='2 threads x 2 operations, all kinds'),
                     ModelRun('TriggerMC.tla', 'Trigger_thorough1.cfg', workers=16, xmx='24g', note='4 x 1: two waiters vs two setters'),
                     ModelRun('TriggerMC.tla', 'Trigger_thorough2.cfg', workers=16, xmx='24g', note='3 x 2: waiter vs two setters')],
    }
    conf = ModelRun('TriggerMC.tla', 'Trigger_conf.cfg', workers=16)
    conf_limit = {'quick': 2500, 'thorough': 40000}
    trace_spec = ('TriggerTrace.tla', 'TriggerTrace.cfg')
    monitors = [('TriggerMon.tla', 'TriggerMon.cfg')]
    programs = {
        'quick': [('0;1/2;4/6/3;5', {'active': 0}, 800, 'random'), ('%s;%s/%s;%s/0,1,6,7,8;0,1,6,7,8' % ((ALL,) * 4), {'active': 1}, 1200, 'random'),
                  ('2/1/6;0/2', {'active': 1}, 800, 'random'), ('4/0;6/0/4', {'active': 0}, 600, 'pct'),
                  ('%s/%s/%s/%s' % ((ALL,) * 4), {'active': 0}, 800, 'random'),
                  # two overlapping reset() calls against a re-activation and a waiter (the unlock / trigger / lock loop of reset)
                  ('6/6/0/2', {'active': 1}, 1200, 'random'), ('2/1', {'active': 1}, 2000, 'pb2'), ('0/4/6', {'active': 0}, 3000, 'pb1'), ('6/6;1/0;2', {'active': 1}, 600, 'pct')],
        'thorough': [('0;1/2;4/6/3;5', {'active': 0}, 15000, 'random'), ('%s;%s/%s;%s/0,1,6,7,8;0,1,6,7,8' % ((ALL,) * 4), {'active': 1}, 25000, 'random'),
                     ('2/1/6;0/2', {'active': 1}, 15000, 'random'), ('4/0;6/0/4', {'active': 0}, 10000, 'pct'),
                     ('%s/%s/%s/%s' % ((ALL,) * 4), {'active': 0}, 25000, 'random'),
                     ('%s;%s;%s/%s;%s;%s/%s;%s;%s' % ((ALL,) * 9), {'active': 1}, 25000, 'random'),
                     ('2;2/3;2/0;1;6;0;1/6;0', {'active': 0}, 15000, 'pct'), ('6/6/0/2', {'active': 1}, 25000, 'random'), ('6/6;1/0;2', {'active': 1}, 15000, 'pct'),
                     ('6/6/0/2', {'active': 1}, 300000, 'pb3')],
    }
    assumptions = ['bounded: TLC results are for the thread/operation counts named in the configs',
                   'activate() result is not constrained (C11 does not speak about it); reset() has two ordered effects as documented',
                   'SC interleavings (the acquire load in reset is covered under C07)']

    def path_header(self, s0):
        return 'prog=%s active=%d' % (prog_string(s0['prog']), 1 if s0['act0'] else 0)

    def call_alt(self, ev, s0, pos):
        return s0['prog'][ev['t'] - 1][pos].index(OPS[ev['o']])


DEF = C11()


def run(tier, seed):
    return engine.run_check(DEF, tier, seed)

"""C10 - Latch opens exactly when the count is reached and never loses a wake-up."""
from vlib import engine
from vlib.engine import CheckDef, ModelRun, prog_string

OPS = {'arrive': 0, 'wait': 1, 'arrive_and_wait': 2}


class C10(CheckDef):
    pid = 'C10'
    harness = 'latch'
    models = {
        'quick': [ModelRun('LatchMC.tla', 'Latch_quick.cfg', note='count 1..2; 3 threads x 1 op and 2 threads x 2 ops, ops chosen by the model')],
        'thorough': [ModelRun('LatchMC.tla', 'Latch_thorough.cfg', workers=16, xmx='24g',
                              note='count 1..3; 4x1, 3x2, 5x1, ops chosen by the model'),
                     ModelRun('LatchMC.tla', 'Latch_live.cfg', note='liveness under fairness: once the count is reached every operation returns')],
    }
    conf = ModelRun('LatchMC.tla', 'Latch_conf.cfg')
    conf_limit = {'quick': 2500, 'thorough': None}
    trace_spec = ('LatchTrace.tla', 'LatchTrace.cfg')
    monitors = [('LatchMon.tla', 'LatchMon.cfg')]
    programs = {
        'quick': [('0/0/1/2/1', {'count': 2}, 1500, 'random'), ('0;0/1/2/1;0', {'count': 3}, 1500, 'random'),
                  ('2/2/2/1', {'count': 3}, 1000, 'pct'), ('0/1/1', {'count': 1}, 800, 'random'),
                  ('0/0/1', {'count': 3}, 300, 'random'),
                  ('0/1/2', {'count': 2}, 3000, 'pb2'), ('0/0/1', {'count': 2}, 3000, 'pb2')],     # every schedule with at most 2 preemptions
        'thorough': [('0/0/1/2/1', {'count': 2}, 20000, 'random'), ('0;0/1/2/1;0', {'count': 3}, 20000, 'random'),
                     ('2/2/2/1', {'count': 3}, 20000, 'pct'), ('0/1/1', {'count': 1}, 10000, 'random'),
                     ('0;0;0/1;1/2;1/1;2', {'count': 4}, 20000, 'random'), ('0/0/1', {'count': 3}, 3000, 'random'),
                     ('2/2/2/2/2/1', {'count': 5}, 20000, 'pct'), ('0/1/2', {'count': 2}, 300000, 'pb3'), ('0/0/1/1', {'count': 2}, 300000, 'pb2'), ('0,1,2;0,1,2/0,1,2;0,1,2/0,1,2;0,1,2', {'count': 2}, 30000, 'random')],
    }
    assumptions = ['bounded: TLC results are for the thread/operation counts named in the configs',
                   'the substituted primitives implement C++ mutex / condition_variable semantics (validated by SyncTrace)',
                   'sequentially consistent interleavings (weak-memory behaviour of the fast-path load is covered under C07)']

    def path_header(self, s0):
        return 'prog=%s count=%d' % (prog_string(s0['prog']), s0['count0'])

    def call_alt(self, ev, s0, pos):
        menu = s0['prog'][ev['t'] - 1][pos]
        return menu.index(OPS[ev['o']])


DEF = C10()


def run(tier, seed):
    return engine.run_check(DEF, tier, seed)

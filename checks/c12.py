"""C12 - rcu_list traversals are consistent and writers are serialised."""
from vlib import engine
from checks.rcu_common import RcuBase


class C12(RcuBase):
    pid = 'C12'
    tags = ('C12', 'C07')   # a traversal racing with the construction / publication of what it reads is judged here too


DEF = C12()


def run(tier, seed):
    return engine.run_check(DEF, tier, seed)

"""C09 - Barrier releases a generation only when every participant has arrived."""
from vlib import engine
from vlib.engine import CheckDef, ModelRun, prog_string

OPS = {'wait': 0, 'wait_and_drop': 1}


class C09(CheckDef):
    pid = 'C09'
    harness = 'barrier'
    models = {
        'quick': [ModelRun('BarrierMC.tla', 'Barrier_quick.cfg', note='N=2 x 3 generations, N=3 x 2 generations; every wait may be a wait_and_drop'),
                  ModelRun('BarrierMC.tla', 'Barrier_live.cfg', note='liveness: once all participants of a generation arrived, all leave it')],
        'thorough': [ModelRun('BarrierMC.tla', 'Barrier_thorough.cfg', workers=16, xmx='24g', note='N=3 x 3 generations, N=4 x 2 generations'),
                     ModelRun('BarrierMC.tla', 'Barrier_live.cfg', note='liveness under fairness')],
    }
    conf = ModelRun('BarrierMC.tla', 'Barrier_conf.cfg')
    conf_limit = {'quick': 2500, 'thorough': None}
    trace_spec = ('BarrierTrace.tla', 'BarrierTrace.cfg')
    monitors = [('BarrierMon.tla', 'BarrierMon.cfg')]
    programs = {
        'quick': [('0;0;0/0;0;0/0;0;0', {}, 1200, 'random'), ('0;0;1/0;1/0;0;0', {}, 1200, 'random'),
                  ('0,1;0,1;0,1/0,1;0,1;0,1/0,1;0,1;0,1/0,1;0,1;0,1', {}, 1500, 'random'), ('0;0;0;0/0;0;0;0', {}, 800, 'pct'),
                  ('1/0;0/0;0', {}, 600, 'random'), ('0;0/0;0', {}, 3000, 'pb2'), ('0;1/0;0/1', {}, 3000, 'pb1')],
        'thorough': [('0;0;0/0;0;0/0;0;0', {}, 20000, 'random'), ('0;0;1/0;1/0;0;0', {}, 20000, 'random'),
                     ('0,1;0,1;0,1/0,1;0,1;0,1/0,1;0,1;0,1/0,1;0,1;0,1', {}, 30000, 'random'), ('0;0;0;0/0;0;0;0', {}, 10000, 'pct'),
                     ('1/0;0/0;0', {}, 10000, 'random'), ('0;0/0;0', {}, 300000, 'pb3'), ('0;1/0;0/1', {}, 300000, 'pb2'), ('0;0;0;0;0/0;0;0;0;0/0;0;1/0;0;0;1/0;1', {}, 20000, 'random'),
                     ('0,1;0,1;0,1;0,1/0,1;0,1;0,1;0,1/0,1;0,1;0,1;0,1', {}, 20000, 'pct')],
    }
    assumptions = ['bounded: TLC results are for the thread/generation counts named in the configs',
                   'threshold_/count_/generation_ are plain fields accessed under the mutex: attributed to the lock step',
                   'the barrier is constructed for exactly the participating threads; a dropped thread makes no further calls']

    def path_header(self, s0):
        return 'prog=%s' % prog_string(s0['prog'])

    def call_alt(self, ev, s0, pos):
        return s0['prog'][ev['t'] - 1][pos].index(OPS[ev['o']])


DEF = C09()


def run(tier, seed):
    return engine.run_check(DEF, tier, seed)

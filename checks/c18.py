"""C18 - every DelayedObjects future is fulfilled exactly once and never hangs."""
from vlib import engine
from vlib.engine import CheckDef, ModelRun, prog_string

KINDS = ['getFuture', 'set_copy', 'set_move', 'fulfillAll', 'finished', 'isRecognized', 'isCompleted', 'wait']
K1 = '1,11,21,30,41,51,61,71'
K13 = '1,11,30,41,61,71,3,13,23,43,63,73'
KALL = '1,11,21,30,41,51,61,71,2,12,72,3,13,23,43,53,63,73'


def code(name):
    return KINDS.index(name[:-1]) * 10 + int(name[-1])


class C18(CheckDef):
    pid = 'C18'
    tags = ('C18',)
    harness = 'dobj'
    ignore_driver = True
    models = {'quick': [ModelRun('DelayedObjectsMC.tla', 'DelayedObjects_quick.cfg', workers=16, note='3 threads x 1 op on key 1; 2 threads (2+1 ops) on an int and the string key'),
                        ModelRun('DelayedObjectsMC.tla', 'DelayedObjects_seq.cfg', note='one thread: every sequence of 4 operations (the inputs quantifier)')],
              'thorough': [ModelRun('DelayedObjectsMC.tla', 'DelayedObjects_quick.cfg', workers=16), ModelRun('DelayedObjectsMC.tla', 'DelayedObjects_seq.cfg'),
                           ModelRun('DelayedObjectsMC.tla', 'DelayedObjects_thorough.cfg', workers=16, xmx='24g', note='3 threads (2,2,1 ops); 2 threads (3,2 ops)')]}
    conf = ModelRun('DelayedObjectsMC.tla', 'DelayedObjects_conf.cfg')
    conf_limit = {'quick': 2500, 'thorough': None}
    trace_spec = ('DelayedObjectsTrace.tla', 'DelayedObjectsTrace.cfg')
    monitors = [('DelayedObjectsMon.tla', 'DelayedObjectsMon.cfg'), ('HB.tla', 'HB.cfg')]
    fields = ('t', 'k', 'o', 'i', 'v')
    programs = {
        'quick': [('%s;%s/%s;%s/%s' % ((KALL,) * 5), {}, 1500, 'random'), ('1;11;41/61;61;61/71;51', {}, 800, 'random'),
                  ('3;13/63;73/30;43', {}, 600, 'pct'), ('1;11/61;41/71', {}, 6000, 'pb2'), ('1;41;11/71', {}, 4000, 'pb2'), ('1;2;3/30/71;72;73', {}, 600, 'random')],
        'thorough': [('%s;%s/%s;%s/%s' % ((KALL,) * 5), {}, 30000, 'random'), ('1;11;41/61;61;61/71;51', {}, 15000, 'random'),
                     ('3;13/63;73/30;43', {}, 10000, 'pct'), ('1;11/61;41/71', {}, 300000, 'pb2'), ('1;41;11/71', {}, 100000, 'pb2'),
                     ('1;2;3/30/71;72;73', {}, 10000, 'random'), ('%s;%s;%s/%s;%s;%s/%s;%s' % ((KALL,) * 8), {}, 30000, 'random'),
                     ('1;11/21/30/61;71', {}, 300000, 'pb1')],
    }
    assumptions = ['bounded; a future is requested once per key (client-side claim); a consumer without a future does not wait',
                   'std::promise / std::future are the real ones (uninstrumented); a consumer is a scheduler-level wait for readiness',
                   'the sequential meaning of DelayedObjSeq.tla is what C18 states']

    def driver_prefix(self, s0):
        return []

    def path_header(self, s0):
        return 'prog=%s' % prog_string(s0['prog'])

    def call_alt(self, ev, s0, pos):
        return s0['prog'][ev['t'] - 1][pos].index(code(ev['o']))

    def alt_of(self, ev, s0, pos):
        return super().alt_of(ev, s0, pos)


DEF = C18()


def run(tier, seed):
    return engine.run_check(DEF, tier, seed)

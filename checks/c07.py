"""C07 - no data races: every granted access happens-after conflicting earlier ones.

Part 1: the HB vector-clock monitor (HB.tla), fed with the memory order every atomic access actually passed at run time, over
        executions of every harness (all wrappers and primitives).
Part 2: the left-right protocol under a view-based release/acquire memory model (LeftRightRA.tla) whose per-site memory orders are
        read from a recorded execution of the real lr_guarded.
"""
import json
import os
import time

from vlib import core, engine
from vlib.engine import CheckDef, ModelRun
from checks.guarded_common import P

R = '1,2'
W = '0,1,2'
KALL = '1,11,21,30,41,51,61,71,2,12,72,3,13,23,43,53,63,73'
ALLH = '11,12,21,111,122,211,222,300,400,501,502,601,602,712,721,811,812,821,901,902,1001,1002,1111,1112,1121'
AG = '0,101,102,201,202,301,302,401,412,420,402'
DDA = '0,1,2,3,4'
TALL = '0,1,2,3,4,5,6'


def part(harness, progs_quick, progs_thorough, extra_monitors=()):
    class Part(CheckDef):
        pid = 'C07'
        tags = ('C07',)
        conf = None
        trace_spec = None
        monitors = [('HB.tla', 'HB.cfg')] + list(extra_monitors)
        models = {'quick': [], 'thorough': []}
        programs = {'quick': progs_quick, 'thorough': progs_thorough}
        assumptions = ['vector clocks are exactly the happens-before relation of each recorded execution (no false positives); coverage is the set of explored executions',
                       'non-atomic library internals (plain fields) are not observable; payload and allocator accesses are']
    # plain=1: reads / writes of the library's plain internal fields (hook type gmlc_verif::plain<T>) are logged and judged too
    Part.programs = {k: [(pr, dict(a, plain=1), n, pol) for (pr, a, n, pol) in v] for k, v in Part.programs.items()}
    Part.harness = harness
    Part.__name__ = 'C07_' + harness
    return Part()


def scale(progs, k):
    return [(p, a, n * k, pol) for (p, a, n, pol) in progs]


Q = {
    'lr': [('0;0/%s;%s/%s;%s' % ((R,) * 4), {}, 600, 'random'), ('0;0/0;0/2;2', {'maxthrows': 1}, 300, 'random'), ('0/2/1', {}, 3000, 'pb1')],
    'cow': [('%s;%s/%s/3,4,5;3,4,5' % ((W,) * 3), {}, 500, 'random'), ('0/4', {}, 2000, 'pb1')],
    'rcu': [('1,2,6,7;1,2,6,7;3,4/0;0/5;3,4', {}, 500, 'random'), ('1;3/0/5', {}, 400, 'random'), ('2/3/3/0,8', {}, 300, 'random')],
    'deferred': [('0,1;0,1/0,1;0,1/2,3;2,3', {'mk': 3}, 500, 'random'), ('0;1/1;0/2,3,4,5/2,5', {'mk': 1}, 300, 'random')],
    'guarded': [P('0,1,3,4,8,9,10/0,1,3,4,8,9,10/0;9', 0, 0, 300), P('0,1,2,3/5,6,7,14/5,6,7;0', 2, 3, 400), P('11;11/12,5,8/12,6,9;11', 4, 2, 300),
                P('0,1,2,3,4,13/5,6,7/5,6,7', 3, 3, 300)],
    'latch': [('0/0/1/2/1', {'count': 2}, 400, 'random'), ('2/2/2/1', {'count': 3}, 300, 'random'),
              # publication through the latch (fast path included): exactly `count` arrivals, each publishing a datum
              ('0/0/1/1', {'count': 2, 'data': 1}, 400, 'random'), ('2/2/1;1', {'count': 2, 'data': 1}, 300, 'random'), ('0/2/0/1', {'count': 3, 'data': 1}, 300, 'random')],
    'barrier': [('0;0;0/0;0;0/0;0;0', {'data': 1}, 300, 'random'), ('0;0;1/0;1/0;0;0', {'data': 1}, 300, 'random')],
    'trigger': [('%s;%s/%s;%s/0,1,6,7,8;0,1,6,7,8' % ((TALL,) * 4), {'active': 1}, 400, 'random'), ('0;1/2;4/6/3;5', {'active': 0}, 300, 'random'),
                ('1/2/3;8/8;2', {'active': 1, 'data': 1}, 400, 'random')],
    'tripwire': [('31/41;41;41/41;11', {}, 500, 'random'), ('35/45;45/33/43;43', {}, 400, 'random'), ('31,11,12,2,22,50/11,41,12,2,22,50;11,41,12,2,22,50', {}, 400, 'random')],
    'dobj': [('%s;%s/%s;%s/%s' % ((KALL,) * 5), {}, 400, 'random')],
    'holder': [('%s;%s/%s;%s/%s' % ((ALLH,) * 5), {}, 300, 'random')],
    'atomic': [('%s;%s/%s;%s/%s' % ((AG,) * 5), {'wrap': 0, 'mk': 0}, 400, 'random'), ('0,101,202;0,101/0,102;0/0;0', {'wrap': 3, 'mk': 3}, 300, 'random')],
    'dd': [('%s;%s;%s/%s;%s/2,3' % ((DDA,) * 5), {'cb': 1, 'reenter': 1, 'locked': 1}, 300, 'random')],
}
PARTS = [part(h, Q[h], scale(Q[h], 20)) for h in Q]
DEF = PARTS[0]

SITES = ['O_WLoadRL', 'O_StoreRL', 'O_WLoadCL', 'O_Drain', 'O_StoreCL', 'O_RLoadCL', 'O_RInc', 'O_RLoadRL', 'O_RDec']


def extract_orders(seed):
    """memory orders the real lr_guarded passes at each access site of the left-right protocol (from a recorded execution)"""
    b = core.build_harness('lr')
    files, _ = core.run_harness(b, ['prog=0;0/1;1', 'pol=random'], 40, seed, jobs=1, tag='C07ra')
    orders = {s: set() for s in SITES}
    for f in files:
        for start, xe in core.executions(core.read_trace(f)):
            seq = {}
            for e in xe:
                t = e['t']
                if e['k'] == 'call':
                    seq[t] = (e['o'], [])
                elif e['k'] in ('ald', 'ast', 'arm') and t in seq:
                    seq[t][1].append(e)
                elif e['k'] == 'ret' and t in seq:
                    op, evs = seq.pop(t)
                    at = [x for x in evs]
                    if op == 'modify':
                        # ald rl; ast rl; ald cl; (ald cnt)*; ast cl; (ald cnt)*
                        loads_rl = [x for x in at if x['k'] == 'ald' and x['o'] == 'rl']
                        if loads_rl:
                            orders['O_WLoadRL'].add(loads_rl[0]['m'])
                        for x in at:
                            if x['k'] == 'ast' and x['o'] == 'rl':
                                orders['O_StoreRL'].add(x['m'])
                            if x['k'] == 'ast' and x['o'] == 'cl':
                                orders['O_StoreCL'].add(x['m'])
                            if x['k'] == 'ald' and x['o'] == 'cl':
                                orders['O_WLoadCL'].add(x['m'])
                            if x['k'] == 'ald' and x['o'] in ('cntL', 'cntR'):
                                orders['O_Drain'].add(x['m'])
                    else:
                        arms = [x for x in at if x['k'] == 'arm']
                        for x in at:
                            if x['k'] == 'ald' and x['o'] == 'cl':
                                orders['O_RLoadCL'].add(x['m'])
                            if x['k'] == 'ald' and x['o'] == 'rl':
                                orders['O_RLoadRL'].add(x['m'])
                        if len(arms) >= 2:
                            orders['O_RInc'].add(arms[0]['m'])
                            orders['O_RDec'].add(arms[-1]['m'])
    out = {}
    for s, v in orders.items():
        if len(v) != 1:
            return None, orders      # the protocol structure is not the modelled one: drift, not a verdict
        m = list(v)[0]
        out[s] = 2 if m == 1 else m   # consume is treated as acquire
    return out, orders


def run_ra(tier, seed):
    orders, raw = extract_orders(seed)
    info = {'orders_from_trace': {k: sorted(v) for k, v in raw.items()}}
    res = []
    if orders is None:
        info['status'] = 'DRIFT: access sites of lr_guarded could not be identified (protocol structure changed)'
        return info, res, 0, 0
    sizes = [(2, 1, 2), (2, 2, 1), (3, 1, 3), (3, 2, 1)] if tier == 'quick' else [(2, 1, 2), (2, 2, 1), (3, 1, 3), (3, 2, 1), (2, 2, 2), (2, 3, 1), (3, 2, 2)]
    states = trans = 0
    wd = core.workdir('C07ra')
    for (nw, nr, nreads) in sizes:
        cfg = os.path.join(wd, 'ra_%d_%d_%d.cfg' % (nw, nr, nreads))
        with open(cfg, 'w') as f:
            f.write('SPECIFICATION Spec\nCONSTANTS\n  NW = %d\n  NR = %d\n  NReads = %d\n' % (nw, nr, nreads))
            for s in SITES:
                f.write('  %s = %d\n' % (s, orders[s]))
            f.write('INVARIANTS ReaderIsolation NoRace\nCHECK_DEADLOCK FALSE\n')
        r = core.run_tlc('LeftRightRA.tla', cfg, workers=16, xmx='16g', timeout=600, dump_trace=True, tag='C07ra')
        core.log('[tlc] LeftRightRA NW=%d NR=%d NReads=%d orders=%s: %d distinct, %s' % (nw, nr, nreads, orders, r.distinct, r.violated or 'holds'))
        states += r.distinct
        trans += r.generated
        if r.error == 'timeout' and tier == 'thorough' and not r.violated:
            info.setdefault('partial', []).append('NW=%d NR=%d NReads=%d: stopped by the time limit after %d distinct states, no violation' % (nw, nr, nreads, r.distinct))
            continue
        if r.error and not r.violated:
            raise core.Infra('LeftRightRA failed: %s\n%s' % (r.error, r.out[-2000:]))
        if r.violated:
            rp = core.write_replay('C07', 'weak-memory', json.dumps(orders), 'LeftRightRA.tla', [], [], extra={'tlc_counterexample': r.cex, 'orders': orders})
            res.append({'what': 'C07: with the memory orders the code passes (%s) the left-right protocol admits a reader inside a copy the writer is modifying, or a payload access not ordered by happens-before after a conflicting one (%s refuted under the release/acquire model)' % (orders, r.violated),
                        'replay': rp, 'monitor': 'LeftRightRA'})
            break
    info['orders'] = orders
    info['configs'] = sizes
    return info, res, states, trans


def run(tier, seed):
    t0 = time.time()
    info, viol, st, tr = run_ra(tier, seed)
    total = engine.run_parts('C07', PARTS, tier, seed)
    total.violations = viol + total.violations
    # merge the RA model statistics into the evidence written by run_parts
    p = os.path.join(core.EVIDENCE_DIR, 'C07.json')
    ev = json.load(open(p))
    ev['coverage']['states'] = ev['coverage'].get('states', 0) + st
    ev['coverage']['transitions'] = ev['coverage'].get('transitions', 0) + tr
    ev['coverage']['release_acquire_model'] = info
    ev['coverage']['samples'].append({'kind': 'memory orders read from the recorded lr_guarded execution (0 relaxed 2 acquire 3 release 4 acq_rel 5 seq_cst)', 'orders': info.get('orders')})
    ev['violations'] = len(total.violations)
    ev['wall_s'] = round(time.time() - t0, 2)
    json.dump(ev, open(p, 'w'), indent=1)
    if 'status' in info:
        total.drift.append(info['status'])
    return total

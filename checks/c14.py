"""C14 - reads on lr_guarded, cow_guarded and rcu lists never wait for writers."""
from vlib import engine
from vlib.engine import ModelRun
from checks.c03 import C03
from checks.c04 import C04
from checks.rcu_common import RcuBase

RELAY = ';'.join(['3'] * 16)


class C14Lr(C03):
    pid = 'C14'
    tags = ('C14',)
    monitors = [('LeftRightMon.tla', 'LeftRightMon.cfg')]
    conf_limit = {'quick': 1200, 'thorough': 30000}
    models = {
        'quick': [ModelRun('LeftRightMC.tla', 'LeftRight_quick.cfg', workers=16, note='ReaderWaitFree: every reader step is ENABLED in every reachable state, whatever the writers are doing'),
                  ModelRun('LeftRightMC.tla', 'LeftRight_rlive.cfg', workers=16, note='readers complete under reader-only fairness (writers may be suspended for ever)'),
                  ModelRun('LeftRightMC.tla', 'LeftRight_live.cfg', workers=16, note='writers and readers complete under full fairness (no deadlock / livelock)')],
        'thorough': [ModelRun('LeftRightMC.tla', c, workers=16, xmx='28g') for c in ('LeftRight_quick.cfg', 'LeftRight_rlive.cfg', 'LeftRight_live.cfg', 'LeftRight_thorough1.cfg')],
    }
    programs = {
        'quick': [('0;0/1,2;1,2/1,2;1,2', {}, 800, 'solo'), ('0;0/0/2;2;2', {}, 500, 'solo'), ('0;0/%s/%s' % (RELAY, RELAY), {'budget': 8000, 'fair': 1}, 300, 'rr'),
                  ('0/%s/%s/1;1' % (RELAY, RELAY), {'budget': 8000, 'fair': 1}, 200, 'rr'), ('0;0/%s/%s' % (RELAY, RELAY), {'budget': 8000}, 200, 'random')],
        'thorough': [('0;0/1,2;1,2/1,2;1,2', {}, 15000, 'solo'), ('0;0/0/2;2;2', {}, 10000, 'solo'), ('0;0/%s/%s' % (RELAY, RELAY), {'budget': 8000, 'fair': 1}, 5000, 'rr'),
                     ('0/%s/%s/1;1' % (RELAY, RELAY), {'budget': 8000, 'fair': 1}, 3000, 'rr'), ('0;0/0;0/%s/%s' % (RELAY, RELAY), {'budget': 12000, 'fair': 1}, 3000, 'rr'),
                     ('0;0/0;0/%s/%s' % (RELAY, RELAY), {'budget': 12000}, 2000, 'pct')],
    }


class C14Cow(C04):
    pid = 'C14'
    tags = ('C14',)
    monitors = [('CowMon.tla', 'CowMon.cfg')]
    conf_limit = {'quick': 800, 'thorough': 20000}
    san = {'quick': False, 'thorough': False}
    models = {'quick': [ModelRun('CowMC.tla', 'Cow_quick.cfg', workers=16, note='ReaderWaitFree (ENABLED) and NoDeadlock'),
                        ModelRun('CowMC.tla', 'Cow_live.cfg', workers=16, note='termination under fairness')],
              'thorough': [ModelRun('CowMC.tla', 'Cow_quick.cfg', workers=16), ModelRun('CowMC.tla', 'Cow_live.cfg', workers=16),
                           ModelRun('CowMC.tla', 'Cow_thorough.cfg', workers=16, xmx='28g')]}
    programs = {'quick': [('0;0/4;4/3;3', {}, 500, 'solo'), ('0,1,2/0,1,2/3,4,5;3,4,5', {}, 500, 'solo')],
                'thorough': [('0;0/4;4/3;3', {}, 10000, 'solo'), ('0,1,2/0,1,2/3,4,5;3,4,5', {}, 10000, 'solo'), ('0;0;0/0;0/3;4;5', {}, 8000, 'solo')]}


class C14Rcu(RcuBase):
    pid = 'C14'
    tags = ('C14',)
    monitors = [('RcuMon.tla', 'RcuMon.cfg')]
    conf_limit = {'quick': 800, 'thorough': 20000}
    san = {'quick': False, 'thorough': False}
    models = {'quick': [ModelRun('RcuListMC.tla', 'Rcu_E.cfg', workers=16, note='ReaderNeverBlocked (ENABLED) with two erasers'),
                        ModelRun('RcuListMC.tla', 'Rcu_live.cfg', workers=16, note='termination under fairness')],
              'thorough': [ModelRun('RcuListMC.tla', 'Rcu_E.cfg', workers=16), ModelRun('RcuListMC.tla', 'Rcu_live.cfg', workers=16),
                           ModelRun('RcuListMC.tla', 'Rcu_A.cfg', workers=16, xmx='24g')]}
    programs = {'quick': [('1;3;2;3/0;0/0;8', {}, 600, 'solo'), ('1;2;6;7/0;8;5/3;4', {}, 500, 'solo'), ('1;2/0;0;0/8;8;8', {}, 400, 'solo')],
                'thorough': [('1;3;2;3/0;0/0;8', {}, 10000, 'solo'), ('1;2;6;7/0;8;5/3;4', {}, 10000, 'solo'), ('1;2/0;0;0/8;8;8', {}, 8000, 'solo')]}


PARTS = [C14Lr(), C14Cow(), C14Rcu()]
DEF = PARTS[0]
DEF2 = PARTS[1]


def run(tier, seed):
    return engine.run_parts('C14', PARTS, tier, seed)

"""C06 - deferred_guarded applies each modification once, exclusively, in order."""
from vlib import engine
from checks.deferred_common import DeferredBase


class C06(DeferredBase):
    pid = 'C06'
    tags = ('C06', 'C02', 'C07', 'C20')


DEF = C06()


def run(tier, seed):
    return engine.run_check(DEF, tier, seed)

"""C05 - rcu_list never frees an element a live handle may still reach."""
from vlib import engine
from checks.rcu_common import RcuBase


class C05(RcuBase):
    pid = 'C05'
    tags = ('C05', 'C07')


DEF = C05()


def run(tier, seed):
    return engine.run_check(DEF, tier, seed)

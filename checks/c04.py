"""C04 - cow_guarded snapshots are immutable; commits are atomic and never lost."""
from vlib import engine
from vlib.engine import CheckDef, ModelRun, prog_string

NAMES = ['write_commit', 'write_cancel', 'write_move_commit', 'snap_read', 'snap_hold', 'try_snap', 'write_move_stale_cancel']
OPS = {n: i for i, n in enumerate(NAMES)}
W = '0,1,2,6'
R = '3,4,5'


class C04(CheckDef):
    pid = 'C04'
    tags = ('C04', 'C07')
    harness = 'cow'
    ignore_driver = True
    models = {
        'quick': [ModelRun('CowMC.tla', 'Cow_quick.cfg', workers=16, note='2 writers x 1 (commit | cancel | move-then-commit) + reader (read or hold across commits)'),
                  ModelRun('CowMC.tla', 'Cow_quick2.cfg', workers=16, note='1 writer x 2 + reader x 2')],
        'thorough': [ModelRun('CowMC.tla', 'Cow_quick.cfg', workers=16), ModelRun('CowMC.tla', 'Cow_quick2.cfg', workers=16),
                     ModelRun('CowMC.tla', 'Cow_thorough.cfg', workers=16, xmx='28g', note='2 writers (2+1 ops) + reader x 2; 2 writers + 2 readers')],
    }
    conf = ModelRun('CowMC.tla', 'Cow_conf.cfg', workers=16)
    conf_limit = {'quick': 2500, 'thorough': None}
    trace_spec = ('CowTrace.tla', 'CowTrace.cfg')
    monitors = [('CowMon.tla', 'CowMon.cfg'), ('HB.tla', 'HB.cfg')]
    fields = ('t', 'k', 'o', 'i', 'v', 'w')
    san = {'quick': False, 'thorough': True}
    programs = {
        'quick': [('%s;%s/%s/%s;%s' % (W, W, W, R, R), {}, 1200, 'random'), ('0;0/0;1/4;4/3;5', {}, 1000, 'random'), ('1;0/1;6/4;4', {}, 800, 'pct'),
                  ('0;0/4;4/3;3', {}, 400, 'solo'), ('%s/%s/%s/%s' % (W, W, R, R), {}, 800, 'random'),
                  ('1/0', {}, 4000, 'pb2'), ('0,1,2,6/0,1,2,6/3', {}, 3000, 'pb1'), ('0/4', {}, 4000, 'pb2')],
        'thorough': [('%s;%s/%s/%s;%s' % (W, W, W, R, R), {}, 25000, 'random'), ('0;0/0;1/4;4/3;5', {}, 20000, 'random'), ('1;0/1;2/4;4', {}, 15000, 'pct'),
                     ('0;0/4;4/3;3', {}, 8000, 'solo'), ('%s/%s/%s/%s' % (W, W, R, R), {}, 15000, 'random'),
                     ('%s;%s/%s;%s/%s;%s;%s' % (W, W, W, W, R, R, R), {}, 20000, 'random'),
                     ('0,1,2/0,1,2', {}, 200000, 'pb2'), ('0,1,2/0,1,2/3,4', {}, 200000, 'pb1'), ('0;1/4;3', {}, 200000, 'pb2'), ('0/4/3', {}, 300000, 'pb2')],
    }
    assumptions = ['bounded thread/operation counts', 'the shared_ptr operations of the left-right slot are uninstrumented and attributed to the step after which they run',
                   'versions created with new are quarantined (never reused) so that reading a destroyed version is detected, not undefined; ASan+UBSan in the thorough tier']

    def driver_prefix(self, s0):
        return []

    def path_header(self, s0):
        return 'prog=%s' % prog_string(s0['prog'])

    def call_alt(self, ev, s0, pos):
        return s0['prog'][ev['t'] - 1][pos].index(OPS[ev['o']])


DEF = C04()


def run(tier, seed):
    return engine.run_check(DEF, tier, seed)

"""C01 - exclusive handles and whole-object operations are mutually exclusive."""
from vlib import engine
from vlib.engine import ModelRun
from checks.guarded_common import GuardedBase, P, X, XT, S, ST, LS


class C01(GuardedBase):
    pid = 'C01'
    tags = ('C01', 'C07', 'C20')
    models = {
        'quick': [ModelRun('GuardedMC.tla', 'Guarded_q1.cfg', note='guarded / guarded_opt: 2 threads, any of lock/try/timed/unlock/move/hand-over/load/store/assign'),
                  ModelRun('GuardedMC.tla', 'Guarded_q2.cfg', note='shared_guarded(_opt): exclusive vs shared handles, shared and plain mutex, enabled and disabled'),
                  ModelRun('GuardedMC.tla', 'Guarded_q3.cfg', note='ordered_guarded: modify/read/load/store/shared handles'),
                  ModelRun('GuardedMC.tla', 'Guarded_live.cfg', note='every program terminates under fairness (no deadlock, no leaked lock)')],
        'thorough': [ModelRun('GuardedMC.tla', c, workers=16, xmx='24g') for c in
                     ('Guarded_q1.cfg', 'Guarded_q2.cfg', 'Guarded_q3.cfg', 'Guarded_t1.cfg', 'Guarded_t2.cfg', 'Guarded_t3.cfg',
                      'Guarded_t4.cfg', 'Guarded_t5.cfg', 'Guarded_live.cfg')],
    }
    programs = {
        'quick': [P('%s,%s/%s,%s/%s;%s' % (X, LS, X, LS, X, LS), 0, 0, 500), P('%s,%s/%s,%s/0,2;9' % (XT, LS, XT, LS), 0, 1, 500),
                  P('%s,%s/%s,%s/%s' % (XT, LS, XT, LS, XT), 1, 1, 400), P('%s/%s/%s;0' % (X, S, S), 2, 2, 400),
                  P('%s/%s,14/%s;0/3;13' % (XT, ST, ST), 2, 3, 500), P('%s/%s/%s' % (XT, ST, ST), 3, 3, 400),
                  P('11;11/12,5,8/12,6,9;11/10', 4, 3, 500), P('11/12,8/9;11', 4, 0, 300), P('11,15;11,15/15;12/5,16;9', 4, 3, 400, maxthrows=1), P('15;15/11;15/12', 4, 1, 300, maxthrows=1), P('11;11/11;12/9,10', 4, 2, 300),
                  P('0;0/0/13;3', 0, 1, 400, 'pct'), P('0/1/9', 0, 0, 2500, 'pb2'), P('11/12/9', 4, 3, 2500, 'pb1'), P('0/5/3', 2, 3, 2500, 'pb1')],
        'thorough': [P('%s,%s/%s,%s/%s;%s' % (X, LS, X, LS, X, LS), 0, 0, 12000), P('%s,%s/%s,%s/0,2;9' % (XT, LS, XT, LS), 0, 1, 12000),
                     P('%s,%s/%s,%s/%s' % (XT, LS, XT, LS, XT), 1, 1, 10000), P('%s/%s/%s;0' % (X, S, S), 2, 2, 10000),
                     P('%s/%s,14/%s;0/3;13' % (XT, ST, ST), 2, 3, 12000), P('%s/%s/%s' % (XT, ST, ST), 3, 3, 10000),
                     P('%s/%s/%s' % (X, S, S), 3, 0, 8000), P('%s,%s/%s/%s' % (XT, LS, XT, XT), 1, 1, 8000),
                     P('11;11/12,5,8/12,6,9;11/10', 4, 3, 12000), P('11/12,8/9;11', 4, 0, 8000), P('11,15;11,15/15;12/5,16;9', 4, 3, 10000, maxthrows=1), P('15;15/11;15/12', 4, 1, 8000, maxthrows=2), P('11;11/11;12/9,10', 4, 2, 8000),
                     P('11;11/12;12/9;8', 4, 1, 8000), P('0;0/0/13;3', 0, 1, 10000, 'pct'),
                     P('0;1;2;3/4;13;0;1/8;9;10;0/2;2', 0, 1, 12000), P('0/1/9', 0, 0, 300000, 'pb3'), P('11/12/9', 4, 3, 300000, 'pb2'), P('0/5/3', 2, 3, 300000, 'pb2'),
                     P('0;4/2;8/10', 0, 1, 300000, 'pb2')],
    }
    assumptions = ['bounded: TLC results are for the thread/operation counts named in the configs',
                   'payload accesses are two-step windows of the harness Cell; an update by thread t maps v to 8v+t',
                   'plain fields of the wrappers are only touched under the mutex (attributed to the surrounding visible step)']


DEF = C01()


def run(tier, seed):
    return engine.run_check(DEF, tier, seed)

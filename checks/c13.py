"""C13 - rcu_list destroys and frees everything it allocated exactly once."""
from vlib import engine
from checks.rcu_common import RcuBase


class C13(RcuBase):
    pid = 'C13'
    tags = ('C13', 'C07')


DEF = C13()


def run(tier, seed):
    return engine.run_check(DEF, tier, seed)

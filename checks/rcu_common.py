"""Shared definitions for the rcu_list checks (C05, C12, C13; rcu part of C14)."""
from vlib.engine import CheckDef, ModelRun, prog_string

NAMES = ['traverse', 'push_back', 'push_front', 'erase_first', 'erase_second', 'touch', 'emplace_front', 'emplace_back', 'traverse_star',
         'push_back_throw']
OPS = {n: i for i, n in enumerate(NAMES)}
W = '1,2,6,7'
Er = '3,4'


class RcuBase(CheckDef):
    harness = 'rcu'
    trace_spec = ('RcuTrace.tla', 'RcuTrace.cfg')
    monitors = [('RcuMon.tla', 'RcuMon.cfg'), ('HB.tla', 'HB.cfg')]
    fields = ('t', 'k', 'o', 'i', 'v', 'w', 'u', 'm')
    conf = ModelRun('RcuListMC.tla', 'Rcu_conf.cfg', workers=16)
    conf_limit = {'quick': 2000, 'thorough': None}
    san = {'quick': False, 'thorough': True}
    models = {
        'quick': [ModelRun('RcuListMC.tla', 'Rcu_seq.cfg', note='one thread: every sequence of 4 handles over push/emplace front/back, erase first/second, traverse'),
                  ModelRun('RcuListMC.tla', 'Rcu_A.cfg', workers=16, xmx='16g', note='writer (push_back; erase) + traversing reader + short-lived handle, 1 node'),
                  ModelRun('RcuListMC.tla', 'Rcu_E.cfg', workers=16, note='push + two concurrent erasers of the same element')],
        'thorough': [ModelRun('RcuListMC.tla', 'Rcu_seq.cfg'), ModelRun('RcuListMC.tla', 'Rcu_A.cfg', workers=16, xmx='24g'),
                     ModelRun('RcuListMC.tla', 'Rcu_A2.cfg', workers=16, xmx='24g', note='writer (push_front; erase) + two traversing readers'),
                     ModelRun('RcuListMC.tla', 'Rcu_E.cfg', workers=16), ModelRun('RcuListMC.tla', 'Rcu_live.cfg', workers=16, note='termination under fairness'),
                     ModelRun('RcuListMC.tla', 'Rcu_B.cfg', workers=16, xmx='28g', timeout=200, simulate='num=400000', note='3 writer operations, 2 nodes, reader + short handle: simulation (graph too large to exhaust)'),
                     ModelRun('RcuListMC.tla', 'Rcu_C.cfg', workers=16, xmx='28g', timeout=200, simulate='num=400000', note='two writers, 2 nodes, reader: simulation')],
    }
    programs = {
        'quick': [('1;3/0/5', {}, 700, 'random'), ('%s;%s;%s/0;0/5;%s' % (W, W, Er, Er), {}, 800, 'random'),
                  ('1;2;3/3;4/0;5;0', {}, 600, 'random'), ('2/3/3/0,8', {}, 400, 'random'), ('1;1/3/3;3/8', {}, 500, 'random'), ('1,9;9;3/8;8/5;8', {}, 400, 'random'), ('1;7;4;3/0;0;0/5;5;5', {}, 400, 'pct'),
                  ('1;3;2;3/0;0/0;0', {}, 300, 'solo'), ('1;3/0/5', {}, 2500, 'pb1')],
        'thorough': [('1;3/0/5', {}, 20000, 'random'), ('%s;%s;%s/0;0/5;%s' % (W, W, Er, Er), {}, 25000, 'random'),
                     ('1;2;3/3;4/0;5;0', {}, 20000, 'random'), ('2/3/3/0,8', {}, 15000, 'random'), ('1;1/3/3;3/8', {}, 15000, 'random'), ('1,9;9;3/8;8/5;8', {}, 10000, 'random'), ('1;7;4;3/0;0;0/5;5;5', {}, 15000, 'pct'),
                     ('1;3;2;3/0;0/0;0', {}, 10000, 'solo'), ('1;3/0/5', {}, 300000, 'pb2'), ('2;3/3/0', {}, 200000, 'pb2'), ('%s;%s;%s;%s/%s;%s;0/0;5;0;5/5;0;%s' % (W, W, Er, Er, W, Er, Er), {}, 25000, 'random'),
                     ('1;1;1;4;3/0;0;0/3;4;0', {}, 20000, 'pct')],
    }
    assumptions = ['bounded: exhaustive TLC results for the small configurations named; larger ones by TLC simulation and by validated real executions',
                   'allocation, construction, destruction and plain fields (deleted, zombie_node) are attributed to the synchronisation step after which they run',
                   'element type with a non-trivial destructor; tracing allocator that quarantines freed blocks (ASan+UBSan build in the thorough tier)']

    ignore_driver = True

    def release_of(self, e):
        return e.get('m', 5) >= 3   # the registration stores its next pointer with memory_order_relaxed

    def driver_prefix(self, s0):
        return ['0:0', '0:0', '0:0', '0:0']      # rcu_list() stores null into head and tail under the scheduler (each followed by its pu step)

    def path_header(self, s0):
        return 'prog=%s' % prog_string(s0['prog'])

    def call_alt(self, ev, s0, pos):
        return s0['prog'][ev['t'] - 1][pos].index(OPS[ev['o']])

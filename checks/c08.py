"""C08 - a handle is non-null exactly when it holds the lock, and releases it once."""
from vlib import engine
from vlib.engine import ModelRun
from checks.deferred_common import DeferredBase
from checks.guarded_common import GuardedBase, P, X, XT, S, ST, LS, conf


class C08(GuardedBase):
    pid = 'C08'
    tags = ('C08',)
    confs = [conf('Guarded_confG.cfg', 0), conf('Guarded_confS.cfg', 2)]
    models = {
        'quick': [ModelRun('GuardedMC.tla', 'Guarded_q1.cfg', note='guarded/guarded_opt (enabled and disabled): every acquisition form x destroy/unlock/move/hand-over'),
                  ModelRun('GuardedMC.tla', 'Guarded_q2.cfg', note='shared_guarded(_opt): try/timed shared forms, enabled and disabled')],
        'thorough': [ModelRun('GuardedMC.tla', c, workers=16, xmx='24g') for c in
                     ('Guarded_q1.cfg', 'Guarded_q2.cfg', 'Guarded_t1.cfg', 'Guarded_t2.cfg', 'Guarded_t3.cfg', 'Guarded_t4.cfg')],
    }
    programs = {
        'quick': [P('%s/%s/%s' % (XT, XT, XT), 0, 1, 600), P('%s/%s/%s' % (XT, XT, XT), 1, 1, 400), P('%s/%s/%s' % (XT, XT, XT), 1, 1, 400, enabled=0),
                  P('%s/%s/%s' % (XT, ST, ST), 3, 3, 500), P('%s/%s/%s' % (XT, ST, ST), 3, 3, 400, enabled=0),
                  P('0;0/1;2/6;7/13;3', 2, 3, 400, 'solo'), P('0;0/1;1/5;6/3;4', 3, 1, 400, 'solo', enabled=0),
                  P('0;0/2;2/1;13', 1, 1, 300, 'solo', enabled=0), P('13;13/13;0/1;2', 0, 1, 500), P('%s/%s/%s' % (X, X, S), 2, 2, 300),
                  # disabled locking on a NON-shared mutex, several threads using the try / timed shared forms at once (seed C08e)
                  P('6;7/7;6/5;6', 3, 1, 300, 'solo', enabled=0), P('%s/%s/%s' % (ST, ST, XT), 3, 1, 300, enabled=0), P('6;5/6;6/6', 3, 0, 200, 'solo', enabled=0)],
        'thorough': [P('%s/%s/%s' % (XT, XT, XT), 0, 1, 15000), P('%s/%s/%s' % (XT, XT, XT), 1, 1, 10000),
                     P('%s/%s/%s' % (XT, XT, XT), 1, 1, 10000, enabled=0), P('%s/%s/%s' % (XT, ST, ST), 3, 3, 12000),
                     P('%s/%s/%s' % (XT, ST, ST), 3, 3, 10000, enabled=0), P('0;0/1;2/6;7/13;3', 2, 3, 10000, 'solo'),
                     P('0;0/1;1/5;6/3;4', 3, 1, 10000, 'solo', enabled=0), P('0;0/2;2/1;13', 1, 1, 8000, 'solo', enabled=0),
                     P('13;13/13;0/1;2', 0, 1, 12000), P('%s/%s/%s' % (X, X, S), 2, 2, 8000), P('%s/%s/%s' % (X, X, S), 3, 0, 8000, enabled=0),
                     P('3;1;2;0/1;2;3;13/2;1;4;4', 0, 1, 12000, 'pct'),
                     P('6;7/7;6/5;6', 3, 1, 6000, 'solo', enabled=0), P('%s/%s/%s' % (ST, ST, XT), 3, 1, 6000, enabled=0), P('6;5/6;6/6', 3, 0, 4000, 'solo', enabled=0)],
    }
    assumptions = ['bounded: TLC results are for the thread/operation counts named in the configs',
                   'a moved-from lock_handle keeps its raw pointer; C08 only constrains the lock (released exactly once, by the new owner)',
                   'time is abstract: a timed acquisition may time out whenever it would otherwise block']


DEF = C08()


class C08Deferred(DeferredBase):
    pid = 'C08'
    tags = ('C08',)
    conf_limit = {'quick': 800, 'thorough': 20000}
    models = {'quick': [DeferredBase.models['quick'][0]], 'thorough': DeferredBase.models['thorough'][:2]}
    # fcopy=1: copies / moves of the user's functor are user-code steps (they must not happen under the internal list lock, where
    # they would make try_lock_shared* wait for user code)
    programs = {'quick': DeferredBase.programs['quick'][:2] + DeferredBase.programs['quick'][3:]
                         + [('0/0/2;2/3;4;3', {'mk': 3, 'help': 1, 'fcopy': 1}, 700, 'stall'), ('0;1/1;0/2/3;4', {'mk': 3, 'help': 1, 'fcopy': 1}, 500, 'stall')],
                'thorough': DeferredBase.programs['thorough'][:2] + DeferredBase.programs['thorough'][3:6]
                            + [('0/0/2;2/3;4;3', {'mk': 3, 'help': 1, 'fcopy': 1}, 15000, 'stall'), ('0;1/1;0/2/3;4', {'mk': 3, 'help': 1, 'fcopy': 1}, 10000, 'stall')]}


DEF2 = C08Deferred()


def run(tier, seed):
    return engine.run_parts('C08', [DEF, DEF2], tier, seed)

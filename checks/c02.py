"""C02 - readers and writers never overlap; readers can share (guarded family part; deferred_guarded under C06)."""
from vlib import engine
from vlib.engine import ModelRun
from checks.deferred_common import DeferredBase
from checks.guarded_common import GuardedBase, P, X, XT, S, ST, LS, conf


class C02(GuardedBase):
    pid = 'C02'
    tags = ('C02', 'C07')
    confs = [conf('Guarded_confS.cfg', 2), conf('Guarded_confO.cfg', 4)]
    models = {
        'quick': [ModelRun('GuardedMC.tla', 'Guarded_q2.cfg', note='shared_guarded(_opt): exclusive vs shared handles over shared and plain mutexes'),
                  ModelRun('GuardedMC.tla', 'Guarded_q3.cfg', note='ordered_guarded modify/read/load/store/shared handles'),
                  ModelRun('GuardedMC.tla', 'Guarded_w2.cfg', note='plain mutex: shared access degrades to exclusive (AtMostOneSharedHolder holds)')],
        'thorough': [ModelRun('GuardedMC.tla', c, workers=16, xmx='24g') for c in
                     ('Guarded_q2.cfg', 'Guarded_q3.cfg', 'Guarded_w2.cfg', 'Guarded_t4.cfg', 'Guarded_t5.cfg')],
    }
    witness = ModelRun('GuardedMC.tla', 'Guarded_w1.cfg', note='sharing is real: TLC must REFUTE AtMostOneSharedHolder for shared mutexes')
    programs = {
        'quick': [P('%s/%s/%s;0' % (X, S, S), 2, 2, 500), P('%s/%s,14/%s;0' % (XT, ST, ST), 2, 3, 600),
                  P('%s/%s/%s' % (XT, ST, ST), 3, 3, 400), P('%s/%s/%s' % (X, S, S), 2, 0, 300), P('0,1,2/%s/%s' % (ST, ST), 2, 1, 300),
                  P('11;11/12,5,8/12,6,9;11', 4, 3, 500), P('11/12,5/12,6;11', 4, 2, 400), P('11/12,8/9;11', 4, 0, 300),
                  P('5;5/5;5/6;14', 2, 3, 300, 'solo'), P('12;12/12;5/5;6', 4, 2, 300, 'solo')],
        'thorough': [P('%s/%s/%s;0' % (X, S, S), 2, 2, 12000), P('%s/%s,14/%s;0' % (XT, ST, ST), 2, 3, 15000),
                     P('%s/%s/%s' % (XT, ST, ST), 3, 3, 10000), P('%s/%s/%s' % (X, S, S), 2, 0, 8000), P('0,1,2/%s/%s' % (ST, ST), 2, 1, 8000),
                     P('11;11/12,5,8/12,6,9;11', 4, 3, 12000), P('11/12,5/12,6;11', 4, 2, 10000), P('11/12,8/9;11', 4, 0, 8000),
                     P('11;11/12;12/9;8', 4, 1, 8000), P('5;5/5;5/6;14', 2, 3, 8000, 'solo'), P('12;12/12;5/5;6', 4, 2, 8000, 'solo'),
                     P('0;5;1;6/5;0;6;1/14;7;2;5/7;7', 2, 3, 12000)],
    }
    assumptions = ['bounded: TLC results are for the thread/operation counts named in the configs',
                   'reader sharing is a reachability obligation: decided by the model witness plus observed overlap of two shared handles on the real code']

    def post(self, res, cov, tier, seed):
        # sharing witness on the model
        from vlib import core
        import os
        r = core.run_tlc(self.witness.module, os.path.join(core.SPECS, self.witness.cfg), workers=8, tag='C02w')
        cov['sharing_witness_model'] = 'refuted as required' if r.violated == 'AtMostOneSharedHolder' else 'NOT refuted: %s' % (r.violated or r.error)
        if r.violated != 'AtMostOneSharedHolder':
            raise core.Infra('the model no longer exhibits reader sharing for shared mutexes')
        # sharing witness on the real code: two shared handles alive at once, per shared-capable configuration explored
        want = {}
        for rs in res.resets:
            p = rs.get('p', {})
            if p.get('mk') in (2, 3) and p.get('enabled', 1) == 1 and p.get('kind') in (2, 3, 4):
                prog = rs.get('prog', [])
                readers = sum(1 for th in prog if any(any(c in (5, 6, 7, 12, 14) for c in menu) for menu in th))
                if readers >= 2:
                    want[(p['kind'], p['mk'])] = want.get((p['kind'], p['mk']), 0) + 1
        got = {}
        for text, rs in res.monnotes:
            if text == 'shared-overlap' and rs:
                p = rs.get('p', {})
                got[(p.get('kind'), p.get('mk'))] = got.get((p.get('kind'), p.get('mk')), 0) + 1
        cov['sharing_witness_real'] = {'%d/%d' % k: {'executions_with_2_readers': v, 'with_overlapping_shared_handles': got.get(k, 0)}
                                       for k, v in want.items()}
        for k, v in want.items():
            if v >= 200 and got.get(k, 0) == 0 and k[0] != 4:
                rp = core.write_replay(self.pid, 'no sharing', 'kind=%d mk=%d' % k, 'h_guarded', [], [])
                res.violations.append({'what': 'C02: with a shared-capable mutex (kind=%d mk=%d) two readers never held shared handles at the same time in %d executions'
                                               % (k[0], k[1], v), 'replay': rp, 'monitor': 'GuardedMon sharing witness'})


DEF = C02()


class C02Deferred(DeferredBase):
    pid = 'C02'
    tags = ('C02', 'C07')
    conf_limit = {'quick': 800, 'thorough': 20000}
    models = {'quick': [DeferredBase.models['quick'][0]], 'thorough': DeferredBase.models['thorough'][:2]}
    programs = {'quick': DeferredBase.programs['quick'][:2] + DeferredBase.programs['quick'][3:],
                'thorough': DeferredBase.programs['thorough'][:2] + DeferredBase.programs['thorough'][3:6]}


DEF2 = C02Deferred()


def run(tier, seed):
    return engine.run_parts('C02', [DEF, DEF2], tier, seed)

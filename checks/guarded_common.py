"""Shared definitions for the guarded family checks (C01, C02, C08, and the guarded part of C15/C20)."""
from vlib.engine import CheckDef, ModelRun, prog_string

NAMES = ['lock_rmw', 'try_rmw', 'timed_rmw', 'lock_rmw_unlock', 'lock_move_rmw', 'shared_read', 'try_shared_read',
         'timed_shared_read', 'load', 'store', 'assign', 'modify', 'readf', 'handover', 'const_lock_read', 'modify_ret', 'readf_void']
OPS = {n: i for i, n in enumerate(NAMES)}


def conf(cfg, kind, hintmk=None):
    m = ModelRun('GuardedMC.tla', cfg, workers=16)
    m.hint = {'kind': kind}
    return m


class GuardedBase(CheckDef):
    harness = 'guarded'
    trace_spec = ('GuardedTrace.tla', 'GuardedTrace.cfg')
    monitors = [('GuardedMon.tla', 'GuardedMon.cfg'), ('HB.tla', 'HB.cfg')]
    fields = ('t', 'k', 'o', 'i', 'v', 'w')
    confs = [conf('Guarded_confG.cfg', 0), conf('Guarded_confS.cfg', 2), conf('Guarded_confO.cfg', 4)]
    conf_limit = {'quick': 2400, 'thorough': 45000}

    def path_header(self, s0):
        c = s0['cfg']
        kind = s0['_hint'].get('kind', 0)
        if not c['enabled']:
            kind = {0: 1, 2: 3}.get(kind, kind)       # the _opt wrapper is the one that can be disabled
        mk = 3 if c['shared'] else 1                   # the timed variants support every operation
        return 'prog=%s kind=%d mk=%d enabled=%d' % (prog_string(s0['prog']), kind, mk, 1 if c['enabled'] else 0)

    def call_alt(self, ev, s0, pos):
        return s0['prog'][ev['t'] - 1][pos].index(OPS[ev['o']])


def P(prog, kind, mk, n, pol='random', enabled=1, **kw):
    d = {'kind': kind, 'mk': mk, 'enabled': enabled}
    d.update(kw)
    return (prog, d, n, pol)


X = '0,1,3,4'          # exclusive handle ops available for every mutex kind
XT = '0,1,2,3,4,13'    # + timed and hand-over
S = '5,6'
ST = '5,6,7'
LS = '8,9,10'

"""C19 - a trip line is one-way, per line, and publishes what preceded it."""
from vlib import engine
from vlib.engine import CheckDef, ModelRun, prog_string

KINDS = {'trip': 0, 'poll': 1, 'movetrip': 2, 'publish': 3, 'consume': 4, 'badindex': 5, 'massign': 6}


def code(name):
    return KINDS[name[:-1]] * 10 + int(name[-1])


# 62 = a trigger of line 2 is move-assigned onto a trigger attached to line 1 (which is dropped untripped)
# lines 1, 3, 5 are publication lines: exactly one trigger (the publisher's) exists for them in a program, so that
# "the triggering thread" is unambiguous; lines 2 and 4 are tripped / moved / polled freely and carry no data
PUB1 = '31,11,12,2,22,50,62'        # the single publisher of line 1
ANY = '11,41,12,2,22,50,62'         # polls/consumes line 1; trips, move-trips and polls line 2
PUB3 = '33,13,14,4,24'           # first operation of the publisher of line 3 (indexed)
PUB5 = '35,13,14,4,24'           # second operation: publisher of line 5 (declared); each line is published at most once
ANY3 = '13,43,15,45,14,4,24'


class C19(CheckDef):
    pid = 'C19'
    tags = ('C19', 'C07')
    harness = 'tripwire'
    ignore_driver = True
    models = {'quick': [ModelRun('TripWireMC.tla', 'TripWire_quick.cfg', note='2 explicit lines; 3 threads; trip, poll, move-then-trip, publish, consume, bad index')],
              'thorough': [ModelRun('TripWireMC.tla', 'TripWire_quick.cfg'),
                           ModelRun('TripWireMC.tla', 'TripWire_thorough.cfg', workers=16, xmx='16g', note='2 operations per thread; indexed and declared lines')]}
    conf = ModelRun('TripWireMC.tla', 'TripWire_conf.cfg')
    conf_limit = {'quick': 2500, 'thorough': None}
    trace_spec = ('TripWireTrace.tla', 'TripWireTrace.cfg')
    monitors = [('TripWireMon.tla', 'TripWireMon.cfg'), ('HB.tla', 'HB.cfg')]
    fields = ('t', 'k', 'o', 'i', 'v', 'w')
    programs = {
        'quick': [('%s/%s;%s/%s;%s' % (PUB1, ANY, ANY, ANY, ANY), {}, 1500, 'random'), ('%s;%s/%s;%s/%s' % (PUB3, PUB5, ANY3, ANY3, ANY3), {}, 1200, 'random'),
                  ('31/41;41;41/41;11', {}, 800, 'random'), ('22;2/12;12;12/22;12;12/50;54', {}, 800, 'pct'), ('35/45;45/33/43;43', {}, 600, 'random'), ('31/41;41', {}, 2000, 'pb2'), ('62/11;11', {}, 2000, 'pb2')],
        'thorough': [('%s/%s;%s/%s;%s' % (PUB1, ANY, ANY, ANY, ANY), {}, 25000, 'random'), ('%s;%s/%s;%s/%s' % (PUB3, PUB5, ANY3, ANY3, ANY3), {}, 20000, 'random'),
                     ('31/41;41;41/41;11', {}, 15000, 'random'), ('22;2/12;12;12/22;12;12/50;54', {}, 15000, 'pct'), ('35/45;45/33/43;43', {}, 10000, 'random'), ('31/41;41/11', {}, 200000, 'pb2'), ('62;2/11;12/22', {}, 200000, 'pb2'),
                     ('%s;%s;%s/%s;%s;%s/%s;%s;%s' % ((PUB1, ANY, ANY) + (ANY,) * 6), {}, 25000, 'random')],
    }
    assumptions = ['bounded thread/operation counts; SC interleavings for the value clauses',
                   'the publication clause is decided by the HB monitor with the memory orders the code passes (release store / acquire load)',
                   'publication programs have a single trigger per data-carrying line (with several triggers on one line a consumer may read the plain store of another trigger, which does not continue the publisher\'s release sequence - noted in DESIGN 5 as outside the property)']

    def driver_prefix(self, s0):
        return []

    def path_header(self, s0):
        return 'prog=%s' % prog_string(s0['prog'])

    def call_alt(self, ev, s0, pos):
        return s0['prog'][ev['t'] - 1][pos].index(code(ev['o']))


DEF = C19()


def run(tier, seed):
    return engine.run_check(DEF, tier, seed)

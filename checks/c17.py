"""C17 - SearchableObjectHolder is an atomic, memory-safe name-to-object map."""
from vlib import engine
from vlib.engine import CheckDef, ModelRun, prog_string

KINDS = ['add', 'addT', 'addType', 'empty', 'getObjects', 'removeName', 'removePred', 'copy', 'checkType', 'findName', 'findPred', 'findPredType']
ALL = '11,12,21,111,122,211,222,300,400,501,502,601,602,712,721,811,812,821,901,902,1001,1002,1111,1112,1121'
ALL3 = '11,12,31,111,132,211,231,300,400,501,503,601,602,712,713,731,811,823,901,903,1001,1002,1111,1121'   # with the third name (<= 31 alternatives per menu)


def code(name):
    return KINDS.index(name[:-2]) * 100 + int(name[-2]) * 10 + int(name[-1])


class C17(CheckDef):
    pid = 'C17'
    tags = ('C17', 'C20')
    harness = 'holder'
    ignore_driver = True
    san = {'quick': True, 'thorough': True}      # memory safety is part of the property: every execution also runs under ASan+UBSan
    models = {'quick': [ModelRun('HolderMC.tla', 'Holder_seq.cfg', note='one thread: every sequence of 3 calls over all operations and arguments (names 1..2, objects 1..2, types 1..2)'),
                        ModelRun('HolderMC.tla', 'Holder_quick.cfg', workers=16, note='3 threads x 1 and 2 threads (2+1) over a representative operation set')],
              'thorough': [ModelRun('HolderMC.tla', 'Holder_seq.cfg'), ModelRun('HolderMC.tla', 'Holder_quick.cfg', workers=16),
                           ModelRun('HolderMC.tla', 'Holder_thorough.cfg', workers=16, xmx='28g', timeout=200, simulate='num=500000', note='all operations, 2 threads (2+1); 3 threads (2,2,1): simulation')]}
    conf = ModelRun('HolderMC.tla', 'Holder_conf.cfg')
    conf_limit = {'quick': 2000, 'thorough': None}
    trace_spec = ('HolderTrace.tla', 'HolderTrace.cfg')
    monitors = [('HolderMon.tla', 'HolderMon.cfg'), ('HB.tla', 'HB.cfg')]
    fields = ('t', 'k', 'o', 'i', 'v')
    programs = {
        'quick': [('%s;%s/%s;%s/%s' % ((ALL,) * 5), {}, 700, 'random'), ('%s;%s;%s;%s' % ((ALL3,) * 4), {}, 500, 'random'),
                  ('11;601;22/601;11/400;901;1001', {}, 600, 'pct'), ('111;601/1111;1111/501;111', {}, 3000, 'pb1'),
                  ('11;22;601/601;1001/400', {'predthrow': 2}, 400, 'random')],
        'thorough': [('%s;%s/%s;%s/%s' % ((ALL,) * 5), {}, 25000, 'random'), ('%s;%s;%s;%s;%s' % ((ALL3,) * 5), {}, 20000, 'random'),
                     ('11;601;22/601;11/400;901;1001', {}, 10000, 'pct'), ('111;601/1111;1111/501;111', {}, 200000, 'pb2'),
                     ('11;22;601/601;1001/400', {'predthrow': 2}, 8000, 'random'), ('%s;%s;%s/%s;%s;%s/%s;%s' % ((ALL3,) * 8), {}, 25000, 'random')],
    }
    assumptions = ['bounded name/object/type domains (3 names, 2 objects, 2 types)', 'predicates are pure functions of the object (user code under the lock)',
                   'memory safety = every specified step completes on the real code under ASan+UBSan']

    def driver_prefix(self, s0):
        return []

    def path_header(self, s0):
        return 'prog=%s' % prog_string(s0['prog'])

    def call_alt(self, ev, s0, pos):
        return s0['prog'][ev['t'] - 1][pos].index(code(ev['o']))


DEF = C17()


def run(tier, seed):
    return engine.run_check(DEF, tier, seed)

"""C20 - throwing user code never leaves a wrapper locked or half-modified."""
from vlib import engine
from vlib.engine import ModelRun
from checks.c03 import C03
from checks.c17 import C17
from checks.deferred_common import DeferredBase
from checks.guarded_common import GuardedBase, P, conf

R = '1,2'
S = '0,1'


class C20Lr(C03):
    pid = 'C20'
    tags = ('C20',)
    monitors = [('LeftRightMon.tla', 'LeftRightMon.cfg')]
    conf = None
    confs = None
    models = {'quick': [ModelRun('LeftRightMC.tla', 'LeftRight_throw.cfg', workers=16, xmx='16g',
                                 note='up to 2 injected exceptions at any of the four throw points of the two functor applications; OneOrder / ReaderIsolation keep holding')],
              'thorough': [ModelRun('LeftRightMC.tla', 'LeftRight_throw.cfg', workers=16, xmx='24g')]}
    programs = {'quick': [('0;0/%s;%s/%s' % (R, R, R), {'maxthrows': 1}, 800, 'random'), ('0;0;0/0;0/2;2', {'maxthrows': 2}, 800, 'random'),
                          ('0;0/2;2', {'maxthrows': 1}, 5000, 'pb1')],
                'thorough': [('0;0/%s;%s/%s' % (R, R, R), {'maxthrows': 1}, 15000, 'random'), ('0;0;0/0;0/2;2', {'maxthrows': 2}, 15000, 'random'),
                             ('0;0/2;2', {'maxthrows': 2}, 300000, 'pb2'), ('0;0;0/0;0;0/%s;%s;%s' % (R, R, R), {'maxthrows': 3}, 15000, 'random')]}


class C20Guarded(GuardedBase):
    pid = 'C20'
    tags = ('C20',)
    monitors = [('GuardedMon.tla', 'GuardedMon.cfg')]
    confs = [conf('Guarded_confO.cfg', 4)]
    conf_limit = {'quick': 600, 'thorough': None}
    models = {'quick': [ModelRun('GuardedMC.tla', 'Guarded_q4.cfg', workers=16, note='ordered_guarded modify (both overloads) with up to 2 throwing functors against readers / store / shared handles')],
              'thorough': [ModelRun('GuardedMC.tla', 'Guarded_q4.cfg', workers=16)]}
    programs = {'quick': [P('11,15;11,15/15;12/5,16;9', 4, 3, 600, maxthrows=1), P('15;15/11;15/12', 4, 1, 500, maxthrows=2), P('11;15/15;11/8;9', 4, 0, 400, maxthrows=1),
                          P('15/11/12', 4, 2, 4000, 'pb1', maxthrows=1)],
                'thorough': [P('11,15;11,15/15;12/5,16;9', 4, 3, 10000, maxthrows=1), P('15;15/11;15/12', 4, 1, 8000, maxthrows=2), P('11;15/15;11/8;9', 4, 0, 8000, maxthrows=1),
                             P('15/11/12', 4, 2, 300000, 'pb2', maxthrows=2)]}


class C20Deferred(DeferredBase):
    pid = 'C20'
    tags = ('C20',)
    monitors = [('DeferredMon.tla', 'DeferredMon.cfg')]
    conf = None
    models = {'quick': [ModelRun('DeferredMC.tla', 'Deferred_throw.cfg', workers=16, xmx='16g', note='up to 2 throwing functors, direct and queued path')],
              'thorough': [ModelRun('DeferredMC.tla', 'Deferred_throw.cfg', workers=16, xmx='24g')]}
    programs = {'quick': [('%s;%s/%s/2;2' % (S, S, S), {'mk': 3, 'maxthrows': 1}, 800, 'random'), ('0;1/1;0/2;2;2', {'mk': 3, 'maxthrows': 2}, 600, 'random'),
                          ('0/0/2;2', {'mk': 3, 'maxthrows': 1}, 5000, 'pb1')],
                'thorough': [('%s;%s/%s/2;2' % (S, S, S), {'mk': 3, 'maxthrows': 1}, 15000, 'random'), ('0;1/1;0/2;2;2', {'mk': 3, 'maxthrows': 2}, 10000, 'random'),
                             ('0/0/2;2', {'mk': 3, 'maxthrows': 2}, 300000, 'pb2'), ('%s;%s/%s;%s/2;3;2' % (S, S, S, S), {'mk': 1, 'maxthrows': 2}, 10000, 'random')]}


class C20Holder(C17):
    pid = 'C20'
    tags = ('C20',)
    conf = None
    san = {'quick': False, 'thorough': True}
    models = {'quick': [ModelRun('HolderMC.tla', 'Holder_throw.cfg', workers=16, note='predicates may throw: the operation has no effect and the lock is released')],
              'thorough': [ModelRun('HolderMC.tla', 'Holder_throw.cfg', workers=16)]}
    programs = {'quick': [('11;22;601/601;1001/400', {'predthrow': 2}, 400, 'random'), ('11;601/22;1001;1111/901', {'predthrow': 1}, 400, 'random'), ('111;601/1111;901', {'predthrow': 1}, 3000, 'pb1')],
                'thorough': [('11;22;601/601;1001/400', {'predthrow': 2}, 8000, 'random'), ('11;601/22;1001;1111/901', {'predthrow': 1}, 8000, 'random'),
                             ('111;601/1111;901', {'predthrow': 1}, 200000, 'pb2'), ('11;601/22;1001;1111/901', {'predthrow': 3}, 8000, 'random')]}


PARTS = [C20Lr(), C20Guarded(), C20Deferred(), C20Holder()]
DEF = PARTS[0]
DEF2 = PARTS[1]


def run(tier, seed):
    return engine.run_parts('C20', PARTS, tier, seed)

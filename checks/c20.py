"""C20 - throwing user code never leaves a wrapper locked or half-modified."""
from vlib import engine
from vlib.engine import ModelRun
from checks.c03 import C03
from checks.c04 import C04, W as COWW, R as COWR
from checks.c15 import C15, AG, LS
from checks.c16 import C16, A as DDA
from checks.c17 import C17
from checks.deferred_common import DeferredBase
from checks.guarded_common import GuardedBase, P, conf

R = '1,2'
S = '0,1'


class C20Lr(C03):
    pid = 'C20'
    tags = ('C20',)
    monitors = [('LeftRightMon.tla', 'LeftRightMon.cfg')]
    conf = None
    confs = None
    models = {'quick': [ModelRun('LeftRightMC.tla', 'LeftRight_throw.cfg', workers=16, xmx='16g',
                                 note='up to 2 injected exceptions at any of the four throw points of the two functor applications; OneOrder / ReaderIsolation keep holding')],
              'thorough': [ModelRun('LeftRightMC.tla', 'LeftRight_throw.cfg', workers=16, xmx='24g')]}
    programs = {'quick': [('0;0/%s;%s/%s' % (R, R, R), {'maxthrows': 1}, 800, 'random'), ('0;0;0/0;0/2;2', {'maxthrows': 2}, 800, 'random'),
                          ('0;0/2;2', {'maxthrows': 1}, 5000, 'pb1')],
                'thorough': [('0;0/%s;%s/%s' % (R, R, R), {'maxthrows': 1}, 15000, 'random'), ('0;0;0/0;0/2;2', {'maxthrows': 2}, 15000, 'random'),
                             ('0;0/2;2', {'maxthrows': 2}, 300000, 'pb2'), ('0;0;0/0;0;0/%s;%s;%s' % (R, R, R), {'maxthrows': 3}, 15000, 'random')]}


class C20Guarded(GuardedBase):
    pid = 'C20'
    tags = ('C20',)
    monitors = [('GuardedMon.tla', 'GuardedMon.cfg')]
    confs = [conf('Guarded_confO.cfg', 4)]
    conf_limit = {'quick': 600, 'thorough': None}
    models = {'quick': [ModelRun('GuardedMC.tla', 'Guarded_q4.cfg', workers=16, note='ordered_guarded modify (both overloads) with up to 2 throwing functors against readers / store / shared handles')],
              'thorough': [ModelRun('GuardedMC.tla', 'Guarded_q4.cfg', workers=16)]}
    programs = {'quick': [P('11,15;11,15/15;12/5,16;9', 4, 3, 600, maxthrows=1), P('15;15/11;15/12', 4, 1, 500, maxthrows=2), P('11;15/15;11/8;9', 4, 0, 400, maxthrows=1),
                          P('15/11/12', 4, 2, 4000, 'pb1', maxthrows=1)],
                'thorough': [P('11,15;11,15/15;12/5,16;9', 4, 3, 10000, maxthrows=1), P('15;15/11;15/12', 4, 1, 8000, maxthrows=2), P('11;15/15;11/8;9', 4, 0, 8000, maxthrows=1),
                             P('15/11/12', 4, 2, 300000, 'pb2', maxthrows=2)]}


class C20Deferred(DeferredBase):
    pid = 'C20'
    tags = ('C20',)
    monitors = [('DeferredMon.tla', 'DeferredMon.cfg')]
    conf = None
    models = {'quick': [ModelRun('DeferredMC.tla', 'Deferred_throw.cfg', workers=16, xmx='16g', note='up to 2 throwing functors, direct and queued path')],
              'thorough': [ModelRun('DeferredMC.tla', 'Deferred_throw.cfg', workers=16, xmx='24g')]}
    programs = {'quick': [('%s;%s/%s/2;2' % (S, S, S), {'mk': 3, 'maxthrows': 1}, 800, 'random'), ('0;1/1;0/2;2;2', {'mk': 3, 'maxthrows': 2}, 600, 'random'),
                          ('0/0/2;2', {'mk': 3, 'maxthrows': 1}, 5000, 'pb1')],
                'thorough': [('%s;%s/%s/2;2' % (S, S, S), {'mk': 3, 'maxthrows': 1}, 15000, 'random'), ('0;1/1;0/2;2;2', {'mk': 3, 'maxthrows': 2}, 10000, 'random'),
                             ('0/0/2;2', {'mk': 3, 'maxthrows': 2}, 300000, 'pb2'), ('%s;%s/%s;%s/2;3;2' % (S, S, S, S), {'mk': 1, 'maxthrows': 2}, 10000, 'random')]}


class C20Holder(C17):
    pid = 'C20'
    tags = ('C20',)
    conf = None
    san = {'quick': False, 'thorough': True}
    models = {'quick': [ModelRun('HolderMC.tla', 'Holder_throw.cfg', workers=16, note='predicates may throw: the operation has no effect and the lock is released')],
              'thorough': [ModelRun('HolderMC.tla', 'Holder_throw.cfg', workers=16)]}
    programs = {'quick': [('11;22;601/601;1001/400', {'predthrow': 2}, 400, 'random'), ('11;601/22;1001;1111/901', {'predthrow': 1}, 400, 'random'), ('111;601/1111;901', {'predthrow': 1}, 3000, 'pb1')],
                'thorough': [('11;22;601/601;1001/400', {'predthrow': 2}, 8000, 'random'), ('11;601/22;1001;1111/901', {'predthrow': 1}, 8000, 'random'),
                             ('111;601/1111;901', {'predthrow': 1}, 200000, 'pb2'), ('11;601/22;1001;1111/901', {'predthrow': 3}, 8000, 'random')]}


class C20Atomic(C15):
    """the wrapped type's copy / assignment throws inside atomic_guarded and the whole-object load / store / operator= of the lock
    based wrappers: the call raises, has no effect, the lock is released (later calls of every thread complete) and the
    history stays linearizable (RegSeq: result 99 = threw, state unchanged)"""
    pid = 'C20'
    tags = ('C20', 'C15')
    monitors = [('AtomicRegisterMon.tla', 'AtomicRegisterMon.cfg')]
    trace_spec = None          # the algorithm-level model has no throwing copies; the sequential meaning (RegSeq) has
    conf = None
    confs = None
    models = {'quick': [], 'thorough': []}
    programs = {'quick': [('%s;%s/%s;%s/%s' % ((AG,) * 5), {'wrap': 0, 'mk': 0, 'copythrows': 2}, 600, 'random'),
                          ('%s;%s/%s;%s' % ((LS,) * 4), {'wrap': 1, 'mk': 1, 'copythrows': 1}, 300, 'random'),
                          ('%s;%s/%s;%s/0;0' % ((LS,) * 4), {'wrap': 3, 'mk': 3, 'copythrows': 2}, 400, 'random'),
                          ('301;0/302;0', {'wrap': 0, 'mk': 0, 'copythrows': 1}, 3000, 'pb1')],
                'thorough': [('%s;%s/%s;%s/%s' % ((AG,) * 5), {'wrap': 0, 'mk': 0, 'copythrows': 2}, 15000, 'random'),
                             ('%s;%s/%s;%s' % ((LS,) * 4), {'wrap': 1, 'mk': 1, 'copythrows': 2}, 8000, 'random'),
                             ('%s;%s/%s;%s' % ((LS,) * 4), {'wrap': 2, 'mk': 0, 'copythrows': 2}, 8000, 'random'),
                             ('%s;%s/%s;%s/0;0' % ((LS,) * 4), {'wrap': 3, 'mk': 3, 'copythrows': 2}, 10000, 'random'),
                             ('301;0/302;0/401;0', {'wrap': 0, 'mk': 0, 'copythrows': 2}, 200000, 'pb2')]}


class C20DD(C16):
    """the pre-destruction callback of DelayedDestructor throws (a std::exception or something else): destroyObjects swallows it,
    the objects of the batch are still destroyed exactly once and outside the lock, the container stays usable"""
    pid = 'C20'
    tags = ('C20', 'C16')
    monitors = [('DelayedDestructorMon.tla', 'DelayedDestructorMon.cfg')]
    confs = None
    conf = None
    models = {'quick': [ModelRun('DelayedDestructorMC.tla', 'DD_throw.cfg', workers=16, note='every callback invocation may throw')],
              'thorough': [ModelRun('DelayedDestructorMC.tla', 'DD_throw.cfg', workers=16)]}
    programs = {'quick': [('%s;%s;%s/%s;%s/2,3' % ((DDA,) * 5), {'cb': 1, 'reenter': 0, 'locked': 1, 'cbthrow': 1}, 400, 'random'),
                          ('%s;%s;%s/%s;%s/2,3' % ((DDA,) * 5), {'cb': 1, 'reenter': 1, 'locked': 1, 'cbthrow': 2}, 400, 'random'),
                          ('4;4;2;3;2', {'cb': 1, 'reenter': 0, 'locked': 0, 'cbthrow': 2}, 100, 'random')],
                'thorough': [('%s;%s;%s/%s;%s/2,3' % ((DDA,) * 5), {'cb': 1, 'reenter': 0, 'locked': 1, 'cbthrow': 1}, 10000, 'random'),
                             ('%s;%s;%s/%s;%s/2,3' % ((DDA,) * 5), {'cb': 1, 'reenter': 1, 'locked': 1, 'cbthrow': 2}, 10000, 'random'),
                             ('4;4;2;3;2', {'cb': 1, 'reenter': 0, 'locked': 0, 'cbthrow': 2}, 500, 'random'),
                             ('4;4;2/0;2;3', {'cb': 1, 'reenter': 0, 'locked': 1, 'cbthrow': 2}, 200000, 'pb2')]}


class C20Cow(C04):
    """the payload's copy constructor throws inside cow_guarded::lock(): the caller gets the exception, the inner read section and
    the writer mutex are released, nothing is published, later writers and readers proceed"""
    pid = 'C20'
    tags = ('C20', 'C04')
    monitors = [('CowMon.tla', 'CowMon.cfg')]
    conf = None
    san = {'quick': False, 'thorough': False}
    models = {'quick': [ModelRun('CowMC.tla', 'Cow_throw.cfg', workers=16, note='1-2 throwing copy constructions in lock()')],
              'thorough': [ModelRun('CowMC.tla', 'Cow_throw.cfg', workers=16)]}
    programs = {'quick': [('%s;%s/%s/%s;%s' % (COWW, COWW, COWW, COWR, COWR), {'copythrows': 2}, 500, 'random'), ('0;0/0;1/4;4', {'copythrows': 1}, 400, 'random'),
                          ('0;0/0', {'copythrows': 1}, 3000, 'pb1')],
                'thorough': [('%s;%s/%s/%s;%s' % (COWW, COWW, COWW, COWR, COWR), {'copythrows': 2}, 12000, 'random'), ('0;0/0;1/4;4', {'copythrows': 2}, 10000, 'random'),
                             ('0;0/0;0/3', {'copythrows': 2}, 200000, 'pb2')]}


PARTS = [C20Lr(), C20Guarded(), C20Deferred(), C20Holder(), C20Atomic(), C20DD(), C20Cow()]
DEF = PARTS[0]
DEF2 = PARTS[1]


def run(tier, seed):
    return engine.run_parts('C20', PARTS, tier, seed)

"""C15 - atomic_guarded and whole-object load/store behave as one atomic register."""
from vlib import engine
from vlib.engine import CheckDef, ModelRun, prog_string

KINDS = ['load', 'store', 'assign', 'exchange', 'cas']
AG = '0,101,102,201,202,301,302,401,412,420,402'
LS = '0,101,102,201,202'


def code(name):
    return KINDS.index(name[:-2]) * 100 + int(name[-2]) * 10 + int(name[-1])


def conf(cfg, wrap):
    m = ModelRun('AtomicRegisterMC.tla', cfg)
    m.hint = {'wrap': wrap}
    return m


class C15(CheckDef):
    pid = 'C15'
    tags = ('C15', 'C07')
    harness = 'atomic'
    ignore_driver = True
    models = {'quick': [ModelRun('AtomicRegisterMC.tla', 'AReg_quick.cfg', workers=16, note='atomic_guarded: 2 threads x 2 and 3 threads x 1 over all 5 operations, values 0..2'),
                        ModelRun('AtomicRegisterMC.tla', 'AReg_ls.cfg', workers=16, note='guarded / ordered_guarded / deferred_guarded load, store, assign; shared and plain mutex'),
                        ModelRun('AtomicRegisterMC.tla', 'AReg_seq.cfg', note='every one-thread sequence of 4 operations')],
              'thorough': [ModelRun('AtomicRegisterMC.tla', c, workers=16, xmx='24g') for c in ('AReg_quick.cfg', 'AReg_ls.cfg', 'AReg_seq.cfg', 'AReg_thorough.cfg')]}
    confs = [conf('AReg_confAG.cfg', 0), conf('AReg_confLS.cfg', 3), conf('AReg_confLD.cfg', 4)]
    conf_limit = {'quick': 2400, 'thorough': None}
    trace_spec = ('AtomicRegisterTrace.tla', 'AtomicRegisterTrace.cfg')
    monitors = [('AtomicRegisterMon.tla', 'AtomicRegisterMon.cfg'), ('HB.tla', 'HB.cfg')]
    fields = ('t', 'k', 'o', 'i', 'v', 'w')
    programs = {
        'quick': [('%s;%s/%s;%s/%s' % ((AG,) * 5), {'wrap': 0, 'mk': 0}, 1000, 'random'), ('%s;%s/%s;%s' % ((LS,) * 4), {'wrap': 1, 'mk': 1}, 500, 'random'),
                  ('%s;%s/%s;%s' % ((LS,) * 4), {'wrap': 2, 'mk': 0}, 400, 'random'), ('%s;%s/%s;%s/0;0' % ((LS,) * 4), {'wrap': 3, 'mk': 3}, 600, 'random'),
                  ('%s;%s/%s;%s/0;0' % ((LS,) * 4), {'wrap': 3, 'mk': 2}, 400, 'random'), ('0;0/0;0', {'wrap': 4, 'mk': 3}, 200, 'random'),
                  ('401;402/401;412', {'wrap': 0, 'mk': 0}, 4000, 'pb2'), ('101;0/202;0', {'wrap': 3, 'mk': 3}, 4000, 'pb2'), ('301/302/0', {'wrap': 0, 'mk': 1}, 4000, 'pb1'),
                  # atomic_guarded over a trivially copyable type whose == is not bytewise (monitor only: no payload windows)
                  ('%s;%s/%s;%s' % ((AG,) * 4), {'wrap': 5, 'mk': 0, 'notrace': 1}, 400, 'random')],
        'thorough': [('%s;%s/%s;%s/%s' % ((AG,) * 5), {'wrap': 0, 'mk': 0}, 25000, 'random'), ('%s;%s/%s;%s' % ((LS,) * 4), {'wrap': 1, 'mk': 1}, 10000, 'random'),
                     ('%s;%s/%s;%s' % ((LS,) * 4), {'wrap': 2, 'mk': 0}, 8000, 'random'), ('%s;%s/%s;%s/0;0' % ((LS,) * 4), {'wrap': 3, 'mk': 3}, 12000, 'random'),
                     ('%s;%s/%s;%s/0;0' % ((LS,) * 4), {'wrap': 3, 'mk': 2}, 8000, 'random'), ('0;0/0;0', {'wrap': 4, 'mk': 3}, 2000, 'random'),
                     ('401;402/401;412', {'wrap': 0, 'mk': 0}, 300000, 'pb2'), ('101;0/202;0', {'wrap': 3, 'mk': 3}, 300000, 'pb2'),
                     ('301/302/0', {'wrap': 0, 'mk': 1}, 300000, 'pb2'), ('%s;%s;%s/%s;%s;%s/%s;%s' % ((AG,) * 8), {'wrap': 0, 'mk': 3}, 25000, 'random'),
                     ('%s;%s/%s;%s/%s' % ((AG,) * 5), {'wrap': 5, 'mk': 0, 'notrace': 1}, 8000, 'random')],
    }
    assumptions = ['bounded: values 0..2, 2-3 threads', 'payload = harness Reg: accesses are observable two-step windows when they involve the wrapped instance',
                   'deferred_guarded offers only load among these operations (its modifications are C06)']

    def driver_prefix(self, s0):
        return []

    def path_header(self, s0):
        w = s0['cfg']['wrap']
        return 'prog=%s wrap=%d mk=%d' % (prog_string(s0['prog']), w, 3 if s0['cfg']['shared'] else (0 if w == 0 else 1))

    def call_alt(self, ev, s0, pos):
        return s0['prog'][ev['t'] - 1][pos].index(code(ev['o']))


DEF = C15()


def run(tier, seed):
    return engine.run_check(DEF, tier, seed)

"""deferred_guarded slice (C06; parts of C02, C08, C15, C20)."""
from vlib.engine import CheckDef, ModelRun, prog_string

NAMES = ['modify_detach', 'modify_async', 'shared_read', 'try_shared_read', 'timed_shared_read', 'load']
OPS = {n: i for i, n in enumerate(NAMES)}
S = '0,1'
R = '2,3'


class DeferredBase(CheckDef):
    harness = 'deferred'
    ignore_driver = True
    trace_spec = ('DeferredTrace.tla', 'DeferredTrace.cfg')
    monitors = [('DeferredMon.tla', 'DeferredMon.cfg'), ('HB.tla', 'HB.cfg')]
    fields = ('t', 'k', 'o', 'i', 'v', 'w')
    conf = ModelRun('DeferredMC.tla', 'Deferred_conf.cfg', workers=16)
    conf_limit = {'quick': 2000, 'thorough': None}
    models = {
        'quick': [ModelRun('DeferredMC.tla', 'Deferred_quick3.cfg', workers=16, xmx='16g', note='submitters 2+1 (detach or async) + reader x 2 (lock_shared or try), shared mutex'),
                  ModelRun('DeferredMC.tla', 'Deferred_throw.cfg', workers=16, xmx='16g', note='with up to 2 throwing functors')],
        'thorough': [ModelRun('DeferredMC.tla', 'Deferred_quick.cfg', workers=16, xmx='24g', note='2 submitters x 2 + reader x 2'),
                     ModelRun('DeferredMC.tla', 'Deferred_quick2.cfg', workers=16, xmx='24g', note='all shared forms and load, shared and plain mutex'),
                     ModelRun('DeferredMC.tla', 'Deferred_throw.cfg', workers=16, xmx='24g'),
                     ModelRun('DeferredMC.tla', 'Deferred_thorough.cfg', workers=16, xmx='28g', timeout=200, simulate='num=600000',
                              note='3 submitters x 2 + reader; 2 x 2 + 2 readers x 2: simulation')],
    }
    programs = {
        'quick': [('%s;%s/%s;%s/%s;%s' % (S, S, S, S, R, R), {'mk': 3}, 900, 'random'), ('0;1/1;0/2,3,4,5/2,5', {'mk': 1}, 600, 'random'),
                  ('%s;%s/%s/2;2' % (S, S, S), {'mk': 3, 'maxthrows': 1}, 600, 'random'), ('%s/%s/2;2;2/3;4;3' % (S, S), {'mk': 3}, 600, 'pct'),
                  ('%s;%s/2;2/2;3' % (S, S), {'mk': 2}, 400, 'random'), ('0;0/2;2;2/3;4;3', {'mk': 3, 'help': 1}, 400, 'solo'), ('0;0/2;2/2;2/0', {'mk': 3, 'help': 1}, 400, 'solo'), ('0/0/2;2', {'mk': 3}, 3000, 'pb1')],
        'thorough': [('%s;%s/%s;%s/%s;%s' % (S, S, S, S, R, R), {'mk': 3}, 25000, 'random'), ('0;1/1;0/2,3,4,5/2,5', {'mk': 1}, 15000, 'random'),
                     ('%s;%s/%s/2;2' % (S, S, S), {'mk': 3, 'maxthrows': 1}, 15000, 'random'), ('%s/%s/2;2;2/3;4;3' % (S, S), {'mk': 3}, 15000, 'pct'),
                     ('%s;%s/2;2/2;3' % (S, S), {'mk': 2}, 10000, 'random'), ('0;0/2;2;2/3;4;3', {'mk': 3, 'help': 1}, 10000, 'solo'), ('0;0/2;2/2;2/0', {'mk': 3, 'help': 1}, 10000, 'solo'), ('0/0/2;2', {'mk': 3}, 300000, 'pb2'), ('1/0/2;3', {'mk': 3}, 300000, 'pb2'),
                     ('%s;%s/%s;%s/%s;%s/2;2;5' % (S, S, S, S, S, S), {'mk': 3}, 25000, 'random'), ('%s;%s/%s;%s/2;3' % (S, S, S, S), {'mk': 0}, 10000, 'random')],
    }
    assumptions = ['bounded: exhaustive TLC results for the configurations named; larger ones by simulation and validated executions',
                   'a submission with digit d maps the value v to 8v+d, so the value is the sequence of applied modifications',
                   'the private mutex inside each queued task runner (guarded<packaged_task>) is uncontended and consumed as a stuttering step']

    def path_header(self, s0):
        return 'prog=%s mk=%d' % (prog_string(s0['prog']), 3 if s0['shared'] else 1)

    def call_alt(self, ev, s0, pos):
        return s0['prog'][ev['t'] - 1][pos].index(OPS[ev['o']])

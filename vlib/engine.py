"""Generic check engine: one CheckDef per property (or per group of properties sharing a harness).

Pipeline of a check (DESIGN 3.3-3.5):
  1. build the harness from the repository's working tree (substitution layer on)
  2. TLC: exhaustive check of the property on the bounded specification (quick / thorough cfg)
  3. model -> code: edge cover of the conformance graph replayed on the real object, event by event
  4. code -> model: seeded random / PCT exploration of the real object
  5. every recorded execution is validated by TLC against the algorithm-level trace specification
     (conformance; rejection = DRIFT, never a violation) and against the property monitor
     (rejection = candidate violation, confirmed by re-executing the schedule)
  6. evidence + verdict
"""
import json
import os
import re
import time

from . import core
from .core import log, Infra


class ModelRun:
    def __init__(self, module, cfg, workers=8, xmx='8g', timeout=300, simulate=None, note=''):
        self.module, self.cfg, self.workers, self.xmx, self.timeout, self.simulate, self.note = module, cfg, workers, xmx, timeout, simulate, note
        self.hint = {}
        self.expect = None


class CheckDef:
    pid = None
    harness = None
    harness_args = ()            # extra key=value args for every harness run
    models = {'quick': [], 'thorough': []}       # lists of ModelRun
    conf = None                  # ModelRun for the conformance graph (dumped)
    confs = None                 # or several of them (each may carry a .hint dict passed to path_header)
    conf_limit = {'quick': 2500, 'thorough': None}
    trace_spec = None            # (module, cfg) algorithm-level trace specification
    monitors = []                # list of (module, cfg) property monitors
    programs = {'quick': [], 'thorough': []}     # list of (prog string, {param: value}, n executions, policy)
    fields = ('t', 'k', 'o', 'v', 'w')
    san = {'quick': False, 'thorough': False}
    level = 'model_checking'
    assumptions = []
    rule = ''
    signature_known = None       # callable(text, evs) -> known-finding signature or None
    tags = ()                    # monitor violation tags (property ids) this check reports

    # --- hooks -------------------------------------------------------------------------------------
    def path_header(self, state0):
        """harness arguments (prog string, params) for a model path starting in state0"""
        raise NotImplementedError

    def nthreads(self, state0):
        return len(state0['prog'])

    def call_alt(self, ev, state0, pos):
        return 0

    def alt_of(self, ev, state0, pos):
        k = ev['k']
        if k == 'call':
            return self.call_alt(ev, state0, pos)
        if k == 'cvwake':
            return ev['v']
        if k in ('mtimed', 'stimed'):
            return 0 if ev['v'] == 1 else 1
        return 0

    def release_of(self, e):
        """is this atomic store / RMW of the model performed with release-or-stronger order in the code? (default: seq_cst)"""
        return True

    def driver_prefix(self, state0):
        """driver steps preceding the workers (objects constructed under the scheduler): list of 't:a'"""
        return []


def prog_string(prog):
    return '/'.join(';'.join(','.join(str(c) for c in menu) for menu in thread) for thread in prog)


def path_to_sched(cd, g, path, hint=None):
    s0 = dict(g.state0[path[0]])
    s0['_hint'] = hint or {}
    evs = [g.ev[n] for n in path[1:]]
    n = cd.nthreads(s0)
    steps = list(cd.driver_prefix(s0))
    steps += ['0:0'] * n                       # spawn all workers
    started = set()
    pos = {}
    for idx, e in enumerate(evs):
        t = e['t']
        # a model that has its own step for the bookkeeping step after a release (event kind pu) provides it itself
        nxt = next((x for x in evs[idx + 1:] if x['t'] == t), None)
        own_pu = nxt is not None and nxt['k'] == 'pu'
        if t not in started and t != 0:
            steps.append('%d:0' % t)          # its start step
            started.add(t)
        a = cd.alt_of(e, s0, pos.get(t, 0))
        if e['k'] == 'ret':
            pos[t] = pos.get(t, 0) + 1
        steps.append('%d:%d' % (t, a))
        # (if the thread takes no further step in this path its bookkeeping step is left pending: a model with a step of its own for it -
        # RcuList's e6p, where the zombie record is allocated - has not taken that step either)
        if not own_pu and nxt is not None and (e['k'] in ('munlock', 'sunlock') or (e['k'] in ('ast', 'arm') and cd.release_of(e)) or (e['k'] == 'cas' and e.get('u') == 1)):
            steps.append('%d:0' % t)          # the bookkeeping step after a release-type operation (pu)
    return cd.path_header(s0) + ' | ' + ' '.join(steps), evs


class Result:
    def __init__(self):
        self.violations = []   # dicts: what, replay
        self.drift = []
        self.known = []
        self.notes = []
        self.monnotes = []     # (text, reset event of the execution)
        self.resets = []       # reset events of all executions


def run_check(cd, tier, seed, write=True):
    t0 = time.time()
    tp = [time.time()]

    def phase(name):
        log('[time] %s %.1fs' % (name, time.time() - tp[0]))
        tp[0] = time.time()
    res = Result()
    cov = {'samples': [], 'trusted_base': ['TLC', 'CommunityModules Json/IOUtils', 'substitution layer vstd.hpp', 'g++ 12']}
    binary = core.build_harness(cd.harness, san=False)
    binaries = [('plain', binary)]
    if cd.san.get(tier):
        binaries.append(('asan+ubsan', core.build_harness(cd.harness, san=True)))

    phase('build')
    # ---- 2. model checking ---------------------------------------------------------------------
    states = transitions = 0
    model_notes = []
    for mr in cd.models[tier]:
        # quick tier: the small models finish in seconds, the limit only guards against a hang; thorough tier: a budget
        r = core.run_tlc(mr.module, os.path.join(core.SPECS, mr.cfg), workers=mr.workers, xmx=mr.xmx, timeout=mr.timeout if tier == 'thorough' else max(mr.timeout, 1500),
                         simulate=mr.simulate, dump_trace=True, tag=cd.pid)
        log('[tlc] %s %s: %d distinct / %d generated, depth %d, %.1fs%s' % (mr.module, mr.cfg, r.distinct, r.generated, r.depth, r.wall,
                                                                            (' VIOLATED ' + str(r.violated)) if r.violated else ''))
        partial = r.error == 'timeout' and (mr.simulate or tier == 'thorough')
        if r.error and not partial:
            raise Infra('TLC failed on %s/%s: %s\n%s' % (mr.module, mr.cfg, r.error, r.out[-3000:]))
        if partial and not mr.simulate:
            # thorough tier: a breadth-first run that does not finish within its time limit still checked every state it generated
            res.notes.append('%s/%s: stopped by its time limit (%ds) after %d distinct states, no violation among them (not exhaustive)'
                             % (mr.module, mr.cfg, mr.timeout, r.distinct))
        states += r.distinct
        transitions += r.generated
        model_notes.append({'module': mr.module, 'cfg': mr.cfg, 'distinct': r.distinct, 'generated': r.generated, 'depth': r.depth,
                            'wall_s': round(r.wall, 1), 'note': mr.note, 'exhaustive': mr.simulate is None and not partial})
        if r.violated:
            # the specification of the code as read violates the property: only a real execution can convict
            res.notes.append('model %s/%s violates %s' % (mr.module, mr.cfg, r.violated))
            raise Infra('the as-read specification %s (%s) violates %s - model error or unreplayed design defect:\n%s'
                        % (mr.module, mr.cfg, r.violated, r.out[-3000:]))
    cov['states'] = states
    cov['transitions'] = transitions
    cov['models'] = model_notes

    phase('tlc')
    all_files = []          # (file, origin)
    n_exec = 0
    # ---- 3. model -> code ------------------------------------------------------------------------
    replayed = 0
    replay_mismatch = []
    conf_list = cd.confs if cd.confs else ([cd.conf] if cd.conf is not None else [])
    cov['conformance_graphs'] = []
    for conf in conf_list:
        r, g = core.dump_graph(conf.module, os.path.join(core.SPECS, conf.cfg), workers=conf.workers, tag=cd.pid + 'conf',
                               xmx=conf.xmx)
        if g is None:
            raise Infra('conformance graph failed: %s\n%s' % (r.error or r.violated, r.out[-2000:]))
        lim = cd.conf_limit.get(tier)
        if tier == 'thorough' and (lim is None or lim > 10000):
            lim = 10000                       # per conformance graph: keeps a thorough run in the ten-minute range
        if lim is not None:
            lim = max(200, lim // len(conf_list))
        paths, nedges = core.edge_cover(g, limit=lim, seed=seed)
        lines = []
        expected = []
        for p in paths:
            line, evs = path_to_sched(cd, g, p, conf.hint)
            lines.append(line)
            expected.append(evs)
        log('[conf] %s: graph %d nodes, %d edges; %d root paths%s' % (conf.cfg, len(g.ev), nedges, len(paths),
                                                                       '' if lim is None else ' (limit %s)' % lim))
        cov['conformance_graphs'].append({'cfg': conf.cfg, 'nodes': len(g.ev), 'edges': nedges, 'paths_replayed': len(paths),
                                          'edge_cover_complete': lim is None or len(paths) < lim})
        jobs = core.NCPU
        chunks = [list(range(i, len(lines), jobs)) for i in range(jobs)]
        chunks = [c for c in chunks if c]
        files, summ = core.run_harness(binary, cd.harness_args, 0, seed, jobs=jobs, tag=cd.pid + 'rep', sched_lines=lines)
        n_here = 0
        for ci, f in enumerate(files):
            evs = core.read_trace(f)
            exs = core.executions(evs)
            idxs = chunks[ci]
            if len(exs) != len(idxs):
                raise Infra('replay produced %d executions for %d schedules' % (len(exs), len(idxs)))
            for (start, xe), pi in zip(exs, idxs):
                mm = core.compare_replay(expected[pi], xe, cd.fields, getattr(cd, 'ignore_driver', False))
                replayed += 1
                n_here += 1
                if mm is not None:
                    replay_mismatch.append({'schedule': lines[pi], 'at': mm, 'expected': expected[pi][mm] if mm < len(expected[pi]) else None})
            all_files.append((f, 'model-path'))
        n_exec += n_here
    if conf_list:
        log('[conf] replayed %d model paths on the real code: %d mismatches' % (replayed, len(replay_mismatch)))
        if replay_mismatch:
            res.drift.append('model->code replay: %d of %d paths diverge, first: %s' % (len(replay_mismatch), replayed,
                                                                                         json.dumps(replay_mismatch[0])[:600]))
        cov['model_paths_replayed'] = replayed
        cov['model_path_mismatches'] = len(replay_mismatch)

    # ---- 4. code -> model ------------------------------------------------------------------------
    mult = 4 if res.drift else 1
    for (label, b) in binaries:
        pbjobs = []
        for (prog, params, n, pol) in cd.programs[tier]:
            # budgets: what TLC can validate in reasonable time on 16 cores (a thorough run stays in the tens of minutes)
            if tier == 'thorough':
                n = min(n, 8000 if pol.startswith('pb') else 2500)
                if label != 'plain':
                    n = max(200, n // 3)           # the sanitizer build is several times slower
            elif pol.startswith('pb'):
                n = min(n, 6000)
            # notrace=1: executions outside the algorithm-level model (e.g. a payload without observable windows); they are
            # validated by the property monitors only
            monly = bool(params.get('notrace'))
            params = {k: v for k, v in params.items() if k != 'notrace'}
            plabel = 'monly-' + label if monly else label
            args = list(cd.harness_args) + ['prog=' + prog] + ['%s=%s' % kv for kv in params.items()]
            if pol.startswith('pb'):
                # exhaustive enumeration of all schedules with at most K preemptions (n = cap); one process per program
                pbjobs.append((prog, args + ['pb=' + pol[2:]], n * mult, pol))
                continue
            files, summ = core.run_harness(b, args + ['pol=' + pol], n * mult, seed, tag=cd.pid + 'rnd')
            n_exec += n * mult
            for f in files:
                all_files.append((f, '%s %s %s' % (plabel, pol, prog)))
        if pbjobs:
            from concurrent.futures import ThreadPoolExecutor

            def runpb(j):
                prog, args, cap, pol = j
                files, summ = core.run_harness(b, args, cap, seed, jobs=1, tag=cd.pid + 'pb')
                return prog, pol, files, summ, cap
            with ThreadPoolExecutor(max_workers=core.NCPU) as ex:
                for prog, pol, files, summ, cap in ex.map(runpb, pbjobs):
                    done = sum(v for k, v in summ.items() if k in ('done', 'deadlock', 'budget', 'crash', 'terminate', 'hang'))
                    n_exec += done
                    cov.setdefault('bounded_preemption', []).append({'prog': prog, 'bound': pol, 'schedules': done, 'exhausted': done < cap})
                    for f in files:
                        all_files.append((f, '%s %s %s' % (label, pol, prog)))
    log('[explore] %d executions recorded in %d trace files' % (n_exec, len(all_files)))

    phase('explore')
    # ---- 5. validation -----------------------------------------------------------------------------
    # merge into at most NCPU files per binary kind (one JVM per file)
    merged = []
    def kind_of(o):
        return 'monly' if o.startswith('monly') else ('asan' if o.startswith('asan') else 'plain')
    for kind in ('plain', 'asan', 'monly'):
        fs = [f for f, o in all_files if kind_of(o) == kind]
        if not fs:
            continue
        k = min(core.NCPU, len(fs))
        wd = core.workdir(cd.pid + 'merge' + kind)
        for i in range(k):
            out = os.path.join(wd, 'm%d.ndjson' % i)
            core.concat(fs[i::k], out)
            merged.append((out, kind))
    all_files = merged
    files = [f for f, _ in all_files]

    validated = 0
    if cd.trace_spec:
        fnd, st = core.validate([f for f, k in all_files if k != 'monly'], cd.trace_spec[0], os.path.join(core.SPECS, cd.trace_spec[1]), tag=cd.pid + 'tr', timeout=900 if tier == 'quick' else 3600)
        for x in fnd:
            if x['kind'] == 'error':
                raise Infra('trace validation failed: ' + x['text'])
            ex = core.exec_at_line_file(x['file'], x['line'] or 1)
            res.drift.append('%s at line %s of an execution of prog %s: %s' % (x['kind'], x['line'], ex[1][0]['o'] if ex else '?', x['text']))
        cov['trace_spec_states'] = st['states']
        log('[validate] %s: %d findings (drift)' % (cd.trace_spec[0], len(fnd)))
    phase('trace-spec validation')
    cands = []
    notes = []
    for (mod, cfg) in cd.monitors:
        fnd, st = core.validate(files, mod, os.path.join(core.SPECS, cfg), tag=cd.pid + 'mon', timeout=900 if tier == 'quick' else 3600)
        for x in fnd:
            if x['kind'] == 'error':
                raise Infra('monitor failed: ' + x['text'])
            if x['kind'] == 'note':
                notes.append(x)
                continue
            if x['kind'] == 'rejected':
                raise Infra('monitor %s got stuck at line %s of %s (monitors must accept every trace)' % (mod, x['line'], x['file']))
            mt = re.match(r'(C\d+):', x['text'])
            if mt and cd.tags and mt.group(1) not in cd.tags and not any(tg in x['text'] for tg in cd.tags):
                continue
            cands.append((mod, x))
        log('[validate] %s: %d candidate violations' % (mod, len([y for y in fnd if y['kind'] == 'monviol'])))

    # notes of the monitors (e.g. "two shared handles overlapped"): the reset event of their execution, one pass per file
    byfile = {}
    for x in notes:
        byfile.setdefault(x['file'], []).append(x)
    for f, xs in byfile.items():
        rs = core.resets_at_lines(f, [x['line'] for x in xs])
        for x in xs:
            res.monnotes.append((x['text'], rs.get(x['line'])))
    phase('monitor validation')
    # distinct / non-trivial counting (streamed, in parallel: the thorough tier records millions of events)
    total, sigs, nontrivial, resets, sample = core.scan_stats(files)
    res.resets += resets
    validated = total
    cov['traces_validated_against_impl'] = validated
    cov['evaluations'] = total
    cov['distinct_executions'] = len(sigs)
    cov['distinct_nontrivial'] = len(nontrivial)
    cov['rule'] = cd.rule or ('executions of the real code under the cooperative scheduler (model edge-cover paths + seeded random/PCT); '
                              'distinct = distinct event sequences; non-trivial = at least one context switch inside an API operation')
    if sample:
        cov['samples'].append({'kind': 'recorded execution of the real code: "thread kind object value" per step',
                               'schedule': core.sched_line(sample),
                               'events': ['%d %s %s %s' % (e['t'], e['k'], e['o'], e['v']) for e in sample if e['k'] not in core.LIFE]})
    cov['samples'].append({'kind': 'tlc configs', 'configs': [m['module'] + ' / ' + m['cfg'] for m in model_notes]})

    phase('counting')
    # ---- 6. confirm candidates ---------------------------------------------------------------------
    known = [k for k in core.load_known() if k.get('property') == cd.pid and k.get('status') == 'known']
    seen = set()
    per_text = {}
    for (mod, x) in cands:
        per_text[x['text']] = per_text.get(x['text'], 0) + 1
        if per_text[x['text']] > 3:
            continue
        ex = core.exec_at_line_file(x['file'], x['line'])
        if ex is None:
            continue
        start, xe = ex
        line = core.sched_line(xe)
        key = (x['text'], line)
        if key in seen:
            continue
        seen.add(key)
        # re-execute the schedule once: the violation must repeat
        origin = [o for f, o in all_files if f == x['file']][0]
        b = binaries[1][1] if origin.startswith('asan') else binary
        files2, _ = core.run_harness(b, cd.harness_args, 0, seed, jobs=1, tag=cd.pid + 'confirm', sched_lines=[line + ''])
        fnd2, _ = core.validate(files2, mod, os.path.join(core.SPECS, [c for m, c in cd.monitors if m == mod][0]), jobs=1, tag=cd.pid + 'confirm')
        again = [y for y in fnd2 if y['kind'] == 'monviol' and y['text'] == x['text']]
        if not again:
            res.notes.append('candidate %s did not repeat on re-execution (treated as infrastructure noise)' % x['text'])
            continue
        sig = cd.signature_known(x['text'], xe) if cd.signature_known else None
        if sig and any(k.get('signature') == sig for k in known):
            res.known.append('%s: %s' % (sig, x['text']))
            continue
        rp = core.write_replay(cd.pid, x['text'], line, 'h_' + cd.harness, list(cd.harness_args), xe)
        res.violations.append({'what': x['text'], 'replay': rp, 'monitor': mod})
        if len(res.violations) >= 5:
            break

    if hasattr(cd, 'post'):
        cd.post(res, cov, tier, seed)
    cov['candidate_violations'] = dict(per_text)
    cov['drift'] = res.drift[:5]
    wall = time.time() - t0
    cov['candidate_violations'] = dict(per_text)
    res.cov = cov
    if write:
        core.write_evidence(cd.pid, tier, seed, cd.level, cov, wall, len(res.violations), cd.assumptions)
    return res


def run_parts(pid, defs, tier, seed):
    """A property decided by several slices (harness + specification each): run them all, merge verdicts and evidence."""
    t0 = time.time()
    total = Result()
    cov = {'samples': [], 'parts': [], 'states': 0, 'transitions': 0, 'traces_validated_against_impl': 0, 'evaluations': 0,
           'distinct_executions': 0, 'distinct_nontrivial': 0, 'trusted_base': []}
    assumptions = []
    for cd in defs:
        log('=== part %s (%s)' % (cd.harness, type(cd).__name__))
        r = run_check(cd, tier, seed, write=False)
        total.violations += r.violations
        total.drift += r.drift
        total.known += r.known
        total.notes += r.notes
        c = r.cov
        for k in ('states', 'transitions', 'traces_validated_against_impl', 'evaluations', 'distinct_executions', 'distinct_nontrivial'):
            cov[k] += c.get(k, 0)
        cov['samples'] += c.get('samples', [])[:2]
        cov['trusted_base'] = c.get('trusted_base', [])
        cov['rule'] = c.get('rule', '')
        cov['parts'].append({k: v for k, v in c.items() if k not in ('samples', 'trusted_base', 'rule')} | {'harness': cd.harness})
        for a in cd.assumptions:
            if a not in assumptions:
                assumptions.append(a)
    core.write_evidence(pid, tier, seed, 'model_checking', cov, time.time() - t0, len(total.violations), assumptions)
    return total

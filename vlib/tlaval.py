"""Parser for TLA+ values as printed by TLC (states in dot dumps and error traces)."""
import re

_tok = re.compile(r'\s*(<<|>>|\|->|:>|@@|[\[\]\{\}\(\),]|"(?:[^"\\]|\\.)*"|-?\d+|[A-Za-z_][A-Za-z_0-9!]*)')


def tokenize(s):
    pos = 0
    out = []
    while pos < len(s):
        m = _tok.match(s, pos)
        if not m:
            if s[pos:].strip() == '':
                break
            raise ValueError('bad TLA value at %r' % s[pos:pos + 40])
        out.append(m.group(1))
        pos = m.end()
    return out


def parse(s):
    toks = tokenize(s)
    v, i = _val(toks, 0)
    return v


def _val(t, i):
    v, i = _atom(t, i)
    # function literal a :> b @@ c :> d
    if i < len(t) and t[i] == ':>':
        d = {}
        k = v
        while True:
            val, i = _atom(t, i + 1)
            d[k] = val
            if i < len(t) and t[i] == '@@':
                k, i = _atom(t, i + 1)
                assert t[i] == ':>'
                continue
            break
        return _fun(d), i
    return v, i


def _fun(d):
    ks = list(d.keys())
    if ks and all(isinstance(k, int) for k in ks) and sorted(ks) == list(range(1, len(ks) + 1)):
        return [d[k] for k in sorted(ks)]
    return d


def _atom(t, i):
    x = t[i]
    if x == '<<':
        out = []
        i += 1
        while t[i] != '>>':
            v, i = _val(t, i)
            out.append(v)
            if t[i] == ',':
                i += 1
        return out, i + 1
    if x == '{':
        out = []
        i += 1
        while t[i] != '}':
            v, i = _val(t, i)
            out.append(v)
            if t[i] == ',':
                i += 1
        return ('set', out) if False else out, i + 1
    if x == '[':
        d = {}
        i += 1
        while t[i] != ']':
            k = t[i]
            assert t[i + 1] == '|->', t[i:i + 3]
            v, i = _val(t, i + 2)
            d[k] = v
            if t[i] == ',':
                i += 1
        return d, i + 1
    if x == '(':
        v, i = _val(t, i + 1)
        assert t[i] == ')'
        return v, i + 1
    if x.startswith('"'):
        return bytes(x[1:-1], 'utf-8').decode('unicode_escape'), i + 1
    if re.match(r'-?\d+$', x):
        return int(x), i + 1
    if x == 'TRUE':
        return True, i + 1
    if x == 'FALSE':
        return False, i + 1
    return x, i + 1


def parse_state(text):
    """text: '/\\ a = 1\n/\\ b = <<..>>' -> dict"""
    st = {}
    parts = re.split(r'(?:^|\n)\s*/\\ ', text)
    for p in parts:
        p = p.strip()
        if not p:
            continue
        m = re.match(r'([A-Za-z_][A-Za-z_0-9]*) = (.*)$', p, re.S)
        if m:
            st[m.group(1)] = parse(m.group(2))
    return st

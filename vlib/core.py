"""Common machinery for the checks: build harnesses from the repository's working tree, run TLC,
run harnesses in parallel, validate traces with TLC, replay model behaviours, write evidence."""
import hashlib
import json
import os
import random
import re
import shutil
import subprocess
import sys
import time
from concurrent.futures import ThreadPoolExecutor, ProcessPoolExecutor

from . import tlaval

VERIF = os.path.dirname(os.path.dirname(os.path.abspath(__file__)))
REPO = os.environ.get('VERIF_REPO', '/repo')
BUILD = os.path.join(VERIF, 'build')
SPECS = os.path.join(VERIF, 'specs')
HARNESS = os.path.join(VERIF, 'harness')
JAR = '/opt/veriftools/tla/tla2tools.jar'
NCPU = min(16, os.cpu_count() or 4)

NONSTEP = {'reset', 'uaf', 'blocked', 'deadlock', 'budget', 'diverge', 'diverged', 'escaped', 'done', 'terminate', 'hang',
           'crash', 'enabled'}
LIFE = {'spawn', 'start', 'end', 'join', 'done', 'enabled', 'pu'}
ENDK = {'deadlock', 'budget', 'diverged', 'terminate', 'hang', 'crash'}


class Infra(Exception):
    """infrastructure failure: not a verdict (exit 2)"""


def log(*a):
    print(*a, flush=True)


def sh(cmd, timeout=None, env=None, cwd=None):
    e = dict(os.environ)
    if env:
        e.update(env)
    p = subprocess.run(cmd, stdout=subprocess.PIPE, stderr=subprocess.STDOUT, text=True, timeout=timeout, env=e, cwd=cwd)
    return p.returncode, p.stdout


_workdirs = []


def sweep_stale():
    """remove work directories left behind by runs whose process is gone (killed or timed-out runs)"""
    root = os.path.join(BUILD, 'run')
    if not os.path.isdir(root):
        return
    for d in os.listdir(root):
        m = re.search(r'-(\d+)$', d)
        if m and not os.path.exists('/proc/%s' % m.group(1)):
            shutil.rmtree(os.path.join(root, d), ignore_errors=True)


def workdir(tag):
    d = os.path.join(BUILD, 'run', '%s-%d' % (tag, os.getpid()))
    shutil.rmtree(d, ignore_errors=True)
    os.makedirs(d, exist_ok=True)
    _workdirs.append(d)
    return d


def cleanup():
    for d in _workdirs:
        shutil.rmtree(d, ignore_errors=True)


# ---------------------------------------------------------------------------------------------------
# building harnesses (always from the repository's current working tree; header-only => one compile)
def _pch(flags, san):
    """precompiled vstd.hpp, keyed by its contents and the flags"""
    src = os.path.join(HARNESS, 'vstd.hpp')
    key = hashlib.sha256((open(src).read() + ' '.join(flags)).encode()).hexdigest()[:16]
    d = os.path.join(BUILD, 'pch', key)
    gch = os.path.join(d, 'vstd.hpp.gch')
    if not os.path.exists(gch):
        os.makedirs(d, exist_ok=True)
        shutil.copy(src, os.path.join(d, 'vstd.hpp'))
        tmp = gch + '.%d.tmp' % os.getpid()
        rc, out = sh(['g++'] + flags + ['-x', 'c++-header', os.path.join(d, 'vstd.hpp'), '-o', tmp], timeout=600)
        if rc != 0:
            raise Infra('pch build failed:\n' + out[-3000:])
        os.replace(tmp, gch)
    return d


def build_harness(name, san=False, extra=()):
    src = os.path.join(HARNESS, 'h_%s.cpp' % name)
    flags = ['-std=c++17', '-O1', '-g', '-pthread', '-DGMLC_TDC_CONCURRENCY_VERIF'] + list(extra)
    if san:
        flags += ['-fsanitize=address,undefined', '-fno-omit-frame-pointer', '-fno-sanitize-recover=undefined']
    pch = _pch(flags, san)
    outdir = os.path.join(BUILD, 'bin')
    os.makedirs(outdir, exist_ok=True)
    out = os.path.join(outdir, 'h_%s%s.%d' % (name, '_san' if san else '', os.getpid()))
    cmd = ['g++'] + flags + ['-I', pch, '-include', 'vstd.hpp', '-I', REPO, '-I', HARNESS, src, '-o', out]
    t0 = time.time()
    rc, o = sh(cmd, timeout=900)
    if rc != 0:
        # a repository change that no longer compiles under the substitution layer is not a verdict
        raise Infra('harness build failed (%s):\n%s' % (name, o[-4000:]))
    log('[build] h_%s%s from %s in %.1fs' % (name, ' (asan+ubsan)' if san else '', REPO, time.time() - t0))
    _bins.append(out)
    return out


_bins = []


def remove_bins():
    for b in _bins:
        try:
            os.remove(b)
        except OSError:
            pass


# ---------------------------------------------------------------------------------------------------
# TLC
class Tlc:
    def __init__(self):
        self.out = ''
        self.rc = 0
        self.generated = 0
        self.distinct = 0
        self.depth = 0
        self.violated = None      # name of violated invariant / property
        self.rejected_line = None
        self.monviols = []        # (line, text)
        self.monnotes = []        # (line, text)
        self.error = None
        self.wall = 0.0
        self.cex = None           # list of states (dicts) when a counterexample was dumped

    @property
    def ok(self):
        return self.error is None and self.violated is None and self.rejected_line is None


def run_tlc(module, cfg, workers=8, env=None, extra=(), timeout=3600, xmx='8g', simulate=None, dump_trace=False,
            depth_first=False, tag=None):
    """module: path (relative to specs/) of the root module; cfg: path of the cfg file"""
    wd = workdir('tlc-' + (tag or os.path.basename(module)) + '-%d' % random.randrange(1 << 30))
    meta = os.path.join(wd, 'meta')
    jopts = ['-XX:+UseParallelGC' if workers > 1 else '-XX:+UseSerialGC', '-Xmx' + xmx, '-Xss16m']
    if depth_first:
        jopts.append('-Dtlc2.tool.queue.IStateQueue=StateDeque')
    cmd = ['java'] + jopts + ['-cp', JAR + ':/opt/veriftools/tla/CommunityModules-deps.jar', 'tlc2.TLC', '-workers', str(workers),
                              '-metadir', meta, '-config', cfg, '-noGenerateSpecTE']
    if simulate:
        cmd += ['-simulate', simulate]
    cex_file = None
    if dump_trace:
        cex_file = os.path.join(wd, 'cex.json')
        cmd += ['-dumpTrace', 'json', cex_file]
    cmd += list(extra) + [module]
    r = Tlc()
    t0 = time.time()
    try:
        rc, out = sh(cmd, timeout=timeout, env=env, cwd=SPECS)
    except subprocess.TimeoutExpired as e:
        r.error = 'timeout'
        r.out = e.stdout if isinstance(e.stdout, str) else (e.stdout.decode('utf-8', 'replace') if e.stdout else '')
        r.wall = time.time() - t0
        # what had been explored when the time limit struck (progress lines print numbers with thousands separators)
        m = re.findall(r'([\d,]+) states generated(?: \([^)]*\))?, ([\d,]+) distinct states found', r.out)
        if m:
            r.generated, r.distinct = int(m[-1][0].replace(',', '')), int(m[-1][1].replace(',', ''))
        m = re.search(r'Invariant (\S+) is violated', r.out)
        if m:
            r.violated = m.group(1)
        return r
    r.wall = time.time() - t0
    r.rc = rc
    r.out = out
    m = re.findall(r'(\d+) states generated, (\d+) distinct states found', out)
    if m:
        r.generated, r.distinct = int(m[-1][0]), int(m[-1][1])
    m = re.search(r'depth of the complete state graph search is (\d+)', out)
    if m:
        r.depth = int(m.group(1))
    m = re.search(r'Invariant (\S+) is violated', out)
    if m:
        r.violated = m.group(1)
    m = re.search(r'Temporal properties were violated', out)
    if m:
        r.violated = r.violated or 'temporal'
    m = re.search(r'Action property (\S+)', out)
    if m and 'violated' in out:
        r.violated = r.violated or m.group(1)
    m = re.search(r'Deadlock reached', out)
    if m:
        r.violated = r.violated or 'deadlock'
    m = re.search(r'TRACE-REJECTED\|(\d+)', out)
    if m:
        r.rejected_line = int(m.group(1))
    for m in re.finditer(r'MONVIOL\|(\d+)\|(.*?)"?\s*$', out, re.M):
        r.monviols.append((int(m.group(1)), m.group(2).strip()))
    for m in re.finditer(r'MONNOTE\|(\d+)\|(.*?)"?\s*$', out, re.M):
        r.monnotes.append((int(m.group(1)), m.group(2).strip()))
    if r.violated is None and r.rejected_line is None and not r.monviols:
        if 'Model checking completed. No error has been found.' not in out and not (simulate and rc == 0):
            if simulate and ('Finished' in out or rc in (0, 143, 124)):
                pass
            else:
                r.error = 'tlc failed (rc=%d)' % rc
    if cex_file and os.path.exists(cex_file):
        try:
            r.cex = json.load(open(cex_file))
        except Exception:
            r.cex = None
    return r


def tlc_version():
    return 'TLC2 (tla2tools.jar 1.8.0)'


# ---------------------------------------------------------------------------------------------------
# running harnesses
def run_harness(binary, args, n, seed, jobs=None, tag='h', sched_lines=None, timeout=1800):
    """Runs `n` executions (or the given schedule lines) split over `jobs` processes.
    Returns the list of trace files (ndjson)."""
    jobs = jobs or NCPU
    wd = workdir('tr-' + tag + '-%d' % random.randrange(1 << 30))
    files = []
    procs = []
    if sched_lines is not None:
        chunks = [sched_lines[i::jobs] for i in range(jobs)]
        chunks = [c for c in chunks if c]
        for i, c in enumerate(chunks):
            sf = os.path.join(wd, 'sched%d.txt' % i)
            with open(sf, 'w') as f:
                f.write('\n'.join(c) + '\n')
            out = os.path.join(wd, 'trace%d.ndjson' % i)
            files.append(out)
            procs.append(subprocess.Popen([binary, 'out=' + out, 'sched=' + sf] + list(args), stdout=subprocess.PIPE,
                                          stderr=subprocess.STDOUT, text=True))
    else:
        per = max(1, n // jobs)
        k = 0
        i = 0
        while k < n:
            m = min(per, n - k)
            out = os.path.join(wd, 'trace%d.ndjson' % i)
            files.append(out)
            procs.append(subprocess.Popen([binary, 'out=' + out, 'n=%d' % m, 'seed=%d' % (seed * 131 + i)] + list(args),
                                          stdout=subprocess.PIPE, stderr=subprocess.STDOUT, text=True))
            k += m
            i += 1
    t0 = time.time()
    summary = {}
    for p in procs:
        try:
            o, _ = p.communicate(timeout=max(1, timeout - (time.time() - t0)))
        except subprocess.TimeoutExpired:
            p.kill()
            raise Infra('harness timed out')
        if p.returncode != 0:
            raise Infra('harness failed rc=%s: %s' % (p.returncode, o[-2000:]))
        for k2, v in re.findall(r'(\w+)=(\d+)', o):
            summary[k2] = summary.get(k2, 0) + int(v)
    return files, summary


def read_trace(path):
    ev = []
    with open(path) as f:
        for line in f:
            line = line.strip()
            if line:
                ev.append(json.loads(line))
    return ev


def executions(events):
    """split into executions: list of (first_line_number (1-based), [events])"""
    out = []
    cur = None
    for i, e in enumerate(events):
        if e['k'] == 'reset':
            cur = (i + 1, [])
            out.append(cur)
        if cur is not None:
            cur[1].append(e)
    return out


def exec_at_line(events, line):
    """the execution containing 1-based line"""
    last = None
    for start, evs in executions(events):
        if start <= line:
            last = (start, evs)
        else:
            break
    return last


def exec_at_line_file(path, line):
    """like exec_at_line, but streams the file: (first line number, events) of the execution containing 1-based `line`"""
    start, buf = None, []
    with open(path) as f:
        for i, raw in enumerate(f, 1):
            if '"k":"reset"' in raw:
                if i > line and start is not None:
                    break
                start, buf = i, []
            if start is not None:
                buf.append(raw)
    if start is None:
        return None
    return start, [json.loads(x) for x in buf if x.strip()]


def resets_at_lines(path, lines):
    """{line: reset event of the execution containing that 1-based line} in one pass over the file"""
    want = sorted(set(lines))
    out = {}
    if not want:
        return out
    cur = None
    wi = 0
    with open(path) as f:
        for i, raw in enumerate(f, 1):
            if '"k":"reset"' in raw:
                cur = raw
            while wi < len(want) and want[wi] == i:
                out[i] = json.loads(cur) if cur else None
                wi += 1
            if wi >= len(want):
                break
    return out


_line_rx = re.compile(r'^\{"t":(-?\d+),"k":"([^"]*)","o":"([^"]*)","i":-?\d+,"v":(-?\d+),.*?"s":(\d),"a":-?\d+')


def _scan_one(path):
    """streaming statistics of one trace file: executions, their signatures (distinct event sequences), which of them have a context
    switch inside an API operation, the reset events and a short sample execution - without building the events in memory"""
    n = 0
    sigs, nontriv, resets = set(), set(), []
    sample, sbuf = None, None
    h = None
    inop, last, switch = {}, None, False

    def close():
        nonlocal h, sample, sbuf
        if h is None:
            return
        d = int.from_bytes(h.digest(), 'big')
        sigs.add(d)
        if switch:
            nontriv.add(d)
            if sample is None and sbuf is not None and len(sbuf) < 80:
                sample = sbuf
    with open(path) as f:
        for raw in f:
            m = _line_rx.match(raw)
            if not m:
                continue
            t, k, o, v, st = m.groups()
            if k == 'reset':
                close()
                n += 1
                h = hashlib.blake2b(digest_size=8)
                inop, last, switch = {}, None, False
                resets.append(json.loads(raw))
                sbuf = [raw] if sample is None else None
                continue
            if h is None:
                continue
            if sbuf is not None:
                if len(sbuf) < 81:
                    sbuf.append(raw)
                else:
                    sbuf = None
            if k in LIFE:
                continue
            h.update(('%s|%s|%s|%s;' % (t, k, o, v)).encode())
            if st == '1':
                if k == 'call':
                    inop[t] = True
                if last is not None and last != t and inop.get(last):
                    switch = True
                if k == 'ret':
                    inop[t] = False
                last = t
    close()
    return n, sigs, nontriv, resets, ([json.loads(x) for x in sample] if sample else None)


def scan_stats(files):
    """(executions, distinct signatures, non-trivial signatures, reset events, sample execution) over all files, in parallel"""
    total, sigs, nontriv, resets, sample = 0, set(), set(), [], None
    if not files:
        return total, sigs, nontriv, resets, sample
    with ProcessPoolExecutor(max_workers=min(NCPU, len(files))) as ex:
        for n, s1, s2, rs, sm in ex.map(_scan_one, files):
            total += n
            sigs |= s1
            nontriv |= s2
            resets += rs
            if sample is None and sm:
                sample = sm
    return total, sigs, nontriv, resets, sample


def sched_line(evs):
    """replayable schedule line of one recorded execution"""
    r = evs[0]
    head = ['prog=%s' % r['o']] + ['%s=%d' % (k, v) for k, v in sorted(r.get('p', {}).items()) if k not in ('starveT', 'starveK', 'starveM')]
    steps = []
    mask, at = 0, None
    for e in evs[1:]:
        if e['k'] == 'starved' and (at is None or at == len(steps)):
            at = len(steps)                      # all reports of one solo / stall episode sit at the same schedule position
            mask |= 1 << e['t']
        if e.get('s', 0) == 1:
            steps.append('%d:%d' % (e['t'], e.get('a', 0)))
    if at is not None:
        head += ['starveM=%d' % mask, 'starveK=%d' % at]
    return ' '.join(head) + ' | ' + ' '.join(steps)


def exec_signature(evs):
    return hashlib.sha1(json.dumps([(e['t'], e['k'], e['o'], e['v']) for e in evs if e['k'] not in LIFE and e['k'] != 'reset'])
                        .encode()).hexdigest()


def has_inner_switch(evs):
    """non-trivial: at least one context switch strictly inside an API operation"""
    inop = {}
    last = None
    for e in evs:
        if e.get('s', 0) != 1 or e['k'] in LIFE:
            continue
        t = e['t']
        if e['k'] == 'call':
            inop[t] = True
        if last is not None and last != t and inop.get(last):
            return True
        if e['k'] == 'ret':
            inop[t] = False
        last = t
    return False


def concat(files, out):
    with open(out, 'w') as fo:
        for f in files:
            with open(f) as fi:
                shutil.copyfileobj(fi, fo)
    return out


# ---------------------------------------------------------------------------------------------------
# trace validation (TLC as the oracle)
def validate(files, module, cfg, jobs=None, tag='val', invariants_are_drift=True, xmx='3g', timeout=900):
    """Validate every trace file against the trace specification `module`. Returns list of findings:
    dicts {file, kind: 'rejected'|'invariant'|'monviol'|'error', line, text}"""
    jobs = jobs or NCPU
    findings = []
    stats = {'states': 0, 'wall': 0.0}

    def one(f):
        r = run_tlc(module, cfg, workers=1, env={'TRACE': f}, xmx=xmx, tag=tag, timeout=timeout)
        return f, r

    with ThreadPoolExecutor(max_workers=jobs) as ex:
        for f, r in ex.map(one, files):
            stats['states'] += r.distinct
            stats['wall'] = max(stats['wall'], r.wall)
            for (ln, txt) in r.monviols:
                findings.append({'file': f, 'kind': 'monviol', 'line': ln, 'text': txt})
            for (ln, txt) in r.monnotes:
                findings.append({'file': f, 'kind': 'note', 'line': ln, 'text': txt})
            if r.rejected_line is not None:
                findings.append({'file': f, 'kind': 'rejected', 'line': r.rejected_line, 'text': 'trace not accepted'})
            elif r.violated is not None:
                # an invariant of the algorithm-level model failed on a real trace; the line is the depth reached
                m = re.search(r'l = (\d+)\s*$', r.out, re.M)
                ln = None
                ls = re.findall(r'/\\ l = (\d+)', r.out)
                if ls:
                    ln = int(ls[-1]) - 1
                findings.append({'file': f, 'kind': 'invariant', 'line': ln, 'text': r.violated})
            elif r.error:
                findings.append({'file': f, 'kind': 'error', 'line': None, 'text': r.error + '\n' + r.out[-1500:]})
    return findings, stats


# ---------------------------------------------------------------------------------------------------
# model -> code: behaviours of the bounded model replayed on the real object
class Graph:
    def __init__(self):
        self.init = []     # node ids
        self.ev = {}       # node -> event dict (incoming event)
        self.succ = {}     # node -> list of nodes
        self.state0 = {}   # init node -> full parsed state


_node_re = re.compile(r'^(-?\d+) \[label="(.*?)"(,tooltip=".*?")?(,style = filled)?\]?;?$')
_edge_re = re.compile(r'^(-?\d+) -> (-?\d+) ')


def load_dot(path, evvar='ev'):
    g = Graph()
    evre = re.compile(r'/\\\\ ' + evvar + r' = (\[.*?\])(?:\\n|$)')
    with open(path) as f:
        for line in f:
            m = _edge_re.match(line)
            if m:
                a, b = int(m.group(1)), int(m.group(2))
                if a != b or True:
                    g.succ.setdefault(a, []).append(b)
                continue
            if '[label="' in line:
                sp = line.index(' ')
                try:
                    nid = int(line[:sp])
                except ValueError:
                    continue
                if nid in g.ev:
                    continue
                q = line.index('[label="') + 8
                # label ends at the first unescaped quote
                end = q
                while True:
                    end = line.index('"', end)
                    if line[end - 1] != '\\':
                        break
                    end += 1
                label = line[q:end]
                m2 = evre.search(label)
                if m2:
                    txt = m2.group(1).replace('\\n', ' ').replace('\\"', '"')     # TLC wraps long records over several lines
                    g.ev[nid] = tlaval.parse(txt)
                if 'style = filled' in line[end:] and 'tooltip' not in line[end:end + 20]:
                    g.init.append(nid)
                    g.state0[nid] = tlaval.parse_state(label.replace('\\n', '\n').replace('\\\\', '\\').replace('\\"', '"'))
    g.init = list(dict.fromkeys(g.init))
    for k in g.succ:
        g.succ[k] = list(dict.fromkeys(g.succ[k]))
    return g


def edge_cover(g, limit=None, seed=0):
    """root paths (lists of node ids, starting at an init node) that together cover every edge
    (or the first `limit` paths of such a cover, in a seed-dependent order)"""
    rnd = random.Random(seed)
    parent = {}
    order = []
    from collections import deque
    dq = deque()
    for i in g.init:
        parent[i] = None
        dq.append(i)
    while dq:
        u = dq.popleft()
        order.append(u)
        for v in g.succ.get(u, []):
            if v not in parent:
                parent[v] = u
                dq.append(v)

    def root_path(u):
        p = []
        while u is not None:
            p.append(u)
            u = parent[u]
        p.reverse()
        return p

    uncovered = {u: list(vs) for u, vs in g.succ.items()}
    for u in uncovered:
        rnd.shuffle(uncovered[u])
    nodes = list(order)
    rnd.shuffle(nodes)
    paths = []
    total_edges = sum(len(v) for v in g.succ.values())
    for u in nodes:
        while uncovered.get(u):
            path = root_path(u)
            cur = u
            while uncovered.get(cur):
                nxt = uncovered[cur].pop()
                path.append(nxt)
                cur = nxt
            paths.append(path)
            if limit and len(paths) >= limit:
                return paths, total_edges
    return paths, total_edges


def dump_graph(module, cfg, workers=8, tag='conf', timeout=1800, xmx='8g'):
    wd = workdir('dot-' + tag)
    dot = os.path.join(wd, 'g.dot')
    r = run_tlc(module, cfg, workers=workers, extra=['-dump', 'dot', dot], timeout=timeout, tag=tag, xmx=xmx)
    if not r.ok:
        return r, None
    g = load_dot(dot)
    os.remove(dot)
    return r, g


# ---------------------------------------------------------------------------------------------------
def proj(e, fields=('t', 'k', 'o', 'v', 'w')):
    return tuple(e.get(f) for f in fields)


def compare_replay(model_evs, real_evs, fields, ignore_driver=False):
    """model_evs: list of event dicts from the model path; real_evs: recorded events of the execution.
    Returns index of first mismatch or None."""
    real = [e for e in real_evs if e.get('s', 0) == 1 and e['k'] not in LIFE and not (ignore_driver and e['t'] == 0)]
    model_evs = [e for e in model_evs if e['k'] != 'pu']
    for i, me in enumerate(model_evs):
        if i >= len(real):
            return i
        for f in fields:
            if f in me and me[f] != real[i].get(f):
                return i
    return None


# ---------------------------------------------------------------------------------------------------
EVIDENCE_DIR = os.environ.get('VERIF_EVIDENCE_DIR') or os.path.join(VERIF, 'evidence')   # seeded-change runs redirect it


def write_evidence(pid, tier, seed, level, coverage, wall, violations, assumptions):
    os.makedirs(EVIDENCE_DIR, exist_ok=True)
    ev = {'property_id': pid, 'tier': tier, 'seed': seed, 'level': level, 'coverage': coverage, 'assumptions': assumptions,
          'wall_s': round(wall, 2), 'violations': violations}
    p = os.path.join(EVIDENCE_DIR, pid + '.json')
    tmp = p + '.tmp'
    with open(tmp, 'w') as f:
        json.dump(ev, f, indent=1)
    os.replace(tmp, p)
    return p


def write_replay(pid, what, schedule_line, harness, harness_args, events, extra=None):
    os.makedirs(os.path.join(VERIF, 'replays'), exist_ok=True)
    h = hashlib.sha1((what + schedule_line).encode()).hexdigest()[:10]
    p = os.path.join(VERIF, 'replays', '%s-%s.json' % (pid, h))
    with open(p, 'w') as f:
        json.dump({'property': pid, 'what': what, 'harness': harness, 'harness_args': harness_args, 'schedule': schedule_line,
                   'trace': events, 'extra': extra}, f, indent=0)
    return p


def load_known():
    p = os.path.join(VERIF, 'known_findings.json')
    if not os.path.exists(p):
        return []
    return json.load(open(p)).get('findings', [])

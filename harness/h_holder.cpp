// harness for gmlc::concurrency::SearchableObjectHolder<Probe, int> (C17, C20): names a,b,c = 1..3, objects 1..2, types 1..2
#include "gmlc/concurrency/SearchableObjectHolder.hpp"
using namespace gmlc::concurrency;

struct Probe {
    int id;
    int magic = 0x1234;
    explicit Probe(int i): id(i) {}
    ~Probe() { magic = 0; }
};

int main(int argc, char** argv)
{
    return vrt::main_loop(argc, argv, [](vrt::Exec& x) {
        vrt::alias("soh", "m0", "ml");
        using H = SearchableObjectHolder<Probe, int>;
        H* S = x.make<H>("soh");
        static std::vector<std::string> nameStore;
        static std::vector<const char*> names;
        if (names.empty()) {
            const char* kinds[] = {"add", "addT", "addType", "empty", "getObjects", "removeName", "removePred", "copy", "checkType",
                                   "findName", "findPred", "findPredType"};
            for (int c = 0; c < 1200; ++c) nameStore.push_back(std::string(kinds[c / 100]) + std::to_string((c / 10) % 10) + std::to_string(c % 10));
            for (auto& s : nameStore) names.push_back(s.c_str());
        }
        // the two objects; callers keep what the holder returns and look at it again at the end (must stay alive)
        auto objs = std::make_shared<std::vector<std::shared_ptr<Probe>>>();
        objs->push_back(nullptr);
        objs->push_back(std::make_shared<Probe>(1));
        objs->push_back(std::make_shared<Probe>(2));
        int throwAt = (int)x.param("predthrow", 0);  // C20: the k-th predicate invocation throws
        auto predCalls = std::make_shared<int>(0);
        static const char* nm[] = {"", "a", "b", "c"};
        for (auto& menus : vrt::parse_prog(x.rt.cfg.prog)) {
            x.worker([S, menus, objs, throwAt, predCalls] {
                std::vector<std::shared_ptr<Probe>> kept;
                for (auto& menu : menus) {
                    int code = vrt::pick_and_call(menu, names);
                    int kd = code / 100, a = (code / 10) % 10, b = code % 10;
                    long r = 0;
                    auto pred = [&](int want) {
                        return [want, throwAt, predCalls](const std::shared_ptr<Probe>& p) {
                            if (throwAt > 0 && ++*predCalls == throwAt) throw std::runtime_error("predicate throws");
                            return p && p->id == want;
                        };
                    };
                    try {
                        switch (kd) {
                            case 0: r = S->addObject(nm[a], (*objs)[(size_t)b]); break;
                            case 1: r = S->addObject(nm[a], (*objs)[(size_t)b], b); break;
                            case 2: S->addType(nm[a], b); break;
                            case 3: r = S->empty(); break;
                            case 4: {
                                auto v = S->getObjects();
                                long mul = 1;
                                // objects in name order as a base-4 number; absent names contribute 0 (positions by rank)
                                std::vector<std::shared_ptr<Probe>> all = v;
                                // reconstruct per-name positions through findObject is not atomic; encode by order only
                                for (auto& p : all) {
                                    r += mul * (p ? p->id : 0);
                                    mul *= 4;
                                    kept.push_back(p);
                                }
                                break;
                            }
                            case 5: r = S->removeObject(std::string(nm[b])); break;
                            case 6: r = S->removeObject(pred(b)); break;
                            case 7: r = S->copyObject(nm[a], nm[b]); break;
                            case 8: r = S->checkObjectType(nm[a], b); break;
                            case 9: {
                                auto p = S->findObject(std::string(nm[b]));
                                r = p ? p->id : 0;
                                kept.push_back(p);
                                break;
                            }
                            case 10: {
                                auto p = S->findObject(pred(b));
                                r = p ? p->id : 0;
                                kept.push_back(p);
                                break;
                            }
                            default: {
                                auto p = S->findObject(pred(a), b);
                                r = p ? p->id : 0;
                                kept.push_back(p);
                                break;
                            }
                        }
                    }
                    catch (const std::runtime_error&) {
                        r = -1;
                    }
                    vrt::ret_ev(names[(size_t)code], r);
                }
                // everything the holder ever returned to this thread must still be alive
                long dead = 0;
                for (auto& p : kept)
                    if (p && p->magic != 0x1234) dead++;
                vrt::log_ev("kept", "", 0, dead);
            });
        }
        x.run();
    });
}

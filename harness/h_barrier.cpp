// harness for gmlc::concurrency::Barrier (C09, C07)
#include "gmlc/concurrency/Barrier.hpp"
using gmlc::concurrency::Barrier;

int main(int argc, char** argv)
{
    return vrt::main_loop(argc, argv, [](vrt::Exec& x) {
        vrt::alias("barrier", "m0", "mtx");
        vrt::alias("barrier", "c0", "cv");
        auto prog = vrt::parse_prog(x.rt.cfg.prog);
        Barrier* B = x.make<Barrier>("barrier", (size_t)x.param("count", (long)prog.size()));
        static const std::vector<const char*> names{"wait", "wait_and_drop"};
        for (auto& menus : prog) {
            x.worker([B, menus] {
                for (auto& menu : menus) {
                    int op = vrt::pick_and_call(menu, names);
                    if (op == 0) B->wait();
                    else B->wait_and_drop();
                    vrt::ret_ev(names[(size_t)op]);
                    if (op == 1) break;  // a dropped thread takes no further part
                }
            });
        }
        x.run();
    });
}

// harness for gmlc::concurrency::Barrier (C09, C07)
#include "gmlc/concurrency/Barrier.hpp"
using gmlc::concurrency::Barrier;

int main(int argc, char** argv)
{
    return vrt::main_loop(argc, argv, [](vrt::Exec& x) {
        vrt::alias("barrier", "m0", "mtx");
        vrt::alias("barrier", "c0", "cv");
        auto prog = vrt::parse_prog(x.rt.cfg.prog);
        Barrier* B = x.make<Barrier>("barrier", (size_t)x.param("count", (long)prog.size()));
        static const std::vector<const char*> names{"wait", "wait_and_drop"};
        // data=1 (C07): every participant writes a plain datum before arriving at generation g and, once through, reads the data of
        // everybody who takes part in generation g (thread u takes part in generation g iff its program has a g-th operation)
        bool data = x.param("data", 0) != 0;
        auto lens = std::make_shared<std::vector<size_t>>();
        for (auto& menus : prog) lens->push_back(menus.size());
        int wid = 0;
        for (auto& menus : prog) {
            ++wid;
            x.worker([B, menus, data, lens, wid] {
                int g = 0;
                for (auto& menu : menus) {
                    ++g;
                    int op = vrt::pick_and_call(menu, names);
                    if (data) vrt::step_ev("pw", "data", 8 * wid + g, 1);
                    if (op == 0) B->wait();
                    else B->wait_and_drop();
                    if (data)
                        for (size_t u = 0; u < lens->size(); ++u)
                            if ((int)u + 1 != wid && (*lens)[u] >= (size_t)g) vrt::step_ev("pr", "data", 8 * ((int)u + 1) + g, 1);
                    vrt::ret_ev(names[(size_t)op]);
                    if (op == 1) break;  // a dropped thread takes no further part
                }
            });
        }
        x.run();
    });
}

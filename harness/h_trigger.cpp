// harness for gmlc::concurrency::TriggerVariable (C11, C07)
#include "gmlc/concurrency/TriggerVariable.hpp"
using gmlc::concurrency::TriggerVariable;

int main(int argc, char** argv)
{
    return vrt::main_loop(argc, argv, [](vrt::Exec& x) {
        // declaration order: triggered, triggerLock, activated, activeLock, cv_trigger, cv_active
        vrt::alias("tv", "a0", "triggered");
        vrt::alias("tv", "a1", "activated");
        vrt::alias("tv", "m0", "tlock");
        vrt::alias("tv", "m1", "alock");
        vrt::alias("tv", "c0", "cvt");
        vrt::alias("tv", "c1", "cva");
        TriggerVariable* V = x.make<TriggerVariable>("tv", x.param("active", 0) != 0);
        static const std::vector<const char*> names{"activate", "trigger", "wait", "wait_for", "waitActivation",
                                                    "wait_forActivation", "reset", "isActive", "isTriggered"};
        // data=1 (C07): the (single) triggering thread writes a plain datum before trigger(); whoever learns that the variable was
        // triggered (wait / wait_for returned true, isTriggered() returned true) reads it.  For programs with one trigger()
        // and no reset / activate.
        bool data = x.param("data", 0) != 0;
        for (auto& menus : vrt::parse_prog(x.rt.cfg.prog)) {
            x.worker([V, menus, data] {
                const std::chrono::milliseconds d(10);
                for (auto& menu : menus) {
                    int op = vrt::pick_and_call(menu, names);
                    if (data && op == 1) vrt::step_ev("pw", "data", 1, 1);
                    long r = 0;
                    switch (op) {
                        case 0: r = V->activate(); break;
                        case 1: r = V->trigger(); break;
                        case 2: r = V->wait(); break;
                        case 3: r = V->wait_for(d); break;
                        case 4: V->waitActivation(); break;
                        case 5: r = V->wait_forActivation(d); break;
                        case 6: V->reset(); break;
                        case 7: r = V->isActive(); break;
                        default: r = V->isTriggered(); break;
                    }
                    if (data && (op == 2 || op == 3 || op == 8) && r != 0) vrt::step_ev("pr", "data", 1, 1);
                    vrt::ret_ev(names[(size_t)op], r);
                }
            });
        }
        x.run();
    });
}

// harness for gmlc::concurrency::Latch (C10, C07)
#include "gmlc/concurrency/Latch.hpp"
using gmlc::concurrency::Latch;

int main(int argc, char** argv)
{
    return vrt::main_loop(argc, argv, [](vrt::Exec& x) {
        vrt::alias("latch", "a0", "counter");
        vrt::alias("latch", "m0", "mtx");
        vrt::alias("latch", "c0", "cv");
        Latch* L = x.make<Latch>("latch", (int)x.param("count", 2));
        static const std::vector<const char*> names{"arrive", "wait", "arrive_and_wait"};
        // data=1 (C07): every arrival publishes a plain datum written before it; whoever gets through the latch reads the data of
        // all arrivals.  Only for programs with exactly `count` arrivals (a surplus arrival would be a legitimate late writer).
        bool data = x.param("data", 0) != 0;
        auto prog = vrt::parse_prog(x.rt.cfg.prog);
        auto slots = std::make_shared<std::vector<int>>();
        {
            int w = 0;
            for (auto& menus : prog) {
                ++w;
                int k = 0;
                for (auto& menu : menus) {
                    ++k;
                    if (menu.size() == 1 && menu[0] != 1) slots->push_back(8 * w + k);
                }
            }
        }
        int wid = 0;
        for (auto& menus : prog) {
            ++wid;
            x.worker([L, menus, data, slots, wid] {
                int k = 0;
                for (auto& menu : menus) {
                    ++k;
                    int op = vrt::pick_and_call(menu, names);
                    if (data && op != 1) vrt::step_ev("pw", "data", 8 * wid + k, 1);
                    switch (op) {
                        case 0: L->arrive(); break;
                        case 1: L->wait(); break;
                        default: L->arrive_and_wait(); break;
                    }
                    if (data && op != 0)
                        for (int sl : *slots) vrt::step_ev("pr", "data", sl, 1);
                    vrt::ret_ev(names[(size_t)op]);
                }
            });
        }
        x.run();
    });
}

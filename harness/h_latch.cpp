// harness for gmlc::concurrency::Latch (C10, C07)
#include "gmlc/concurrency/Latch.hpp"
using gmlc::concurrency::Latch;

int main(int argc, char** argv)
{
    return vrt::main_loop(argc, argv, [](vrt::Exec& x) {
        vrt::alias("latch", "a0", "counter");
        vrt::alias("latch", "m0", "mtx");
        vrt::alias("latch", "c0", "cv");
        Latch* L = x.make<Latch>("latch", (int)x.param("count", 2));
        static const std::vector<const char*> names{"arrive", "wait", "arrive_and_wait"};
        for (auto& menus : vrt::parse_prog(x.rt.cfg.prog)) {
            x.worker([L, menus] {
                for (auto& menu : menus) {
                    int op = vrt::pick_and_call(menu, names);
                    switch (op) {
                        case 0: L->arrive(); break;
                        case 1: L->wait(); break;
                        default: L->arrive_and_wait(); break;
                    }
                    vrt::ret_ev(names[(size_t)op]);
                }
            });
        }
        x.run();
    });
}

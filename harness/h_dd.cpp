// harness for gmlc::concurrency::DelayedDestructor<Probe> and DelayedDestructorSingleThread<Probe> (C16, C20)
// params: cb=0|1 (callback installed) reenter=0|1|2|3|4 (destructor / callback calls size(); 3|4: calls destroyObjects(), one
// level deep) locked=0|1 rev=0|1 cbthrow=0|1|2
#include "cell.hpp"
#include "gmlc/concurrency/DelayedDestructor.hpp"
using namespace gmlc::concurrency;

struct Ctx {
    std::function<void()> reenter;  // what user code calls back into
    int cbthrow = 0, throwsLeft = 0;
    int mode = 0;                   // 1: destructor re-enters, 2: callback re-enters
};
static Ctx* g_ctx = nullptr;

static bool holds_dl()
{
    if (!vrt::t_cur) return false;
    for (auto& n : vrt::t_cur->heldNames)
        if (n == "dl") return true;
    return false;
}

struct Probe {
    int id;
    explicit Probe(int i): id(i) {}
    ~Probe()
    {
        // the destructor is user code: a step, it reports whether the calling thread holds the container's lock
        vrt::simple_point("dtor");
        vrt::log_ev("dtor", "obj", id, 0, 0, holds_dl() ? 1 : 0);
        if (g_ctx && (g_ctx->mode == 1 || g_ctx->mode == 3) && g_ctx->reenter) g_ctx->reenter();
    }
};

template<class DD, bool LOCKED>
static void run_dd(vrt::Exec& x)
{
    vrt::alias("dd", "m0", "dl");
    bool cbOn = x.param("cb", 1) != 0;
    static Ctx ctx;
    ctx = Ctx();
    ctx.mode = (int)x.param("reenter", 0);
    ctx.cbthrow = (int)x.param("cbthrow", 0);
    ctx.throwsLeft = (int)x.param("cbthrows", 2);
    g_ctx = &ctx;
    DD* D = cbOn ? x.make<DD>("dd", std::function<void(std::shared_ptr<Probe>&)>([](std::shared_ptr<Probe>& p) {
        // the callback is user code: it may throw (param cbthrow: 1 = a std::exception, 2 = something else), at most cbthrows times
        if (g_ctx->cbthrow != 0 && vrt::step_may_throw("cb", g_ctx->throwsLeft)) {
            vrt::log_ev("cbthrow", "obj", p ? p->id : 0);
            if (g_ctx->cbthrow == 1) throw std::runtime_error("callback");
            throw 42;
        }
        if (g_ctx->cbthrow == 0) vrt::simple_point("cb");
        vrt::log_ev("cb", "obj", p ? p->id : 0, 0, 0, holds_dl() ? 1 : 0);
        if ((g_ctx->mode == 2 || g_ctx->mode == 4) && g_ctx->reenter) g_ctx->reenter();
    }))
                 : x.make<DD>("dd");
    if (LOCKED) {
        if (ctx.mode >= 3)
            ctx.reenter = [D] {
                static thread_local int depth = 0;  // user code of a nested sweep does not nest again
                if (depth > 0) return;
                ++depth;
                (void)D->destroyObjects();
                --depth;
            };
        else ctx.reenter = [D] { (void)D->size(); };
    }
    static const std::vector<const char*> names{"add", "drop", "destroy", "size", "add_temp"};
    auto mine = std::make_shared<std::vector<std::shared_ptr<Probe>>>(9);
    int rev = (int)x.param("rev", 0);
    // pre-created objects (ascending addresses by id); rev=1 hands them out in descending order
    // objects live in a static slab so that their addresses are a known function of their index (the selection code of
    // the container compares object addresses); a shared_ptr with a destroying deleter owns each of them
    static std::aligned_storage_t<sizeof(Probe), alignof(Probe)> slab[17];
    auto pool = std::make_shared<std::vector<std::shared_ptr<Probe>>>();
    for (int i = 0; i <= 16; ++i) pool->push_back(std::shared_ptr<Probe>(new (&slab[i]) Probe(i), [](Probe* p) { p->~Probe(); }));
    int tid = 0;
    for (auto& menus : vrt::parse_prog(x.rt.cfg.prog)) {
        ++tid;
        x.worker([D, menus, tid, mine, pool, rev] {
            int opi = 0;
            for (auto& menu : menus) {
                ++opi;
                int id = 4 * (tid - 1) + opi;
                int a = 0;
                if (vrt::scheduled()) {
                    vrt::PendOp pop;
                    pop.kind = "call";
                    pop.nalt = (unsigned)menu.size();
                    unsigned mask = (1u << menu.size()) - 1;
                    pop.enabledMask = [mask] { return mask; };
                    a = vrt::sched_point(pop);
                }
                int op = menu[(size_t)a];
                bool keep = (op == 0 && !(*mine)[(size_t)tid]);  // a thread keeps at most one external reference
                vrt::log_ev("call", names[(size_t)op], 0, (op == 0 || op == 4) ? id : 0, keep ? 1 : 0);
                long r = 0;
                if (op == 0 || op == 4) {
                    // the pooled object keeps its logical id; with rev the memory order is reversed w.r.t. insertion order
                    std::shared_ptr<Probe> p = std::move((*pool)[(size_t)(rev ? 16 - id : id)]);
                    p->id = id;
                    if (keep) (*mine)[(size_t)tid] = p;
                    D->addObjectsToBeDestroyed(std::move(p));
                    if (!LOCKED) vrt::step_ev("added", "obj", id);
                } else if (op == 1) {
                    auto& m = (*mine)[(size_t)tid];
                    if (m) {
                        int oid = m->id;
                        vrt::step_ev("drop", "obj", oid);
                        m.reset();
                    }
                } else if (op == 2) {
                    if (!LOCKED) vrt::step_ev("swept", "obj", 0);  // single-thread class: the sweep has no synchronisation step of its own
                    size_t s = D->destroyObjects();
                    r = (s == static_cast<size_t>(-1)) ? -1 : (long)s;
                } else {
                    r = (long)D->size();
                    if (!LOCKED) vrt::step_ev("sized", "obj", 0, r);
                }
                vrt::ret_ev(names[(size_t)op], r);
            }
        });
    }
    x.run();
    // the other owners go away, then the container itself: everything that was added must now be destroyed
    for (auto& m : *mine)
        if (m) {
            vrt::log_ev("drop", "obj", m->id);
            m.reset();
        }
    D->~DD();
    vrt::log_ev("ddgone", "obj", 0);
    g_ctx = nullptr;
    pool->clear();  // unused pooled objects die silently (they were never added)
}

int main(int argc, char** argv)
{
    return vrt::main_loop(argc, argv, [](vrt::Exec& x) {
        if (x.param("locked", 1) != 0) run_dd<DelayedDestructor<Probe>, true>(x);
        else run_dd<DelayedDestructorSingleThread<Probe>, false>(x);
    });
}

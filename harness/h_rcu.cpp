// harness for rcu_guarded<rcu_list<Elem, mutex, TraceAlloc>> (C05, C12, C13, C14, C07)
#include "gmlc/libguarded/rcu_guarded.hpp"
#include "gmlc/libguarded/rcu_list.hpp"

namespace vrt {

struct AllocStats {
    long liveElems = 0;
};
inline AllocStats g_alloc;

// element type with a non-trivial destructor
struct Elem {
    int v;
    int magic = 0x5a5a;
    explicit Elem(int x = 0): v(x)
    {
        if (x < 0) throw std::runtime_error("element constructor throws");
        g_alloc.liveElems++;
    }
    Elem(const Elem& o): v(o.v) { g_alloc.liveElems++; }
    Elem(Elem&& o) noexcept: v(o.v) { g_alloc.liveElems++; }
    Elem& operator=(const Elem&) = default;
    ~Elem()
    {
        magic = 0;
        g_alloc.liveElems--;
    }
};

template<class U, class = void>
struct is_node: std::false_type {};
template<class U>
struct is_node<U, std::void_t<decltype(std::declval<U&>().data)>>: std::true_type {};

inline void log_mem(const char* k, const char* cls, long id, long w = 0)
{
    // allocator events are not steps: they belong to the step after which they run
    log_ev(k, cls, (int)id, 0, w);
}

// tracing, quarantining allocator: logical ids, never reuses memory, null destroy is logged and not executed
template<class T>
struct TraceAlloc {
    using value_type = T;
    TraceAlloc() = default;
    template<class U>
    TraceAlloc(const TraceAlloc<U>&) noexcept
    {
    }
    template<class U>
    struct rebind {
        using other = TraceAlloc<U>;
    };
    static const char* cls() { return is_node<T>::value ? "n" : "r"; }
    T* allocate(size_t n)
    {
        void* mem = ::operator new(sizeof(T) * n + 64);
        memset(mem, 0, sizeof(T) * n + 64);
        Region* r = add_region(mem, sizeof(T) * n, cls());
        log_mem("alloc", cls(), r->inst);
        return static_cast<T*>(mem);
    }
    void deallocate(T* p, size_t)
    {
        if (p == nullptr) {
            log_mem("dealloc", cls(), 0);
            return;
        }
        Region* r = find_region(p);
        long id = r ? r->inst : -1;
        log_mem("dealloc", cls(), id, (r && r->freed) ? 1 : 0);
        if (r) r->freed = true;  // quarantine: the memory is kept so that later touches are detected, not undefined
    }
    template<class U, class... A>
    void construct(U* p, A&&... a)
    {
        Region* r = find_region(p);
        ::new ((void*)p) U(std::forward<A>(a)...);
        log_mem("construct", cls(), r ? r->inst : -1);  // logged once the object exists (a throwing constructor constructs nothing)
    }
    template<class U>
    void destroy(U* p)
    {
        if (p == nullptr) {
            log_mem("destroy", cls(), 0);  // destroying something that was never constructed: logged, not executed
            return;
        }
        Region* r = find_region(p);
        log_mem("destroy", cls(), r ? r->inst : -1, (r && r->freed) ? 1 : 0);
        if (r && r->freed) return;  // double destroy: logged, not executed
        p->~U();
    }
    template<class U>
    bool operator==(const TraceAlloc<U>&) const
    {
        return true;
    }
    template<class U>
    bool operator!=(const TraceAlloc<U>&) const
    {
        return false;
    }
};
}  // namespace vrt

using vrt::Elem;
using List = gmlc::libguarded::rcu_list<Elem, std::mutex, vrt::TraceAlloc<Elem>>;
using Rcu = gmlc::libguarded::rcu_guarded<List>;

static long node_id(const Elem* e) { return vrt::ptr_id(e); }
static void touch_elem(const Elem* e)
{
    vrt::Region* r = vrt::find_region(e);
    vrt::simple_point("pr");
    if (r && r->freed) vrt::log_ev("uaf", "n", r->inst, 0, 0, 0, -1, "element read");
    vrt::log_ev("pr", "n", (int)node_id(e), e->v);
}

int main(int argc, char** argv)
{
    return vrt::main_loop(argc, argv, [](vrt::Exec& x) {
        // rcu_list members: m_head, m_tail, m_zombie_head, m_write_mutex; node: next, back; record: next, owner
        vrt::alias("rl", "a0", "head");
        vrt::alias("rl", "a1", "tail");
        vrt::alias("rl", "a2", "zhead");
        vrt::alias("rl", "m0", "wm");
        vrt::alias("n", "a0", "n.next");
        vrt::alias("n", "a1", "n.back");
        vrt::alias("r", "a0", "r.next");
        vrt::alias("r", "a1", "r.owner");
        vrt::g_alloc = vrt::AllocStats();
        Rcu* rcu = x.make<Rcu>("rl");
        static const std::vector<const char*> names{"traverse", "push_back", "push_front", "erase_first", "erase_second",
                                                    "touch", "emplace_front", "emplace_back", "traverse_star", "push_back_throw"};
        int tid = 0;
        for (auto& menus : vrt::parse_prog(x.rt.cfg.prog)) {
            ++tid;
            x.worker([rcu, menus, tid] {
                int opi = 0;
                for (auto& menu : menus) {
                    ++opi;
                    int val = 10 * tid + opi;
                    int a = 0;
                    if (vrt::scheduled()) {
                        vrt::PendOp pop;
                        pop.kind = "call";
                        pop.nalt = (unsigned)menu.size();
                        unsigned mask = (1u << menu.size()) - 1;
                        pop.enabledMask = [mask] { return mask; };
                        a = vrt::sched_point(pop);
                    }
                    int op = menu[(size_t)a];
                    bool push = op == 1 || op == 2 || op == 6 || op == 7;
                    bool pushx = push || op == 9;
                    vrt::log_ev("call", names[(size_t)op], 0, pushx ? val : 0);
                    long nvis = 0;
                    if (op == 8) {
                        auto h = rcu->lock_read();
                        vrt::add_region(&h, sizeof h, "guard", tid);
                        auto it = (*h).begin();  // first use through operator*
                        vrt::log_ev("hreg", "", tid);
                        for (; it != (*h).end(); ++it) {
                            touch_elem(&*it);
                            nvis++;
                        }
                        vrt::log_ev("hrelb", "", tid);
                    } else if (op == 9) {
                        auto h = rcu->lock_write();
                        vrt::add_region(&h, sizeof h, "guard", tid);
                        try {
                            h->emplace_back(-val);  // the element constructor throws
                        }
                        catch (const std::runtime_error&) {
                        }
                        vrt::log_ev("hreg", "", tid);
                        vrt::log_ev("hrelb", "", tid);
                    } else if (op == 0 || op == 5) {
                        auto h = rcu->lock_read();
                        vrt::add_region(&h, sizeof h, "guard", tid);  // guard pointers are logged as the thread id
                        auto it = h->begin();
                        vrt::log_ev("hreg", "", tid);
                        if (op == 0) {
                            for (; it != h->end(); ++it) {
                                touch_elem(&*it);
                                nvis++;
                            }
                        }
                        vrt::log_ev("hrelb", "", tid);
                    } else {
                        auto h = rcu->lock_write();
                        vrt::add_region(&h, sizeof h, "guard", tid);
                        if (op == 1) h->push_back(Elem(val));
                        else if (op == 2) h->push_front(Elem(val));
                        else if (op == 6) h->emplace_front(val);
                        else if (op == 7) h->emplace_back(val);
                        else {
                            auto it = h->begin();
                            vrt::log_ev("hreg", "", tid);
                            if (op == 4 && it != h->end()) ++it;
                            if (it != h->end()) {
                                long id = node_id(&*it);
                                vrt::log_ev("erasing", "n", (int)id, it->v);
                                h->erase(it);
                                vrt::log_ev("erased", "n", (int)id);
                            }
                        }
                        if (push) {
                            vrt::log_ev("hreg", "", tid);
                            vrt::log_ev("pushed", "", tid, val);
                        }
                        vrt::log_ev("hrelb", "", tid);
                    }
                    vrt::log_ev("hrel", "", tid);
                    vrt::ret_ev(names[(size_t)op], nvis);
                }
            });
        }
        x.run();
        {
            // final contents (uninstrumented), then destruction of the list (allocator events still logged)
            std::vector<long> vals;
            {
                // a driver-side handle (thread 0 events; trace specifications skip them, the monitors count its record)
                auto h = rcu->lock_read();
                vrt::add_region(&h, sizeof h, "guard", 0);
                for (auto it = h->begin(); it != h->end(); ++it) vals.push_back(it->v);
            }
            int k = 0;
            for (long v : vals) vrt::log_ev("fin", "n", ++k, v);
            vrt::log_ev("finend", "n", (int)vals.size());
            rcu->~Rcu();
            vrt::log_ev("destroyed", "n", 0, vrt::g_alloc.liveElems);
        }
    });
}

// harness for gmlc::libguarded::deferred_guarded<Cell, M> (C06, and its parts of C02, C08, C15, C20, C07)
#include "cell.hpp"
#include "gmlc/libguarded/deferred_guarded.hpp"
using vrt::Cell;
namespace lg = gmlc::libguarded;

static const std::vector<const char*> names{"modify_detach", "modify_async", "shared_read", "try_shared_read",
                                            "timed_shared_read", "load"};

template<class M>
constexpr bool timedM = std::is_same_v<M, std::timed_mutex> || std::is_same_v<M, std::shared_timed_mutex>;

// user functors are user types too: copying / moving one is user code (a step, event `fcopy`) when the execution runs with
// fcopy=1, so that a copy made while the library holds one of its internal locks is observable
struct FnTag {
    int d;
    explicit FnTag(int x): d(x) {}
    FnTag(const FnTag& o): d(o.d) { hit(); }
    FnTag(FnTag&& o) noexcept: d(o.d) { hit(); }
    void hit() const
    {
        if (vrt::g_rt && vrt::scheduled() && vrt::g_rt->cfg.params.count("fcopy") && vrt::g_rt->cfg.params["fcopy"] != 0)
            vrt::step_ev("fcopy", "fn", 0, d);
    }
};

struct Fut {
    int digit;
    std::future<long> f;
};

template<class M>
static void run_mk(vrt::Exec& x)
{
    using D = lg::deferred_guarded<Cell, M>;
    // members: m_obj, m_mutex, m_pendingWrites, m_pendingList (guarded: vector, mutex)
    vrt::alias("w", "m0", "m");
    vrt::alias("w", "a0", "pw");
    vrt::alias("w", "m1", "lm");
    vrt::g_cell = vrt::CellStats();
    vrt::g_cell.throwsLeft = (int)x.param("maxthrows", 0);
    vrt::g_cell.midThrows = false;  // deferred tasks throw before modifying (values stay sequences of applied digits)
    D* A = x.make<D>("w", Cell(0L, Cell::Temp{}));
    auto futs = std::make_shared<std::vector<Fut>>();
    auto futm = std::make_shared<std::mutex>();  // (a real std::mutex would be substituted too; only touched by the baton holder)
    int tid = 0;
    const std::chrono::milliseconds d(5);
    for (auto& menus : vrt::parse_prog(x.rt.cfg.prog)) {
        ++tid;
        x.worker([A, menus, tid, d, futs] {
            (void)d;
            int opi = 0;
            for (auto& menu : menus) {
                ++opi;
                int digit = 2 * (tid - 1) + opi;
                int a = 0;
                if (vrt::scheduled()) {
                    vrt::PendOp pop;
                    pop.kind = "call";
                    pop.nalt = (unsigned)menu.size();
                    unsigned mask = (1u << menu.size()) - 1;
                    pop.enabledMask = [mask] { return mask; };
                    a = vrt::sched_point(pop);
                }
                int op = menu[(size_t)a];
                if (op <= 1 && digit > 7) {
                    fprintf(stderr, "h_deferred: the program submits more than 7 modifications (digits are base 8)\n");
                    _exit(5);
                }
                vrt::log_ev("call", names[(size_t)op], 0, op <= 1 ? digit : 0);
                long r = 0;
                auto rp = std::make_shared<long>(0);  // the functor may run later, in another thread
                if (op == 0) {
                    try {
                        A->modify_detach([digit, rp, tid, tag = FnTag(digit)](Cell& c) {
                            vrt::log_ev("task", "", digit);
                            c.mutate([digit](long v) { return vrt::upd(v, digit); });
                            if (vrt::cur_id() == tid) *rp = c.a;  // direct path: run by the submitter inside its call
                        });
                        r = *rp;
                    }
                    catch (const vrt::CellThrow&) {
                        r = -1;
                    }
                } else if (op == 1) {
                    auto ran = std::make_shared<bool>(false);
                    auto f = A->modify_async([digit, rp, tid, ran, tag = FnTag(digit)](Cell& c) -> long {
                        vrt::log_ev("task", "", digit);
                        if (vrt::cur_id() == tid) *ran = true;
                        c.mutate([digit](long v) { return vrt::upd(v, digit); });
                        if (vrt::cur_id() == tid) *rp = c.a;
                        return c.a;
                    });
                    r = *rp;
                    futs->push_back(Fut{digit, std::move(f)});
                    // r was set only if the functor ran inside this call (direct path); a captured exception gives -1
                    auto& fu = futs->back().f;
                    (void)fu;
                    if (*ran && r == 0) r = -1;  // direct path and the functor threw (captured in the future)
                } else if (op == 2) {
                    auto h = A->lock_shared();
                    vrt::log_ev("hget", "cell", 1, 0);
                    r = h->read();
                    vrt::log_ev("hrel", "cell", 1, 0);
                } else if (op == 3) {
                    auto h = A->try_lock_shared();
                    if (h) {
                        vrt::log_ev("hget", "cell", 1, 0);
                        r = h->read();
                        vrt::log_ev("hrel", "cell", 1, 0);
                    } else r = -1;
                } else if (op == 4) {
                    if constexpr (timedM<M>) {
                        auto h = (tid % 2) ? A->try_lock_shared_for(d) : A->try_lock_shared_until(std::chrono::steady_clock::now() + d);
                        if (h) {
                            vrt::log_ev("hget", "cell", 1, 0);
                            r = h->read();
                            vrt::log_ev("hrel", "cell", 1, 0);
                        } else r = -1;
                    }
                } else {
                    Cell c = A->load();
                    r = c.peek();
                }
                vrt::ret_ev(names[(size_t)op], r);
            }
        });
    }
    (void)futm;
    x.run();
    // after the submitters have returned: one lock_shared with no handle held must apply everything accepted
    long v = -7;
    {
        // performed by the driver under the scheduler (thread 0 events: skipped by the trace specification, seen by the monitors)
        try {
            auto h = A->lock_shared();
            v = h->peek();
        }
        catch (...) {
            v = -9;  // an exception of a queued functor escaped into an unrelated caller
        }
    }
    vrt::log_ev("final", "cell", 0, v, 0);
    for (auto& fu : *futs) {
        long val = -3;
        bool ready = fu.f.valid() && fu.f.wait_for(std::chrono::seconds(0)) == std::future_status::ready;
        if (ready) {
            try {
                val = fu.f.get();
            }
            catch (const vrt::CellThrow&) {
                val = -1;
            }
            catch (const std::future_error&) {
                val = -2;  // broken promise
            }
        }
        vrt::log_ev("fut", "cell", fu.digit, val, ready ? 1 : 0);
    }
}

int main(int argc, char** argv)
{
    return vrt::main_loop(argc, argv, [](vrt::Exec& x) {
        switch (x.param("mk", 3)) {
            case 0: run_mk<std::mutex>(x); break;
            case 1: run_mk<std::timed_mutex>(x); break;
            case 2: run_mk<std::shared_mutex>(x); break;
            default: run_mk<std::shared_timed_mutex>(x); break;
        }
    });
}

// harness for gmlc::libguarded::cow_guarded<Cell> (C04, C14, C20, C07)
#include "cell.hpp"
#include "gmlc/libguarded/cow_guarded.hpp"
using vrt::Cell;
using Cow = gmlc::libguarded::cow_guarded<Cell>;

int main(int argc, char** argv)
{
    return vrt::main_loop(argc, argv, [](vrt::Exec& x) {
        // cow_guarded members: m_data (lr_guarded<shared_ptr>: left, right, rl, cl, cntL, cntR, wm), m_writeMutex
        vrt::alias("cow", "a0", "rl");
        vrt::alias("cow", "a1", "cl");
        vrt::alias("cow", "a2", "cntL");
        vrt::alias("cow", "a3", "cntR");
        vrt::alias("cow", "m0", "wm");
        vrt::alias("cow", "m1", "cw");
        vrt::g_cell = vrt::CellStats();
        vrt::g_cell.loudLife = false;
        Cow* cow = x.make<Cow>("cow", Cell(0L, Cell::Temp{}));  // the initial version is Cell instance 1
        vrt::g_cell.loudLife = true;        // from now on construction / destruction of versions are steps
        vrt::g_cell.quietCtor = true;
        vrt::g_cell.copyThrowsLeft = (int)x.param("copythrows", 0);  // C20: the payload's copy constructor may throw inside lock()
        static const std::vector<const char*> names{"write_commit", "write_cancel", "write_move_commit", "snap_read", "snap_hold", "try_snap", "write_move_stale_cancel"};
        int tid = 0;
        for (auto& menus : vrt::parse_prog(x.rt.cfg.prog)) {
            ++tid;
            x.worker([cow, menus, tid] {
                int opi = 0;
                for (auto& menu : menus) {
                    ++opi;
                    int digit = 2 * (tid - 1) + opi;
                    int a = 0;
                    if (vrt::scheduled()) {
                        vrt::PendOp pop;
                        pop.kind = "call";
                        pop.nalt = (unsigned)menu.size();
                        unsigned mask = (1u << menu.size()) - 1;
                        pop.enabledMask = [mask] { return mask; };
                        a = vrt::sched_point(pop);
                    }
                    int op = menu[(size_t)a];
                    bool wr = op <= 2 || op == 6;
                    vrt::log_ev("call", names[(size_t)op], 0, wr ? digit : 0);
                    long r = 0;
                    if (wr) {
                        try {
                            auto h = cow->lock();
                            vrt::log_ev("wget", "cell", h->id, h->peek());
                            if (op == 2 || op == 6) {
                                auto h2(std::move(h));
                                if (op == 6) h.cancel();  // the moved-from handle is empty: cancelling it must not touch the writer lock
                                h2->mutate([digit](long v) { return vrt::upd(v, digit); });
                                r = h2->a;
                                vrt::log_ev("wrel", "cell", h2->id, 1);
                            } else {
                                h->mutate([digit](long v) { return vrt::upd(v, digit); });
                                r = h->a;
                                if (op == 1) {
                                    vrt::log_ev("wrel", "cell", h->id, 0);
                                    h.cancel();
                                    r = -1;
                                } else vrt::log_ev("wrel", "cell", h->id, 1);
                            }
                        }
                        catch (const vrt::CellThrow&) {
                            r = -2;  // lock() threw: no handle, nothing published, the writer lock must be free again
                        }
                        if (r != -2) vrt::log_ev("wdone", "cell", 0);  // the write handle is gone: commit / cancel completed
                    } else {
                        // try_snap: the three try forms in turn (all wait-free: they map to the same operation of the model)
                        const std::chrono::milliseconds du(10);
                        auto s = (op != 5)               ? cow->lock_shared()
                                 : ((tid + opi) % 3 == 0) ? cow->try_lock_shared()
                                 : ((tid + opi) % 3 == 1) ? cow->try_lock_shared_for(du)
                                                          : cow->try_lock_shared_until(std::chrono::steady_clock::now() + du);
                        vrt::log_ev("sget", "cell", s->id);
                        r = s->read();
                        if (op == 4) {
                            long r2 = s->read();
                            if (r2 != r) r = -1;
                        }
                        vrt::log_ev("srel", "cell", s->id);
                    }
                    vrt::ret_ev(names[(size_t)op], r);
                }
            });
        }
        x.run();
        long v = -7;
        {
            vrt::Quiet q;
            v = cow->lock_shared()->peek();
        }
        vrt::log_ev("final", "cell", 0, v, vrt::g_cell.live);
    });
}

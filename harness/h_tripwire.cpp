// harness for gmlc::concurrency::TripWire (C19, C07): explicit, indexed and declared lines
#include "gmlc/concurrency/TripWire.hpp"
DECLARE_TRIPLINE()
DECLARE_INDEXED_TRIPLINES(2)
using namespace gmlc::concurrency;

int main(int argc, char** argv)
{
    return vrt::main_loop(argc, argv, [](vrt::Exec& x) {
        // lines in creation order: two explicit, two indexed, one declared
        for (int k = 1; k <= 5; ++k) vrt::alias("anon", "a" + std::to_string(k), "line" + std::to_string(k));
        auto l1 = make_tripline();
        auto l2 = make_tripline();
        {
            TripWireDetector d3(0u), d4(1u), d5;  // forces creation of the static lines in a fixed order
            (void)d3;
            (void)d4;
            (void)d5;
        }
        auto mkT = [&](int L) -> TripWireTrigger* {
            if (L <= 2) return new TripWireTrigger(L == 1 ? l1 : l2);
            if (L <= 4) return new TripWireTrigger((unsigned)(L - 3));
            return new TripWireTrigger();
        };
        auto mkD = [&](int L) {
            if (L <= 2) return TripWireDetector(L == 1 ? l1 : l2);
            if (L <= 4) return TripWireDetector((unsigned)(L - 3));
            return TripWireDetector();
        };
        static std::vector<std::string> nameStore;
        static std::vector<const char*> names;
        if (names.empty()) {
            const char* kinds[] = {"trip", "poll", "movetrip", "publish", "consume", "badindex", "massign"};
            for (int c = 0; c < 70; ++c) nameStore.push_back(std::string(kinds[c / 10]) + std::to_string(c % 10));
            for (auto& s : nameStore) names.push_back(s.c_str());
        }
        for (auto& menus : vrt::parse_prog(x.rt.cfg.prog)) {
            x.worker([menus, mkT, mkD] {
                for (auto& menu : menus) {
                    int code = vrt::pick_and_call(menu, names);
                    int kind = code / 10, L = code % 10;
                    long r = 0;
                    if (kind == 0) {
                        TripWireTrigger* t = mkT(L);
                        vrt::log_ev("tb", "line", L);
                        delete t;
                        vrt::log_ev("te", "line", L);
                    } else if (kind == 1) {
                        r = mkD(L).isTripped();
                    } else if (kind == 2) {
                        TripWireTrigger* a = mkT(L);
                        TripWireTrigger* b = new TripWireTrigger(std::move(*a));
                        delete a;  // the moved-from trigger: must be safe and must not trip anything
                        vrt::log_ev("mdestroy", "line", L);
                        r = mkD(L).isTripped();
                        vrt::log_ev("tb", "line", L);
                        delete b;
                        vrt::log_ev("te", "line", L);
                    } else if (kind == 3) {
                        TripWireTrigger* t = mkT(L);
                        vrt::step_ev("pw", "data", L, 1);  // data published by the trip
                        vrt::log_ev("tb", "line", L);
                        delete t;
                        vrt::log_ev("te", "line", L);
                    } else if (kind == 4) {
                        r = mkD(L).isTripped();
                        if (r) vrt::step_ev("pr", "data", L, 1);
                    } else if (kind == 6) {
                        TripWireTrigger* a = mkT(L);
                        TripWireTrigger* b = mkT(L == 1 ? 2 : 1);  // the assignment target is attached to the other explicit line
                        *b = std::move(*a);  // b takes over line L; its previous line is dropped without being tripped
                        delete a;            // the moved-from trigger: must be safe and must not trip anything
                        vrt::log_ev("mdestroy", "line", L);
                        vrt::log_ev("tb", "line", L);
                        delete b;
                        vrt::log_ev("te", "line", L);
                    } else {
                        try {
                            TripWireDetector d(7u);
                            r = 0;
                        }
                        catch (const std::out_of_range&) {
                            r = 1;
                        }
                    }
                    vrt::ret_ev(names[(size_t)code], r);
                }
            });
        }
        x.run();
    });
}

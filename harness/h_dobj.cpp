// harness for gmlc::concurrency::DelayedObjects<long> (C18): int keys 1, 2 and the string key "1" (= key 3; spelled like int key 1 on purpose: names and indices are separate key spaces, seed C18e)
#include "gmlc/concurrency/DelayedObjects.hpp"
// the stored type has a real move: a moved-from Val holds a poison value, so a value moved twice shows up in a future
struct Val {
    long v = 0;
    Val() = default;
    Val(long x): v(x) {}
    Val(const Val&) = default;
    Val& operator=(const Val&) = default;
    Val(Val&& o) noexcept: v(o.v) { o.v = -9; }
    Val& operator=(Val&& o) noexcept
    {
        v = o.v;
        o.v = -9;
        return *this;
    }
    operator long() const { return v; }
};
using DO = gmlc::concurrency::DelayedObjects<Val>;

int main(int argc, char** argv)
{
    return vrt::main_loop(argc, argv, [](vrt::Exec& x) {
        vrt::alias("do", "m0", "pl");
        DO* D = x.make<DO>("do");
        static std::vector<std::string> nameStore;
        static std::vector<const char*> names;
        if (names.empty()) {
            const char* kinds[] = {"getFuture", "set_copy", "set_move", "fulfillAll", "finished", "isRecognized", "isCompleted", "wait"};
            for (int c = 0; c < 80; ++c) nameStore.push_back(std::string(kinds[c / 10]) + std::to_string(c % 10));
            for (auto& s : nameStore) names.push_back(s.c_str());
        }
        struct Tab {
            bool claimed[4] = {false, false, false, false};
            std::shared_future<Val> fut[4];
            bool has[4] = {false, false, false, false};
        };
        auto tab = std::make_shared<Tab>();
        auto ready = [tab](int k) { return tab->has[k] && tab->fut[k].wait_for(std::chrono::seconds(0)) == std::future_status::ready; };
        int tid = 0;
        for (auto& menus : vrt::parse_prog(x.rt.cfg.prog)) {
            ++tid;
            x.worker([D, menus, tid, tab, ready] {
                int opi = 0;
                for (auto& menu : menus) {
                    ++opi;
                    int a = 0;
                    if (vrt::scheduled()) {
                        vrt::PendOp pop;
                        pop.kind = "call";
                        pop.nalt = (unsigned)menu.size();
                        unsigned mask = (1u << menu.size()) - 1;
                        pop.enabledMask = [mask] { return mask; };
                        a = vrt::sched_point(pop);
                    }
                    int code = menu[(size_t)a];
                    int kd = code / 10, k = code % 10;
                    long val = (kd == 1 || kd == 2) ? 10 * tid + opi : (kd == 3 ? 100 + 10 * tid + opi : 0);
                    vrt::log_ev("call", names[(size_t)code], 0, val);
                    long r = 0, w = 0;
                    try {
                        if (kd == 0) {
                            if (tab->claimed[k]) r = -3;  // a future is requested once per key
                            else {
                                tab->claimed[k] = true;
                                auto f = (k == 3) ? D->getFuture(std::string("1")) : D->getFuture(k);
                                tab->fut[k] = f.share();
                                tab->has[k] = true;
                            }
                        } else if (kd == 1) {
                            const Val v = val;
                            if (k == 3) D->setDelayedValue(std::string("1"), v);
                            else D->setDelayedValue(k, v);
                        } else if (kd == 2) {
                            Val v = val;
                            if (k == 3) D->setDelayedValue(std::string("1"), std::move(v));
                            else D->setDelayedValue(k, std::move(v));
                        } else if (kd == 3) {
                            D->fulfillAllPromises(Val(val));  // an rvalue: every pending promise must still get the value
                        } else if (kd == 4) {
                            if (k == 3) D->finishedWithValue(std::string("1"));
                            else D->finishedWithValue(k);
                        } else if (kd == 5) {
                            r = (k == 3) ? D->isRecognized(std::string("1")) : D->isRecognized(k);
                        } else if (kd == 6) {
                            r = (k == 3) ? D->isCompleted(std::string("1")) : D->isCompleted(k);
                            w = tab->has[k] ? (ready(k) ? 1 : 0) : -1;  // readiness observed right after the answer (unknown while the future is still being handed out)
                        } else {
                            if (!tab->claimed[k]) r = -3;  // nothing to wait for
                            else {
                                // a consumer blocked on the future: enabled once the future is ready
                                vrt::block_until("fwait", "future", [&] { return ready(k); });
                                try {
                                    r = tab->fut[k].get();
                                }
                                catch (const std::future_error&) {
                                    r = -2;
                                }
                                vrt::log_ev("fwait", "fut", k, r);
                            }
                        }
                    }
                    catch (const std::future_error& e) {
                        vrt::log_ev("escaped", "", 0, 0, 0, 0, -1, "future_error");
                        r = -9;
                    }
                    vrt::ret_ev(names[(size_t)code], r, w);
                }
            });
        }
        x.run();
        // destruction of the container (driver), then the state of every future that was handed out
        try {
            D->~DO();
        }
        catch (const std::future_error&) {
            vrt::log_ev("escaped", "", 0, 0, 0, 0, -1, "future_error in destructor");
        }
        vrt::log_ev("destroyed", "", 0);
        for (int k = 1; k <= 3; ++k) {
            if (!tab->has[k]) continue;
            long v = -5;
            if (ready(k)) {
                try {
                    v = tab->fut[k].get();
                }
                catch (const std::future_error&) {
                    v = -2;
                }
            }
            vrt::log_ev("fut", "fut", k, v);
        }
    });
}

// harness for guarded, guarded_opt, shared_guarded, shared_guarded_opt, ordered_guarded over the four
// substituted mutex kinds (C01, C02, C08, C20, C07). params: kind=0..4 mk=0..3 enabled=0|1 maxthrows=n
#include "cell.hpp"
#include "gmlc/libguarded/guarded.hpp"
#include "gmlc/libguarded/guarded_opt.hpp"
#include "gmlc/libguarded/ordered_guarded.hpp"
#include "gmlc/libguarded/shared_guarded.hpp"
#include "gmlc/libguarded/shared_guarded_opt.hpp"
using vrt::Cell;
namespace lg = gmlc::libguarded;

static const std::vector<const char*> names{"lock_rmw", "try_rmw", "timed_rmw", "lock_rmw_unlock", "lock_move_rmw",
                                            "shared_read", "try_shared_read", "timed_shared_read", "load", "store",
                                            "assign", "modify", "readf", "handover", "const_lock_read", "modify_ret",
                                            "readf_void"};

template<class W>
struct Traits;
template<class M>
struct Traits<lg::guarded<Cell, M>> {
    static constexpr int kind = 0;
    static lg::guarded<Cell, M>* make(vrt::Exec& x, bool) { return x.make<lg::guarded<Cell, M>>("w", Cell(0L, Cell::Temp{})); }
};
template<class M>
struct Traits<lg::guarded_opt<Cell, M>> {
    static constexpr int kind = 1;
    static lg::guarded_opt<Cell, M>* make(vrt::Exec& x, bool en) { return x.make<lg::guarded_opt<Cell, M>>("w", en, Cell(0L, Cell::Temp{})); }
};
template<class M>
struct Traits<lg::shared_guarded<Cell, M>> {
    static constexpr int kind = 2;
    static lg::shared_guarded<Cell, M>* make(vrt::Exec& x, bool) { return x.make<lg::shared_guarded<Cell, M>>("w", Cell(0L, Cell::Temp{})); }
};
template<class M>
struct Traits<lg::shared_guarded_opt<Cell, M>> {
    static constexpr int kind = 3;
    static lg::shared_guarded_opt<Cell, M>* make(vrt::Exec& x, bool en)
    {
        return x.make<lg::shared_guarded_opt<Cell, M>>("w", en, Cell(0L, Cell::Temp{}));
    }
};
template<class M>
struct Traits<lg::ordered_guarded<Cell, M>> {
    static constexpr int kind = 4;
    static lg::ordered_guarded<Cell, M>* make(vrt::Exec& x, bool) { return x.make<lg::ordered_guarded<Cell, M>>("w", Cell(0L, Cell::Temp{})); }
};

template<class M>
constexpr bool timedM = std::is_same_v<M, std::timed_mutex> || std::is_same_v<M, std::shared_timed_mutex>;

// read-modify-write through an exclusive handle: two windows
template<class H>
static long rmw(H& h, int tid)
{
    long v = h->read();
    long nv = vrt::upd(v, tid);
    h->set(nv);
    return nv;
}

template<class W, class M>
static void run_kind(vrt::Exec& x)
{
    constexpr int kind = Traits<W>::kind;
    bool en = x.param("enabled", 1) != 0;
    vrt::alias("w", "m0", "m");
    vrt::g_cell = vrt::CellStats();
    vrt::g_cell.throwsLeft = (int)x.param("maxthrows", 0);
    W* A = Traits<W>::make(x, en);
    W* B = Traits<W>::make(x, en);
    int tid = 0;
    const std::chrono::milliseconds d(5);
    for (auto& menus : vrt::parse_prog(x.rt.cfg.prog)) {
        ++tid;
        x.worker([A, B, menus, tid, d] {
            (void)B;
            (void)d;
            for (auto& menu : menus) {
                int op = vrt::pick_and_call(menu, names);
                long r = 0, flag = 0;
                try {
                    if constexpr (kind <= 3) {
                        // exclusive handle operations
                        if (op == 0 || op == 3 || op == 4) {
                            auto h = A->lock();
                            if (h) {
                                vrt::log_ev("hget", "cell", 1, 1);
                                if (op == 4) {
                                    auto h2(std::move(h));
                                    (void)0;  // (a moved-from lock_handle keeps its raw pointer; C08 only speaks about the lock)
                                    r = rmw(h2, tid);
                                    vrt::log_ev("hrel", "cell", 1, 1);
                                } else {
                                    r = rmw(h, tid);
                                    vrt::log_ev("hrel", "cell", 1, 1);
                                    if (op == 3) {
                                        h.unlock();
                                        flag = h ? 0 : 1;  // after unlock() the handle is null
                                    }
                                }
                            } else r = -1;
                        } else if (op == 1) {
                            auto h = A->try_lock();
                            if (h) {
                                vrt::log_ev("hget", "cell", 1, 1);
                                r = rmw(h, tid);
                                vrt::log_ev("hrel", "cell", 1, 1);
                            } else {
                                r = -1;
                                h.unlock();  // unconditional clean-up of a null handle must be a no-op
                            }
                        } else if (op == 2) {
                            if constexpr (timedM<M>) {
                                // both timed forms are exercised (they map to the same operation of the model)
                                auto h = (tid % 2) ? A->try_lock_for(d) : A->try_lock_until(std::chrono::steady_clock::now() + d);
                                if (h) {
                                    vrt::log_ev("hget", "cell", 1, 1);
                                    r = rmw(h, tid);
                                    vrt::log_ev("hrel", "cell", 1, 1);
                                } else {
                                    r = -1;
                                    h.unlock();  // unconditional clean-up of a null handle must be a no-op
                                }
                            }
                        } else if (op == 13) {
                            auto h = A->lock();
                            vrt::log_ev("hget", "cell", 1, 1);
                            rmw(h, tid);
                            auto h2 = B->lock();
                            vrt::log_ev("hget", "cell", 2, 1);
                            vrt::log_ev("hrel", "cell", 1, 1);  // the assignment must release the lock on A
                            h = std::move(h2);
                            vrt::log_ev("hfree", "cell", 1, 1);  // by now the lock on A has been released
                            r = rmw(h, tid);
                            vrt::log_ev("hrel", "cell", 2, 1);
                        }
                    }
                    if constexpr (kind >= 2) {
                        // shared handle operations
                        if (op == 5) {
                            auto h = A->lock_shared();
                            vrt::log_ev("hget", "cell", 1, 0);
                            r = h->read();
                            vrt::log_ev("hrel", "cell", 1, 0);
                        } else if (op == 6) {
                            auto h = A->try_lock_shared();
                            if (h) {
                                vrt::log_ev("hget", "cell", 1, 0);
                                r = h->read();
                                vrt::log_ev("hrel", "cell", 1, 0);
                            } else {
                                r = -1;
                                h.unlock();  // unconditional clean-up of a null handle must be a no-op
                            }
                        } else if (op == 7) {
                            if constexpr (timedM<M>) {
                                auto h = (tid % 2) ? A->try_lock_shared_for(d) : A->try_lock_shared_until(std::chrono::steady_clock::now() + d);
                                if (h) {
                                    vrt::log_ev("hget", "cell", 1, 0);
                                    r = h->read();
                                    vrt::log_ev("hrel", "cell", 1, 0);
                                } else {
                                    r = -1;
                                    h.unlock();  // unconditional clean-up of a null handle must be a no-op
                                }
                            }
                        }
                    }
                    if constexpr (kind == 2 || kind == 3) {
                        if (op == 14) {
                            const W* cA = A;
                            auto h = cA->lock();
                            vrt::log_ev("hget", "cell", 1, 0);
                            r = h->read();
                            vrt::log_ev("hrel", "cell", 1, 0);
                        }
                    }
                    if constexpr (kind == 0 || kind == 1 || kind == 4) {
                        if (op == 8) {
                            Cell c = A->load();
                            r = c.peek();
                        } else if (op == 9) {
                            Cell tmp(40 + tid);
                            A->store(tmp);
                        } else if (op == 10) {
                            Cell tmp(40 + tid);
                            *A = tmp;
                        }
                    }
                    if constexpr (kind == 4) {
                        if (op == 11) {
                            A->modify([tid, &r](Cell& c) {
                                c.mutate([tid](long v) { return vrt::upd(v, tid); });
                                r = c.a;
                            });
                        } else if (op == 12) {
                            r = A->read([](const Cell& c) { return c.read(); });
                        } else if (op == 15) {  // value-returning overload of modify
                            r = A->modify([tid](Cell& c) {
                                c.mutate([tid](long v) { return vrt::upd(v, tid); });
                                return c.a;
                            });
                        } else if (op == 16) {  // void overload of read
                            A->read([&r](const Cell& c) { r = c.read(); });
                        }
                    }
                }
                catch (const vrt::CellThrow&) {
                    r = -1;
                }
                vrt::ret_ev(names[(size_t)op], r, r >= 0 ? flag : 0);
            }
        });
    }
    x.run();
    long v1, v2;
    {
        vrt::Quiet q;
        if constexpr (kind == 4) {
            v1 = A->lock_shared()->peek();
            v2 = B->lock_shared()->peek();
        } else {
            v1 = A->lock()->peek();
            v2 = B->lock()->peek();
        }
    }
    vrt::log_ev("final", "cell", 0, v1, v2);
}

template<template<class, class> class W>
static void run_mk(vrt::Exec& x)
{
    switch (x.param("mk", 0)) {
        case 0: run_kind<W<Cell, std::mutex>, std::mutex>(x); break;
        case 1: run_kind<W<Cell, std::timed_mutex>, std::timed_mutex>(x); break;
        case 2: run_kind<W<Cell, std::shared_mutex>, std::shared_mutex>(x); break;
        default: run_kind<W<Cell, std::shared_timed_mutex>, std::shared_timed_mutex>(x); break;
    }
}

int main(int argc, char** argv)
{
    return vrt::main_loop(argc, argv, [](vrt::Exec& x) {
        switch (x.param("kind", 0)) {
            case 0: run_mk<lg::guarded>(x); break;
            case 1: run_mk<lg::guarded_opt>(x); break;
            case 2: run_mk<lg::shared_guarded>(x); break;
            case 3: run_mk<lg::shared_guarded_opt>(x); break;
            default: run_mk<lg::ordered_guarded>(x); break;
        }
    });
}

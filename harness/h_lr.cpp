// harness for gmlc::libguarded::lr_guarded<Cell> (C03, C14, C20, C07)
#include "cell.hpp"
#include "gmlc/libguarded/lr_guarded.hpp"
using vrt::Cell;
using LR = gmlc::libguarded::lr_guarded<Cell>;

int main(int argc, char** argv)
{
    return vrt::main_loop(argc, argv, [](vrt::Exec& x) {
        // declaration order: m_left, m_right, m_readingLeft, m_countingLeft, m_leftReadCount, m_rightReadCount, m_writeMutex
        vrt::alias("lr", "a0", "rl");
        vrt::alias("lr", "a1", "cl");
        vrt::alias("lr", "a2", "cntL");
        vrt::alias("lr", "a3", "cntR");
        vrt::alias("lr", "m0", "wm");
        vrt::g_cell = vrt::CellStats();
        vrt::g_cell.throwsLeft = (int)x.param("maxthrows", 0);
        LR* lr = x.make<LR>("lr", Cell(0L, Cell::Temp{}));
        static const std::vector<const char*> names{"modify", "read", "read2", "relay"};
        // relay bookkeeping (only touched by the thread holding the baton)
        auto holders = std::make_shared<int>(0);   // acquisition counter: a relay holder lets go only after a later acquisition
        auto relayLeft = std::make_shared<int>(0);
        for (auto& pm : vrt::parse_prog(x.rt.cfg.prog))
            if (!pm.empty() && !pm[0].empty() && pm[0][0] == 3) ++*relayLeft;
        int tid = 0;
        for (auto& menus : vrt::parse_prog(x.rt.cfg.prog)) {
            ++tid;
            bool isRelay = !menus.empty() && !menus[0].empty() && menus[0][0] == 3;
            x.worker([lr, menus, tid, holders, relayLeft, isRelay] {
                long nread = 0;
                for (auto& menu : menus) {
                    int op = vrt::pick_and_call(menu, names);
                    long r = 0;
                    if (op == 0) {
                        try {
                            lr->modify([tid, &r](Cell& c) {
                                c.mutate([tid](long v) { return 4 * v + tid; });
                                r = c.a;
                            });
                        }
                        catch (const vrt::CellThrow&) {
                            r = -1;
                        }
                    } else {
                        // the four acquisition forms in turn (all wait-free: one operation of the model)
                        const std::chrono::milliseconds du(10);
                        int form = (tid + (int)(++nread)) % 4;
                        auto h = form == 0   ? lr->lock_shared()
                                 : form == 1 ? lr->try_lock_shared()
                                 : form == 2 ? lr->try_lock_shared_for(du)
                                             : lr->try_lock_shared_until(std::chrono::steady_clock::now() + du);
                        vrt::log_ev("hget", "cell", h->id);
                        int ticket = ++*holders;
                        if (op == 3) {
                            // hold the handle until somebody else has taken one after me (or no other relay thread is left):
                            // from the first acquisition on, at least one handle is held at every moment
                            int others = isRelay ? 1 : 0;
                            vrt::block_until("relay", "a later holder", [&] { return *holders > ticket || *relayLeft - others <= 0; });
                            vrt::log_ev("relay", "");
                        }
                        r = h->read();
                        if (op == 2) {
                            long r2 = h->read();
                            if (r2 != r) r = -1;
                        }
                        vrt::log_ev("hrel", "cell", h->id);
                        h.reset();
                    }
                    vrt::ret_ev(names[(size_t)op], r);
                }
                if (isRelay) --*relayLeft;
            });
        }
        x.run();
        // final inspection by the driver, uninstrumented: a no-op modify sees both copies
        long v1 = -7, v2 = -7;
        {
            vrt::Quiet q;
            int n = 0;
            lr->modify([&](Cell& c) { (n++ == 0 ? v1 : v2) = c.peek(); });
        }
        vrt::log_ev("final", "cell", 0, v1, v2);
    });
}

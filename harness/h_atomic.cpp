// harness for atomic_guarded and the whole-object load/store/operator= of guarded, guarded_opt, ordered_guarded,
// deferred_guarded as atomic registers (C15). params: wrap=0..5 mk=0..3 (wrap=5: atomic_guarded over a trivially copyable type)
#include "cell.hpp"
#include "gmlc/libguarded/atomic_guarded.hpp"
#include "gmlc/libguarded/deferred_guarded.hpp"
#include "gmlc/libguarded/guarded.hpp"
#include "gmlc/libguarded/guarded_opt.hpp"
#include "gmlc/libguarded/ordered_guarded.hpp"
using vrt::Reg;
namespace lg = gmlc::libguarded;

// a trivially copyable register whose equality is NOT bytewise: `tag` differs for every value the harness builds, `==` looks
// at `v` only (seed C15e: compare_exchange comparing object representations). Its copies are not user code, so executions
// with it (wrap=5) carry no payload windows and are judged by the API-level monitor only.
struct TrivReg {
    long v = 0;
    long tag = 0;
    TrivReg() = default;
    explicit TrivReg(long x, bool = false): v(x), tag(next_tag()) {}
    bool operator==(const TrivReg& o) const { return v == o.v; }
    long value() const { return v; }
    static long next_tag()
    {
        static long t = 0;
        return ++t;
    }
};
static_assert(std::is_trivially_copyable<TrivReg>::value, "TrivReg must be trivially copyable");

static std::vector<std::string> nameStore;
static std::vector<const char*> names;

template<class W, int WRAP>
static W* mk(vrt::Exec& x)
{
    if constexpr (WRAP == 2) return x.make<W>("w", true, 0L, true);   // guarded_opt(enableLocking, value...)
    else return x.make<W>("w", 0L, true);
}

template<class W, int WRAP, class Reg = vrt::Reg>
static void run_w(vrt::Exec& x)
{
    vrt::alias("w", "m0", "m");
    vrt::alias("w", "a0", "pw");
    vrt::g_cell = vrt::CellStats();
    W* A = mk<W, WRAP>(x);
    vrt::g_cell.copyThrowsLeft = (int)x.param("copythrows", 0);
    for (auto& menus : vrt::parse_prog(x.rt.cfg.prog)) {
        x.worker([A, menus] {
            for (auto& menu : menus) {
                int code = vrt::pick_and_call(menu, names);
                int kd = code / 100, a = (code / 10) % 10, b = code % 10;
                long r = 0;
                try {
                if (kd == 0) {
                    Reg v = A->load();
                    r = v.value();
                } else if (kd == 1) {
                    if constexpr (WRAP != 4) {
                        Reg tmp(b);
                        A->store(tmp);
                    }
                } else if (kd == 2) {
                    if constexpr (WRAP != 4) {
                        Reg tmp(b);
                        *A = tmp;
                    }
                } else if (kd == 3) {
                    if constexpr (WRAP == 0) {
                        Reg old = A->exchange(Reg(b));
                        r = old.value();
                    }
                } else {
                    if constexpr (WRAP == 0) {
                        Reg expected(a);
                        bool ok = A->compare_exchange(expected, Reg(b));
                        r = ok ? 10 + expected.value() : expected.value();
                    }
                }
                }
                catch (const vrt::CellThrow&) {
                    r = 99;  // the wrapped type's copy / assignment threw: the operation had no effect
                }
                vrt::ret_ev(names[(size_t)code], r);
            }
        });
    }
    x.run();
}

template<class M>
static void run_mk(vrt::Exec& x)
{
    switch (x.param("wrap", 0)) {
        case 0: run_w<lg::atomic_guarded<Reg, M>, 0>(x); break;
        case 1: run_w<lg::guarded<Reg, M>, 1>(x); break;
        case 2: run_w<lg::guarded_opt<Reg, M>, 2>(x); break;
        case 3: run_w<lg::ordered_guarded<Reg, M>, 3>(x); break;
        case 4: run_w<lg::deferred_guarded<Reg, M>, 4>(x); break;
        default: run_w<lg::atomic_guarded<TrivReg, M>, 0, TrivReg>(x); break;
    }
}

int main(int argc, char** argv)
{
    const char* kinds[] = {"load", "store", "assign", "exchange", "cas"};
    for (int c = 0; c < 500; ++c) nameStore.push_back(std::string(kinds[c / 100]) + std::to_string((c / 10) % 10) + std::to_string(c % 10));
    for (auto& s : nameStore) names.push_back(s.c_str());
    return vrt::main_loop(argc, argv, [](vrt::Exec& x) {
        switch (x.param("mk", 0)) {
            case 0: run_mk<std::mutex>(x); break;
            case 1: run_mk<std::timed_mutex>(x); break;
            case 2: run_mk<std::shared_mutex>(x); break;
            default: run_mk<std::shared_timed_mutex>(x); break;
        }
    });
}

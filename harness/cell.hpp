// cell.hpp - observable payload for the wrappers.
// A two-word value whose every access is a *window* of two steps (begin, end) so that an overlap of a
// write with any other access is visible (torn value / open window), with logical instance ids, a
// live-instance count, and scheduler-chosen exception injection (C20).
#pragma once

namespace vrt {

struct CellThrow: std::runtime_error {
    CellThrow(): std::runtime_error("injected") {}
};

// the update function of the harnesses: v -> 8v+t (a base-8 sequence of updaters), bounded
inline long upd(long v, int t) { return (v < 0 || v >= 32768) ? t : 8 * v + t; }

struct CellStats {
    int nextId = 0;
    int live = 0;
    int throwsLeft = 0;       // remaining injected throws in this execution (param maxthrows)
    int copyThrowsLeft = 0;   // remaining injected throws in copy / assignment (param copythrows)
    bool quietCtor = true;    // construction / destruction by the driver thread is silent
    bool midThrows = true;    // user code may also throw half-way through a modification (leaving a torn value)
    bool loudLife = false;    // value construction / destruction are steps with ctor / dtor events (C04, C16)
};
inline CellStats g_cell;

// a step with an optional "throw" alternative (alt 1)
inline bool step_may_throw(const char* kind, int& budget)
{
    if (!scheduled()) return false;
    PendOp op;
    op.kind = kind;
    bool can = budget > 0;
    op.nalt = can ? 2 : 1;
    op.altWeight[1] = 0.25;
    op.enabledMask = [can] { return can ? 3u : 1u; };
    int a = sched_point(op);
    if (a == 1) {
        budget--;
        return true;
    }
    return false;
}

// Hostile overload: a payload type whose initializer_list constructor is viable from the type itself (like std::vector<std::any>
// or JSON-like variants).  `T(x)` copies; `T{x}` would build a one-element wrapper instead - the poison value below.
class Cell;
struct CellListItem {
    CellListItem(const Cell&) {}
};

class Cell {
  public:
    long a = 0, b = 0;
    int id;
    bool alive = true;

    Cell(std::initializer_list<CellListItem>): a(-7), b(-7), id(++g_cell.nextId)
    {
        g_cell.live++;
        log_ev("badinit", "cell", id, -7);
    }

    struct Temp {};  // a temporary made by the harness only to be moved from: takes no instance id
    Cell(long v, Temp): a(v), b(v), id(0) { g_cell.live++; }
    explicit Cell(long v = 0): a(v), b(v), id(++g_cell.nextId)
    {
        g_cell.live++;
        if (loud() && g_cell.loudLife) step_ev("ctor", "cell", id, v);
    }
    Cell(const Cell& o): id(++g_cell.nextId)
    {
        g_cell.live++;
        if (loud()) {
            try {
                copy_from(o, "kb", "ke");  // copy-construction window
            }
            catch (...) {
                g_cell.live--;  // never constructed: no destructor will run
                throw;
            }
        } else {
            a = o.a;
            b = o.b;
        }
    }
    Cell& operator=(const Cell& o)
    {
        if (loud()) copy_from(o, "cb", "ce");
        else {
            a = o.a;
            b = o.b;
        }
        return *this;
    }
    // moves look like copies to the observer but leave the source with a poison value (like a moved-from container): code
    // that uses an object after forwarding / moving it shows up in the values
    Cell(Cell&& o): id(++g_cell.nextId)
    {
        g_cell.live++;
        if (loud()) {
            copy_from(o, "kb", "ke");
        } else {
            a = o.a;
            b = o.b;
        }
        o.a = o.b = -9;
    }
    Cell& operator=(Cell&& o)
    {
        if (loud()) copy_from(o, "cb", "ce");
        else {
            a = o.a;
            b = o.b;
        }
        o.a = o.b = -9;
        return *this;
    }
    ~Cell()
    {
        if (loud() && g_cell.loudLife) step_ev("dtor", "cell", id, a, alive ? 0 : 1);
        alive = false;
        g_cell.live--;
    }
    // user-code modification: two steps; may throw before or in the middle (scheduler alternative)
    template<class F>
    void mutate(F f)
    {
        if (step_may_throw("wb", g_cell.throwsLeft)) {
            log_ev("throw", "cell", id, a, 0);
            throw CellThrow();
        }
        long old = a;
        a = f(a);
        log_ev("wb", "cell", id, old, a, alive ? 0 : 1);
        int none = 0;
        if (step_may_throw("we", g_cell.midThrows ? g_cell.throwsLeft : none)) {
            log_ev("throw", "cell", id, a, 1);
            throw CellThrow();
        }
        b = f(b);
        log_ev("we", "cell", id, b, 0, alive ? 0 : 1);
    }
    void set(long v)
    {
        mutate([v](long) { return v; });
    }
    // user-code read: two steps, returns the first word; the `re` event carries both
    long read() const
    {
        simple_point("rb");
        long x = a;
        log_ev("rb", "cell", id, x, 0, alive ? 0 : 1);
        simple_point("re");
        long y = b;
        log_ev("re", "cell", id, x, y, alive ? 0 : 1);
        return x == y ? x : -(x * 1000 + y) - 1;
    }
    long peek() const { return a == b ? a : -(a * 1000 + b) - 1; }  // silent (driver-side final inspection)
    bool operator==(const Cell& o) const { return a == o.a && b == o.b; }

    // instances created with `new` are never really freed: a destroyed one still knows its id and that it is dead
    static void* operator new(size_t n) { return ::operator new(n); }
    static void operator delete(void*) noexcept {}

  private:
    static bool loud() { return scheduled() && !(g_cell.quietCtor && cur_id() == 0); }
    void copy_from(const Cell& o, const char* kb, const char* ke)
    {
        if (step_may_throw(kb, g_cell.copyThrowsLeft)) {
            log_ev("throw", "cell", id, a, 2);
            throw CellThrow();
        }
        a = o.a;
        log_ev(kb, "cell", id, a, 0, o.id);
        simple_point(ke);
        b = o.b;
        log_ev(ke, "cell", id, b, 0, o.id);
    }
};

// Reg: a two-word register value whose accesses are observable only when they involve THE shared instance (the one the
// wrapper holds): copy / move / assignment / comparison from the shared instance is a read window (rb, re) on it,
// assignment to it a write window (cb, ce); operations among thread-local temporaries are silent.
class Reg;
struct RegListItem {
    RegListItem(const Reg&) {}
};

class Reg {
  public:
    long a = 0, b = 0;
    bool shared = false;
    Reg() = default;
    Reg(std::initializer_list<RegListItem>): a(-7), b(-7) { log_ev("badinit", "reg", 1, -7); }
    explicit Reg(long v, bool sh = false): a(v), b(v), shared(sh) {}
    Reg(const Reg& o) { take(o); }
    Reg(Reg&& o) { take(o); }
    Reg& operator=(const Reg& o)
    {
        assign(o);
        return *this;
    }
    Reg& operator=(Reg&& o)
    {
        assign(o);
        return *this;
    }
    bool operator==(const Reg& o) const
    {
        if (shared || o.shared) {
            const Reg& s = shared ? *this : o;
            const Reg& l = shared ? o : *this;
            simple_point("rb");
            long x = s.a;
            log_ev("rb", "reg", 1, x);
            simple_point("re");
            long y = s.b;
            log_ev("re", "reg", 1, x, y);
            return x == l.a && y == l.b;
        }
        return a == o.a && b == o.b;
    }
    long value() const { return a == b ? a : -(a * 1000 + b) - 1; }

  private:
    // the wrapped type's copy / assignment may throw (param copythrows) - always before it touched anything, so the operation
    // that was interrupted has no effect on the register
    static void may_throw(const char* kind)
    {
        if (step_may_throw(kind, g_cell.copyThrowsLeft)) {
            log_ev("throw", "reg", 1, 0, 2);
            throw CellThrow();
        }
    }
    void take(const Reg& o)  // construct from o: the new object is always a local one
    {
        if (o.shared && scheduled()) {
            may_throw("rb");
            a = o.a;
            log_ev("rb", "reg", 1, a);
            simple_point("re");
            b = o.b;
            log_ev("re", "reg", 1, a, b);
        } else {
            a = o.a;
            b = o.b;
        }
    }
    void assign(const Reg& o)
    {
        if (shared && scheduled()) {
            may_throw("cb");
            a = o.a;
            log_ev("cb", "reg", 1, a);
            simple_point("ce");
            b = o.b;
            log_ev("ce", "reg", 1, b);
        } else if (o.shared && scheduled()) {
            may_throw("rb");
            a = o.a;
            log_ev("rb", "reg", 1, a);
            simple_point("re");
            b = o.b;
            log_ev("re", "reg", 1, a, b);
        } else {
            a = o.a;
            b = o.b;
        }
    }
};

// suspend instrumentation (driver-side inspection after the run)
struct Quiet {
    bool was;
    Quiet(): was(g_rt->active) { g_rt->active = false; }
    ~Quiet() { g_rt->active = was; }
};

}  // namespace vrt

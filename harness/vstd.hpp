// vstd.hpp - zero-touch substitution layer for GMLC-TDC/concurrency verification harnesses.
//
// Force-included (-include) before anything else, with -DGMLC_TDC_CONCURRENCY_VERIF.
//  1. pulls in the whole standard library, so that no later #include of a standard header is affected;
//  2. defines instrumented, scheduler-aware replacements of the synchronisation primitives inside
//     namespace std under v-prefixed names;
//  3. #defines the standard names to them, so the *unmodified* library headers under /repo/gmlc are
//     parsed with the renamed tokens and every synchronisation operation they perform - with the memory
//     order actually passed - becomes a scheduling point and an event of an ndjson trace.
//
// Execution model: real threads, exactly one of them runs at any time (baton = one semaphore per
// thread). Every instrumented operation is one *step*: the thread publishes the operation it is about
// to perform (with its enabledness), the scheduler (run by whichever thread holds the baton) picks the
// next (thread, alternative), the chosen thread performs its operation atomically, appends ONE event
// and runs on to its next instrumented operation. One step = one event = one action of the TLA+
// specification. Each execution runs in a forked child; the trace lives in shared memory, so an
// execution that ends with blocked threads, a crash or a hang still yields its trace.
#pragma once
#ifndef GMLC_TDC_CONCURRENCY_VERIF
#error "vstd.hpp is only meant for verification harness builds (-DGMLC_TDC_CONCURRENCY_VERIF)"
#endif
#include <bits/stdc++.h>
#include <pthread.h>
#include <semaphore.h>
#include <sys/mman.h>
#include <sys/wait.h>
#include <unistd.h>
#include <signal.h>

namespace vrt {

// ------------------------------------------------------------------------------------------------
// trace buffer (shared with the parent process)
struct Shared {
    std::atomic<size_t> len;
    std::atomic<int> status;   // 0 running, 1 done, 2 deadlock, 3 budget, 4 diverge, 5 terminate
    std::atomic<long> steps;
    char buf[1];
};
inline Shared* g_sh = nullptr;
inline size_t g_shcap = 0;

inline void emit_raw(const char* s, size_t n)
{
    size_t at = g_sh->len.load(std::memory_order_relaxed);
    if (at + n + 1 >= g_shcap) return;
    memcpy(g_sh->buf + at, s, n);
    g_sh->buf[at + n] = '\n';
    g_sh->len.store(at + n + 1, std::memory_order_release);
}

struct Ev {
    int t = 0;
    const char* k = "";
    const char* o = "";
    int i = 0;
    long v = 0, w = 0, u = 0;
    int m = -1;
    const char* x = "";
};
inline bool g_stepPending = false;  // set by the scheduler, cleared by the first event of the step
inline int g_stepAlt = 0;

// ------------------------------------------------------------------------------------------------
// regions: naming of synchronisation objects and of pointers
struct Region {
    uintptr_t base;
    size_t size;
    std::string cls;
    int inst;
    bool freed = false;
    int natom = 0, nmtx = 0, ncv = 0;
};

struct Named {  // identity of an instrumented object
    Region* reg = nullptr;
    const char* name = "?";
    bool silent = false;  // outside every registered region and not aliased: private helper object, neither scheduled nor logged
};

// ------------------------------------------------------------------------------------------------
// scheduler
enum class Pol { Random, Pct, Replay, Np, Solo, Rr, Stall };

struct PendOp {
    const char* kind = "";
    // number of alternatives and which are enabled
    std::function<unsigned()> enabledMask;  // bit a set <=> alternative a enabled
    unsigned nalt = 1;
    bool yielding = false;
    std::string what;  // for deadlock reports
    double altWeight[32] = {1, 1, 1, 1, 1, 1, 1, 1, 1, 1, 1, 1, 1, 1, 1, 1, 1, 1, 1, 1, 1, 1, 1, 1, 1, 1, 1, 1, 1, 1, 1, 1};
    unsigned weakMask = 0;  // alternatives that do not count as progress (spurious wake-ups)
};

struct Thr {
    int id;
    sem_t sem;
    int state = 0;  // 0 not started, 1 live, 2 finished
    PendOp* pend = nullptr;
    int chosenAlt = 0;
    bool yielded = false;
    int stallYields = 0;  // Pol::Stall: yields / sleeps taken while another thread is stalled in user code (>= 3: spinning)
    int prio = 0;
    std::vector<std::string> heldNames;  // library mutexes currently held (names)
    std::thread th;
};

struct SchedEntry {
    int t;
    int a;
};

struct Config {
    Pol pol = Pol::Random;
    uint64_t seed = 1;
    long budget = 20000;
    bool spurious = true;
    bool timeouts = true;
    bool casSpurious = false;
    double wSpurious = 0.15, wTimeout = 0.4;
    int pctDepth = 3;
    long pctLen = 200;
    std::vector<SchedEntry> replay;
    bool npTail = true;  // after replay is exhausted continue non-preemptively (else random)
    bool logEnabled = false;  // log enabled sets (for DFS exploration)
    std::map<std::string, long> params;
    std::string prog;
};

struct RT {
    Config cfg;
    std::vector<std::unique_ptr<Thr>> thr;
    std::mt19937_64 rng;
    long step = 0;
    size_t replayPos = 0;
    std::vector<long> pctChange;
    std::map<uintptr_t, std::unique_ptr<Region>> regions;
    std::map<std::string, std::map<std::string, std::string>> aliases;  // cls -> (a0 -> next)
    std::map<std::string, int> instCounter;
    std::map<uintptr_t, int> anonPtr;
    std::deque<std::string> strpool;
    bool active = false;  // scheduler running (inside an execution)
    int lastT = 0;
    int npRun = 0;
    long soloAt = -1;     // Pol::Solo: step at which one thread starts to run alone
    int soloT = -1;       // that thread while it runs alone (-1: not in solo phase)
    bool soloDone = false;
    int stallT = -1;      // Pol::Stall: the thread held inside user code
    int soloHelp = 0;     // help=1: library steps other threads were allowed while the lone thread waited for their lock
};
inline RT* g_rt = nullptr;
inline thread_local Thr* t_cur = nullptr;

inline const char* intern(const std::string& s)
{
    g_rt->strpool.push_back(s);
    return g_rt->strpool.back().c_str();
}

inline void emit(const Ev& e)
{
    char b[384];
    int n = snprintf(b, sizeof b,
                     "{\"t\":%d,\"k\":\"%s\",\"o\":\"%s\",\"i\":%d,\"v\":%ld,\"w\":%ld,\"u\":%ld,\"m\":%d,\"x\":\"%s\",\"s\":%d,\"a\":%d}",
                     e.t, e.k, e.o, e.i, e.v, e.w, e.u, e.m, e.x, g_stepPending ? 1 : 0, g_stepPending ? g_stepAlt : 0);
    g_stepPending = false;
    emit_raw(b, (size_t)n);
}

[[noreturn]] inline void finish(int status)
{
    g_sh->steps.store(g_rt ? g_rt->step : 0);
    g_sh->status.store(status);
    _exit(0);
}

inline Region* find_region(const void* p)
{
    if (!g_rt) return nullptr;
    auto& R = g_rt->regions;
    auto it = R.upper_bound((uintptr_t)p);
    if (it == R.begin()) return nullptr;
    --it;
    Region* r = it->second.get();
    if ((uintptr_t)p < r->base + r->size) return r;
    return nullptr;
}

inline Region* add_region(const void* p, size_t n, const std::string& cls, int inst = -1)
{
    auto r = std::make_unique<Region>();
    r->base = (uintptr_t)p;
    r->size = n;
    r->cls = cls;
    r->inst = inst >= 0 ? inst : ++g_rt->instCounter[cls];
    Region* rp = r.get();
    g_rt->regions[(uintptr_t)p] = std::move(r);
    return rp;
}

inline void alias(const std::string& cls, const std::string& raw, const std::string& nice)
{
    g_rt->aliases[cls][raw] = nice;
}

inline Named make_name(const void* self, char kind)
{
    Named n;
    if (!g_rt) return n;
    Region* r = find_region(self);
    n.reg = r;
    std::string raw;
    if (r) {
        int k = kind == 'a' ? r->natom++ : kind == 'm' ? r->nmtx++ : r->ncv++;
        raw = std::string(1, kind) + std::to_string(k);
        auto ai = g_rt->aliases.find(r->cls);
        if (ai != g_rt->aliases.end()) {
            auto bi = ai->second.find(raw);
            if (bi != ai->second.end()) {
                n.name = intern(bi->second);
                return n;
            }
        }
        n.name = intern(r->cls + "." + raw);
    } else {
        // objects outside any registered region (heap, statics): numbered in creation order, aliasable as class "anon"
        int k = ++g_rt->instCounter[std::string("anon.") + kind];
        std::string raw2 = std::string(1, kind) + std::to_string(k);
        auto ai = g_rt->aliases.find("anon");
        if (ai != g_rt->aliases.end() && ai->second.count(raw2)) n.name = intern(ai->second[raw2]);
        else {
            n.name = intern(std::string("anon.") + raw2);
            n.silent = kind == 'm';  // e.g. the mutex inside each queued deferred task runner
        }
    }
    return n;
}

inline int inst_of(const Named& n) { return n.reg ? n.reg->inst : 0; }

// pointer -> small logical id (0 = null)
inline long ptr_id(const void* p)
{
    if (p == nullptr) return 0;
    Region* r = find_region(p);
    if (r && r->base == (uintptr_t)p) return r->inst;
    if (r) return r->inst;  // interior pointer: id of the enclosing region
    auto it = g_rt->anonPtr.find((uintptr_t)p);
    if (it != g_rt->anonPtr.end()) return it->second;
    int id = 900 + (int)g_rt->anonPtr.size();
    g_rt->anonPtr[(uintptr_t)p] = id;
    return id;
}

template<class T>
inline long toint(const T& v)
{
    if constexpr (std::is_pointer_v<T>) {
        return ptr_id((const void*)v);
    } else if constexpr (std::is_same_v<T, bool>) {
        return v ? 1 : 0;
    } else if constexpr (std::is_integral_v<T> || std::is_enum_v<T>) {
        return (long)v;
    } else {
        return -1;
    }
}

inline int cur_id() { return t_cur ? t_cur->id : 0; }

// --- choosing the next step ---------------------------------------------------------------------
struct Cand {
    Thr* t;
    int a;
    double w;
    bool weak;
};

// Pol::Solo with parameter help=1: index in c of a thread other than the lone one that holds a library mutex and whose next
// step is a synchronisation step of the library itself (not user code: payload windows, markers, functor copies), or -1
struct RT;
inline bool internal_kind(const char* k)
{
    static const char* ks[] = {"mlock", "munlock", "mtry", "mtimed", "slock", "sunlock", "stry", "stimed", "ald", "ast", "arm", "cas",
                               "pu", "cvwait", "cvwake", "notify", "yield", "fence"};
    for (auto x : ks)
        if (std::strcmp(x, k) == 0) return true;
    return false;
}
template<class RTT>
inline int solo_helper(RTT& R, const std::vector<Cand>& c)
{
    auto it = R.cfg.params.find("help");
    if (it == R.cfg.params.end() || it->second == 0 || R.soloHelp >= 200) return -1;
    for (size_t i = 0; i < c.size(); ++i) {
        const Cand& x = c[i];
        if (x.t->id == R.soloT || x.weak || x.t->heldNames.empty() || !x.t->pend) continue;
        if (!internal_kind(x.t->pend->kind)) continue;
        R.soloHelp++;
        return (int)i;
    }
    return -1;
}

inline void collect(std::vector<Cand>& out)
{
    for (auto& up : g_rt->thr) {
        Thr* t = up.get();
        if (t->state == 2 || t->pend == nullptr) continue;
        unsigned mask = t->pend->enabledMask ? t->pend->enabledMask() : 1u;
        for (unsigned a = 0; a < t->pend->nalt; ++a)
            if (mask & (1u << a)) out.push_back({t, (int)a, t->pend->altWeight[a], (t->pend->weakMask & (1u << a)) != 0});
    }
}

inline void report_blocked_and_exit(const char* kind, int status)
{
    for (auto& up : g_rt->thr) {
        Thr* t = up.get();
        if (t->state == 2 || t->pend == nullptr) continue;
        {
            // a thread that could still take a (non-spurious) step is pending, not blocked
            unsigned mask = t->pend->enabledMask ? t->pend->enabledMask() : 1u;
            if ((mask & ~t->pend->weakMask) != 0) continue;
        }
        Ev e;
        e.t = t->id;
        e.k = "blocked";
        e.o = t->pend->kind;
        e.x = intern(t->pend->what);
        emit(e);
    }
    Ev e;
    e.t = 0;
    e.k = kind;
    emit(e);
    finish(status);
}

inline Cand choose()
{
    RT& R = *g_rt;
    std::vector<Cand> c;
    collect(c);
    {
        bool strong = false;
        for (auto& x : c)
            if (!x.weak) strong = true;
        // quiescent: nothing but spurious wake-ups can happen any more
        if (!strong && !(R.cfg.pol == Pol::Replay && R.replayPos < R.cfg.replay.size())) report_blocked_and_exit("deadlock", 2);
    }
    if (R.step >= R.cfg.budget) report_blocked_and_exit("budget", 3);
    Pol pol = R.cfg.pol;
    if (pol == Pol::Replay && !R.soloDone) {
        // replay of an execution recorded under the solo policy: re-evaluate the starvation report at the same point
        auto st = R.cfg.params.find("starveM");  // bit t set: thread t was reported starved at schedule position starveK
        auto sk = R.cfg.params.find("starveK");
        if (st != R.cfg.params.end() && sk != R.cfg.params.end() && (long)R.replayPos == sk->second) {
            R.soloDone = true;
            for (size_t ti = 1; ti < R.thr.size(); ++ti) {
                if (!((st->second >> ti) & 1)) continue;
                bool can = false;
                for (auto& x : c)
                    if (x.t->id == (int)ti && !x.weak) can = true;
                Thr* tt = R.thr[ti].get();
                if (!can && tt && tt->state != 2) {
                    Ev e;
                    e.t = (int)ti;
                    e.k = "starved";
                    e.o = tt->pend ? tt->pend->kind : "";
                    emit(e);
                }
            }
        }
    }
    if (pol == Pol::Replay) {
        if (R.replayPos < R.cfg.replay.size()) {
            SchedEntry se = R.cfg.replay[R.replayPos++];
            for (auto& x : c)
                if (x.t->id == se.t && x.a == se.a) return x;
            Ev e;
            e.t = se.t;
            e.k = "diverge";
            e.v = se.a;
            e.w = (long)R.replayPos;
            emit(e);
            report_blocked_and_exit("diverged", 4);
        }
        pol = R.cfg.npTail ? Pol::Np : Pol::Random;
    }
    if (pol == Pol::Stall) {
        // user code may take arbitrarily long: at a random moment a thread whose next step is user code (payload access,
        // functor copy, callback, destructor) is held there; the others run on. When none of them can move any more (or they
        // only spin), every thread that is blocked in the middle of an operation is reported as `starved` - the monitors decide
        // which of those operations are allowed to wait for user code - and the held thread is released. With help=1 nothing
        // changes here: whoever is inside library code keeps running anyway.
        if (!R.soloDone && R.stallT < 0) {
            std::vector<int> us;
            for (auto& x : c)
                if (!x.weak && x.t->id > 0 && x.t->pend && !internal_kind(x.t->pend->kind) && std::strcmp(x.t->pend->kind, "call") != 0 &&
                    std::strcmp(x.t->pend->kind, "ret") != 0 && std::strcmp(x.t->pend->kind, "start") != 0 && std::strcmp(x.t->pend->kind, "end") != 0 &&
                    std::strcmp(x.t->pend->kind, "sleep") != 0 && std::strcmp(x.t->pend->kind, "join") != 0)
                    us.push_back(x.t->id);
            if (!us.empty() && R.rng() % 5 == 0) R.stallT = us[R.rng() % us.size()];
        }
        if (R.stallT >= 0) {
            std::vector<Cand> d;
            for (auto& x : c)
                if (x.t->id != R.stallT && !x.weak && x.t->stallYields < 3) d.push_back(x);
            if (!d.empty()) return d[R.rng() % d.size()];
            for (auto& up : R.thr) {
                Thr* t = up.get();
                if (t->id <= 0 || t->id == R.stallT || t->state != 1 || !t->pend || t->stallYields >= 3) continue;
                unsigned mask = t->pend->enabledMask ? t->pend->enabledMask() : 1u;
                if ((mask & ~t->pend->weakMask) != 0) continue;
                Ev e;
                e.t = t->id;
                e.k = "starved";
                e.o = t->pend->kind;
                e.x = intern(t->pend->what);
                e.v = R.stallT;
                emit(e);
            }
            R.stallT = -1;
            R.soloDone = true;
        }
        pol = Pol::Random;
    }
    if (pol == Pol::Solo) {
        // from step soloAt on, one randomly chosen worker runs alone (everybody else is suspended wherever it
        // is) until its current operation returns; if it cannot move, that is reported as `starved`
        if (!R.soloDone && R.soloT < 0 && R.step >= R.soloAt) {
            std::vector<int> ws;
            for (auto& up : R.thr)
                if (up->id > 0 && up->state == 1 && up->pend != nullptr && std::string(up->pend->kind) != "start") ws.push_back(up->id);
            if (!ws.empty()) R.soloT = ws[R.rng() % ws.size()];
        }
        if (R.soloT >= 0) {
            std::vector<Cand> d;
            for (auto& x : c)
                if (x.t->id == R.soloT && !x.weak) d.push_back(x);
            Thr* st = R.thr[(size_t)R.soloT].get();
            int hi = -1;
            if (st->state == 2) {
                R.soloT = -1;
                R.soloDone = true;
            } else if (d.empty() && (hi = solo_helper(R, c)) >= 0) {
                // help=1: the lone thread waits for a lock whose holder is inside library code (no user code runs under that
                // lock): let the holder take its next library step - a bounded internal critical section is not "blocking"
                return c[(size_t)hi];
            } else if (d.empty()) {
                Ev e;
                e.t = R.soloT;
                e.k = "starved";
                e.o = st->pend ? st->pend->kind : "";
                e.x = st->pend ? intern(st->pend->what) : "";
                emit(e);
                R.soloT = -1;
                R.soloDone = true;
            } else {
                return d[R.rng() % d.size()];
            }
        }
        pol = Pol::Random;
    }
    if (pol == Pol::Rr) {
        // strictly fair round-robin over the threads that can move (a spinning thread keeps its turn: yields are ordinary
        // steps here); spurious wake-ups are not taken
        std::vector<Cand> d;
        for (auto& x : c)
            if (!x.weak) d.push_back(x);
        if (d.empty()) d = c;
        for (auto& x : d)
            if (x.t->id > R.lastT) return x;
        return d.front();
    }
    // yielded threads are deprioritised: drop them if someone else can move
    {
        bool other = false;
        for (auto& x : c)
            if (!x.t->yielded) other = true;
        if (other) {
            std::vector<Cand> d;
            for (auto& x : c)
                if (!x.t->yielded) d.push_back(x);
            c.swap(d);
        }
    }
    if (pol == Pol::Np) {
        // non-preemptive continuation: never take a spurious wake-up, keep running the last thread
        // (bounded, so that a spinning thread cannot starve the others), else the next id round-robin
        std::vector<Cand> d;
        for (auto& x : c)
            if (!x.weak) d.push_back(x);
        if (!d.empty()) c.swap(d);
        if (R.npRun < 64)
            for (auto& x : c)
                if (x.t->id == R.lastT) {
                    R.npRun++;
                    return x;
                }
        R.npRun = 0;
        for (auto& x : c)
            if (x.t->id > R.lastT) return x;
        return c.front();
    }
    if (pol == Pol::Pct) {
        // spurious wake-ups are injected only occasionally; otherwise a parked thread counts as blocked
        if (std::uniform_real_distribution<double>(0, 1)(R.rng) > 0.03) {
            std::vector<Cand> d;
            for (auto& x : c)
                if (!x.weak) d.push_back(x);
            if (!d.empty()) c.swap(d);
        }
        for (long cp : R.pctChange)
            if (cp == R.step) {
                // lower the priority of the thread that would run now
                Thr* best = nullptr;
                for (auto& x : c)
                    if (!best || x.t->prio > best->prio) best = x.t;
                if (best) best->prio = -(int)(R.step + 1);
            }
        Thr* best = nullptr;
        for (auto& x : c)
            if (!best || x.t->prio > best->prio) best = x.t;
        std::vector<Cand> d;
        for (auto& x : c)
            if (x.t == best) d.push_back(x);
        double tot = 0;
        for (auto& x : d) tot += x.w;
        double r = std::uniform_real_distribution<double>(0, tot)(R.rng);
        for (auto& x : d) {
            if (r < x.w) return x;
            r -= x.w;
        }
        return d.back();
    }
    double tot = 0;
    for (auto& x : c) tot += x.w;
    double r = std::uniform_real_distribution<double>(0, tot)(R.rng);
    for (auto& x : c) {
        if (r < x.w) return x;
        r -= x.w;
    }
    return c.back();
}

// one scheduling decision (+ its bookkeeping line when the exploration needs the enabled sets)
inline Cand pick_next()
{
    RT& R = *g_rt;
    Cand c = choose();
    if (R.cfg.logEnabled) {
        std::vector<Cand> all;
        collect(all);
        std::string s;
        bool other = false;  // a thread that just yielded is not an alternative while somebody else can move (fairness)
        for (auto& x : all)
            if (!x.t->yielded && !x.weak) other = true;
        for (auto& x : all)
            s += std::to_string(x.t->id) + ":" + std::to_string(x.a) + ((x.weak || (other && x.t->yielded && x.t != c.t)) ? "w " : " ");
        Ev e;
        e.t = c.t->id;
        e.k = "enabled";
        e.v = c.a;
        e.w = R.lastT;
        e.x = intern(s);
        emit(e);
    }
    return c;
}

inline int on_resume(Thr* me, bool yielding)
{
    RT& R = *g_rt;
    int a = me->chosenAlt;
    me->pend = nullptr;
    R.step++;
    for (auto& up : R.thr)
        if (up.get() != me) up->yielded = false;
    me->yielded = yielding;
    R.lastT = me->id;
    g_stepPending = true;
    g_stepAlt = a;
    return a;
}

// The calling thread has published its pending op; run the scheduler, hand the baton over if needed,
// and return (holding the baton) once this thread has been chosen. Returns the chosen alternative.
inline int sched_point(PendOp& op)
{
    RT& R = *g_rt;
    Thr* me = t_cur;
    me->pend = &op;
    Cand c = pick_next();
    c.t->chosenAlt = c.a;
    if (c.t != me) {
        sem_post(&c.t->sem);
        while (sem_wait(&me->sem) != 0) {}
    }
    // now it is my turn
    return on_resume(me, op.yielding);
}

inline bool scheduled() { return g_rt && g_rt->active && t_cur; }

// a step that is always enabled and has a single alternative
inline void simple_point(const char* kind)
{
    if (!scheduled()) return;
    PendOp op;
    op.kind = kind;
    sched_point(op);
}

// generic blocking point: enabled iff pred()
inline void block_until(const char* kind, const std::string& what, std::function<bool()> pred)
{
    if (!scheduled()) return;
    PendOp op;
    op.kind = kind;
    op.what = what;
    op.enabledMask = [&] { return pred() ? 1u : 0u; };
    sched_point(op);
}

// generic choice point with n alternatives (all enabled); returns the chosen one
inline int choice_point(const char* kind, unsigned n)
{
    if (!scheduled() || n <= 1) {
        if (scheduled()) simple_point(kind);
        return 0;
    }
    PendOp op;
    op.kind = kind;
    op.nalt = n;
    op.enabledMask = [n] { return (1u << n) - 1; };
    return sched_point(op);
}

inline void log_ev(const char* k, const char* o, int i = 0, long v = 0, long w = 0, long u = 0, int m = -1,
                   const char* x = "")
{
    if (!g_rt || !g_rt->active) return;
    Ev e;
    e.t = cur_id();
    e.k = k;
    e.o = o;
    e.i = i;
    e.v = v;
    e.w = w;
    e.u = u;
    e.m = m;
    e.x = x;
    emit(e);
}

// step + event in one
inline void step_ev(const char* k, const char* o, int i = 0, long v = 0, long w = 0, long u = 0)
{
    simple_point(k);
    log_ev(k, o, i, v, w, u);
}

inline int mo_code(std::memory_order mo)
{
    switch (mo) {
        case std::memory_order_relaxed: return 0;
        case std::memory_order_consume: return 1;
        case std::memory_order_acquire: return 2;
        case std::memory_order_release: return 3;
        case std::memory_order_acq_rel: return 4;
        default: return 5;
    }
}

// Code that follows a release-type operation (unlock, release-or-stronger store / RMW) is no longer ordered before what
// other threads do next: a bookkeeping step `pu` lets them run in between (specifications skip it).
inline void post_release(const Named& n, int mo)
{
    if (!scheduled() || mo < 3) return;
    simple_point("pu");
    log_ev("pu", n.name, inst_of(n));
}

inline void check_uaf(const Named& n, const char* what)
{
    if (n.reg && n.reg->freed) log_ev("uaf", n.name, inst_of(n), 0, 0, 0, -1, what);
}

// plain (non-atomic) library-internal fields that the library declares through the guarded hook type gmlc_verif::plain<T>:
// every read / write of such a field inside a registered region is logged (no scheduling point) as `pr` / `pw` when the
// execution runs with plain=1, so that the happens-before monitor judges library internals as well as the payload.
inline void plain_access(const void* self, bool write, long val)
{
    if (!g_rt || !g_rt->active) return;
    auto it = g_rt->cfg.params.find("plain");
    if (it == g_rt->cfg.params.end() || it->second == 0) return;
    Region* r = find_region(self);
    if (!r) return;  // locals, copies: private
    std::string nm = r->cls + ".p" + std::to_string((uintptr_t)self - r->base);
    log_ev(write ? "pw" : "pr", intern(nm), r->inst, val);
    if (r->freed) log_ev("uaf", intern(nm), r->inst, 0, 0, 0, -1, write ? "pw" : "pr");
}

}  // namespace vrt

namespace gmlc_verif {
template<class T>
class plain {
    T v_;

  public:
    plain(): v_{} {}
    plain(T v): v_(v) { vrt::plain_access(this, true, vrt::toint(v_)); }
    plain(const plain& o): v_(o.get()) {}
    plain& operator=(const plain& o) { return *this = o.get(); }
    plain& operator=(T x)
    {
        v_ = x;
        vrt::plain_access(this, true, vrt::toint(v_));
        return *this;
    }
    T get() const
    {
        vrt::plain_access(this, false, vrt::toint(v_));
        return v_;
    }
    operator T() const { return get(); }
    plain& operator++() { return *this = get() + 1; }
    plain& operator--() { return *this = get() - 1; }
    T operator++(int)
    {
        T o = get();
        *this = o + 1;
        return o;
    }
    T operator--(int)
    {
        T o = get();
        *this = o - 1;
        return o;
    }
    plain& operator+=(T x) { return *this = get() + x; }
    plain& operator-=(T x) { return *this = get() - x; }
};
}  // namespace gmlc_verif

// ====================================================================================================
// instrumented primitives, injected into namespace std under v-names
namespace std {

template<class T>
class vatomic {
    T val_;
    vrt::Named nm_;

  public:
    vatomic() noexcept: val_(), nm_(vrt::make_name(this, 'a')) {}
    vatomic(T v) noexcept: val_(v), nm_(vrt::make_name(this, 'a')) {}
    vatomic(const vatomic&) = delete;
    vatomic& operator=(const vatomic&) = delete;
    static constexpr bool is_always_lock_free = true;
    bool is_lock_free() const noexcept { return true; }

    T load(memory_order mo = memory_order_seq_cst) const noexcept
    {
        vrt::simple_point("ald");
        vrt::check_uaf(nm_, "load");
        T v = val_;
        vrt::log_ev("ald", nm_.name, vrt::inst_of(nm_), vrt::toint(v), 0, 0, vrt::mo_code(mo));
        return v;
    }
    void store(T v, memory_order mo = memory_order_seq_cst) noexcept
    {
        vrt::simple_point("ast");
        vrt::check_uaf(nm_, "store");
        val_ = v;
        vrt::log_ev("ast", nm_.name, vrt::inst_of(nm_), vrt::toint(v), 0, 0, vrt::mo_code(mo));
        vrt::post_release(nm_, vrt::mo_code(mo));
    }
    operator T() const noexcept { return load(); }
    T operator=(T v) noexcept
    {
        store(v);
        return v;
    }
    T exchange(T v, memory_order mo = memory_order_seq_cst) noexcept
    {
        vrt::simple_point("arm");
        vrt::check_uaf(nm_, "rmw");
        T old = val_;
        val_ = v;
        vrt::log_ev("arm", nm_.name, vrt::inst_of(nm_), vrt::toint(old), vrt::toint(v), 0, vrt::mo_code(mo));
        vrt::post_release(nm_, vrt::mo_code(mo));
        return old;
    }
    bool compare_exchange_strong(T& expected, T desired, memory_order mo = memory_order_seq_cst) noexcept
    {
        return cas(expected, desired, mo, false);
    }
    bool compare_exchange_strong(T& expected, T desired, memory_order s, memory_order) noexcept
    {
        return cas(expected, desired, s, false);
    }
    bool compare_exchange_weak(T& expected, T desired, memory_order mo = memory_order_seq_cst) noexcept
    {
        return cas(expected, desired, mo, true);
    }
    bool compare_exchange_weak(T& expected, T desired, memory_order s, memory_order) noexcept
    {
        return cas(expected, desired, s, true);
    }
    template<class U = T>
    U fetch_add(U d, memory_order mo = memory_order_seq_cst) noexcept
    {
        return rmw([d](T o) { return (T)(o + d); }, mo);
    }
    template<class U = T>
    U fetch_sub(U d, memory_order mo = memory_order_seq_cst) noexcept
    {
        return rmw([d](T o) { return (T)(o - d); }, mo);
    }
    template<class U = T>
    U fetch_or(U d, memory_order mo = memory_order_seq_cst) noexcept
    {
        return rmw([d](T o) { return (T)(o | d); }, mo);
    }
    template<class U = T>
    U fetch_and(U d, memory_order mo = memory_order_seq_cst) noexcept
    {
        return rmw([d](T o) { return (T)(o & d); }, mo);
    }
    template<class U = T>
    U fetch_xor(U d, memory_order mo = memory_order_seq_cst) noexcept
    {
        return rmw([d](T o) { return (T)(o ^ d); }, mo);
    }
    template<class U = T>
    U operator|=(U d) noexcept { return (U)(fetch_or(d) | d); }
    template<class U = T>
    U operator&=(U d) noexcept { return (U)(fetch_and(d) & d); }
    template<class U = T>
    U operator^=(U d) noexcept { return (U)(fetch_xor(d) ^ d); }
    T operator++() noexcept { return (T)(fetch_add((T)1) + 1); }
    T operator++(int) noexcept { return fetch_add((T)1); }
    T operator--() noexcept { return (T)(fetch_sub((T)1) - 1); }
    T operator--(int) noexcept { return fetch_sub((T)1); }
    T operator+=(T d) noexcept { return (T)(fetch_add(d) + d); }
    T operator-=(T d) noexcept { return (T)(fetch_sub(d) - d); }

  private:
    template<class F>
    T rmw(F f, memory_order mo) noexcept
    {
        vrt::simple_point("arm");
        vrt::check_uaf(nm_, "rmw");
        T old = val_;
        val_ = f(old);
        vrt::log_ev("arm", nm_.name, vrt::inst_of(nm_), vrt::toint(old), vrt::toint(val_), 0, vrt::mo_code(mo));
        vrt::post_release(nm_, vrt::mo_code(mo));
        return old;
    }
    bool cas(T& expected, T desired, memory_order mo, bool weak) noexcept
    {
        int alt = 0;
        if (vrt::scheduled()) {
            vrt::PendOp op;
            op.kind = "cas";
            bool sp = weak && vrt::g_rt->cfg.casSpurious;
            op.nalt = sp ? 2 : 1;
            op.altWeight[1] = 0.2;
            op.enabledMask = [sp] { return sp ? 3u : 1u; };
            alt = vrt::sched_point(op);
        }
        vrt::check_uaf(nm_, "cas");
        T old = val_;
        bool ok = (old == expected) && alt == 0;
        if (ok) val_ = desired;
        else expected = old;
        vrt::log_ev("cas", nm_.name, vrt::inst_of(nm_), vrt::toint(old), vrt::toint(desired), ok ? 1 : 0,
                    vrt::mo_code(mo));
        if (ok) vrt::post_release(nm_, vrt::mo_code(mo));
        return ok;
    }
};
using vatomic_bool = vatomic<bool>;
using vatomic_int = vatomic<int>;

// ---- mutexes -------------------------------------------------------------------------------------
class vmutex_base {
  protected:
    int owner_ = -1;      // exclusive owner thread id
    int shared_ = 0;      // number of shared holders
    std::vector<int> sharedBy_;
    vrt::Named nm_;

    vmutex_base(): nm_(vrt::make_name(this, 'm')) {}
    bool free_excl() const { return owner_ < 0 && shared_ == 0; }
    bool free_shared() const { return owner_ < 0; }
    void held(bool add)
    {
        if (!vrt::t_cur) return;
        auto& h = vrt::t_cur->heldNames;
        if (add) h.push_back(nm_.name);
        else {
            auto it = std::find(h.begin(), h.end(), std::string(nm_.name));
            if (it != h.end()) h.erase(it);
        }
    }
    void do_lock(const char* k)
    {
        if (nm_.silent && free_excl()) {  // private, uncontended helper mutex: neither a step nor an event
            owner_ = vrt::cur_id();
            return;
        }
        if (vrt::scheduled()) {
            vrt::PendOp op;
            op.kind = k;
            op.what = nm_.name;
            op.enabledMask = [this] { return free_excl() ? 1u : 0u; };
            vrt::sched_point(op);
        }
        vrt::check_uaf(nm_, k);
        owner_ = vrt::cur_id();
        held(true);
        vrt::log_ev(k, nm_.name, vrt::inst_of(nm_));
    }
    bool do_try(const char* k)
    {
        vrt::simple_point(k);
        vrt::check_uaf(nm_, k);
        bool ok = free_excl();
        if (ok) {
            owner_ = vrt::cur_id();
            held(true);
        }
        vrt::log_ev(k, nm_.name, vrt::inst_of(nm_), ok ? 1 : 0);
        return ok;
    }
    bool do_timed(const char* k)
    {
        bool ok = free_excl();
        if (vrt::scheduled()) {
            vrt::PendOp op;
            op.kind = k;
            op.what = nm_.name;
            op.nalt = 2;  // 0 = acquire, 1 = time out
            bool to = vrt::g_rt->cfg.timeouts;
            op.altWeight[1] = vrt::g_rt->cfg.wTimeout;
            op.enabledMask = [this, to] { return free_excl() ? 1u : (to ? 2u : 0u); };
            int a = vrt::sched_point(op);
            ok = (a == 0);
        }
        vrt::check_uaf(nm_, k);
        if (ok) {
            owner_ = vrt::cur_id();
            held(true);
        }
        vrt::log_ev(k, nm_.name, vrt::inst_of(nm_), ok ? 1 : 0);
        return ok;
    }
    void do_unlock(const char* k)
    {
        if (nm_.silent) {
            owner_ = -1;
            return;
        }
        vrt::simple_point(k);
        vrt::check_uaf(nm_, k);
        long bad = (owner_ != vrt::cur_id()) ? 1 : 0;
        owner_ = -1;
        held(false);
        vrt::log_ev(k, nm_.name, vrt::inst_of(nm_), 0, bad);
        post_unlock();
    }
    // The code that follows a release is not protected by the lock any more: give the other threads a chance to run
    // between the release and that code (a bookkeeping step `pu`; specifications skip it).
    void post_unlock()
    {
        if (!vrt::scheduled()) return;
        vrt::simple_point("pu");
        vrt::log_ev("pu", nm_.name, vrt::inst_of(nm_));
    }
    void do_lock_shared(const char* k)
    {
        if (vrt::scheduled()) {
            vrt::PendOp op;
            op.kind = k;
            op.what = nm_.name;
            op.enabledMask = [this] { return free_shared() ? 1u : 0u; };
            vrt::sched_point(op);
        }
        vrt::check_uaf(nm_, k);
        shared_++;
        sharedBy_.push_back(vrt::cur_id());
        held(true);
        vrt::log_ev(k, nm_.name, vrt::inst_of(nm_));
    }
    bool do_try_shared(const char* k)
    {
        vrt::simple_point(k);
        bool ok = free_shared();
        if (ok) {
            shared_++;
            sharedBy_.push_back(vrt::cur_id());
            held(true);
        }
        vrt::log_ev(k, nm_.name, vrt::inst_of(nm_), ok ? 1 : 0);
        return ok;
    }
    bool do_timed_shared(const char* k)
    {
        bool ok = free_shared();
        if (vrt::scheduled()) {
            vrt::PendOp op;
            op.kind = k;
            op.what = nm_.name;
            op.nalt = 2;
            bool to = vrt::g_rt->cfg.timeouts;
            op.altWeight[1] = vrt::g_rt->cfg.wTimeout;
            op.enabledMask = [this, to] { return free_shared() ? 1u : (to ? 2u : 0u); };
            int a = vrt::sched_point(op);
            ok = (a == 0);
        }
        if (ok) {
            shared_++;
            sharedBy_.push_back(vrt::cur_id());
            held(true);
        }
        vrt::log_ev(k, nm_.name, vrt::inst_of(nm_), ok ? 1 : 0);
        return ok;
    }
    void do_unlock_shared(const char* k)
    {
        vrt::simple_point(k);
        auto it = std::find(sharedBy_.begin(), sharedBy_.end(), vrt::cur_id());
        long bad = 0;
        if (it == sharedBy_.end()) bad = 1;
        else sharedBy_.erase(it);
        if (shared_ > 0) shared_--;
        held(false);
        vrt::log_ev(k, nm_.name, vrt::inst_of(nm_), 0, bad);
        post_unlock();
    }

  public:
    vmutex_base(const vmutex_base&) = delete;
    vmutex_base& operator=(const vmutex_base&) = delete;
    // used by vcondition_variable
    void cv_release()
    {
        owner_ = -1;
        held(false);
    }
    const char* vname() const { return nm_.name; }
    int vinst() const { return vrt::inst_of(nm_); }
    int vowner() const { return owner_; }
    int vshared() const { return shared_; }
};

class vmutex: public vmutex_base {
  public:
    void lock() { do_lock("mlock"); }
    bool try_lock() { return do_try("mtry"); }
    void unlock() { do_unlock("munlock"); }
};
class vtimed_mutex: public vmutex_base {
  public:
    void lock() { do_lock("mlock"); }
    bool try_lock() { return do_try("mtry"); }
    void unlock() { do_unlock("munlock"); }
    template<class R, class P>
    bool try_lock_for(const chrono::duration<R, P>&)
    {
        return do_timed("mtimed");
    }
    template<class C, class D>
    bool try_lock_until(const chrono::time_point<C, D>&)
    {
        return do_timed("mtimed");
    }
};
class vshared_mutex: public vmutex_base {
  public:
    void lock() { do_lock("mlock"); }
    bool try_lock() { return do_try("mtry"); }
    void unlock() { do_unlock("munlock"); }
    void lock_shared() { do_lock_shared("slock"); }
    bool try_lock_shared() { return do_try_shared("stry"); }
    void unlock_shared() { do_unlock_shared("sunlock"); }
};
class vshared_timed_mutex: public vmutex_base {
  public:
    void lock() { do_lock("mlock"); }
    bool try_lock() { return do_try("mtry"); }
    void unlock() { do_unlock("munlock"); }
    void lock_shared() { do_lock_shared("slock"); }
    bool try_lock_shared() { return do_try_shared("stry"); }
    void unlock_shared() { do_unlock_shared("sunlock"); }
    template<class R, class P>
    bool try_lock_for(const chrono::duration<R, P>&)
    {
        return do_timed("mtimed");
    }
    template<class C, class D>
    bool try_lock_until(const chrono::time_point<C, D>&)
    {
        return do_timed("mtimed");
    }
    template<class R, class P>
    bool try_lock_shared_for(const chrono::duration<R, P>&)
    {
        return do_timed_shared("stimed");
    }
    template<class C, class D>
    bool try_lock_shared_until(const chrono::time_point<C, D>&)
    {
        return do_timed_shared("stimed");
    }
};

// recursive forms: only the outermost lock / unlock is a step and an event
class vrecursive_mutex: public vmutex_base {
    int depth_ = 0;

  protected:
    bool mine() const { return owner_ == vrt::cur_id() && depth_ > 0; }

  public:
    void lock()
    {
        if (mine()) {
            ++depth_;
            return;
        }
        do_lock("mlock");
        depth_ = 1;
    }
    bool try_lock()
    {
        if (mine()) {
            ++depth_;
            return true;
        }
        if (!do_try("mtry")) return false;
        depth_ = 1;
        return true;
    }
    void unlock()
    {
        if (mine() && depth_ > 1) {
            --depth_;
            return;
        }
        depth_ = 0;
        do_unlock("munlock");
    }
    template<class R, class P>
    bool try_lock_for(const chrono::duration<R, P>&)
    {
        if (mine()) {
            ++depth_;
            return true;
        }
        if (!do_timed("mtimed")) return false;
        depth_ = 1;
        return true;
    }
    template<class C, class D>
    bool try_lock_until(const chrono::time_point<C, D>&)
    {
        return try_lock_for(chrono::milliseconds(1));
    }
};
using vrecursive_timed_mutex = vrecursive_mutex;

// fences: a step and an event of their own (HB.tla gives them the C++ meaning)
inline void vatomic_thread_fence(memory_order mo) noexcept
{
    if (!vrt::scheduled()) return;
    vrt::simple_point("fence");
    vrt::log_ev("fence", "", 0, 0, 0, 0, vrt::mo_code(mo));
    if (vrt::mo_code(mo) >= 3) {
        vrt::simple_point("pu");
        vrt::log_ev("pu", "fence", 0);
    }
}

// ---- condition variable ----------------------------------------------------------------------------
class vcondition_variable {
    struct W {
        int t;
        bool notified;
    };
    std::vector<W> waiters_;
    vrt::Named nm_;

    // returns the reason: 0 notified, 1 spurious, 2 timeout
    template<class Mtx>
    int wait_impl(unique_lock<Mtx>& lk, bool timed)
    {
        if (!vrt::scheduled()) return timed ? 2 : 1;  // outside the scheduler: behave as a spurious wake-up
        Mtx* m = lk.mutex();
        int me = vrt::cur_id();
        // step 1: atomically release the mutex and enter the wait set
        vrt::simple_point("cvwait");
        m->cv_release();
        waiters_.push_back({me, false});
        vrt::log_ev("cvwait", nm_.name, vrt::inst_of(nm_), timed ? 1 : 0, 0, 0, -1, m->vname());
        // step 2: wake up
        vrt::PendOp op;
        op.kind = "cvwake";
        op.what = nm_.name;
        op.nalt = 3;
        bool sp = vrt::g_rt->cfg.spurious;
        bool to = timed && vrt::g_rt->cfg.timeouts;
        op.altWeight[1] = vrt::g_rt->cfg.wSpurious;
        op.altWeight[2] = vrt::g_rt->cfg.wTimeout;
        op.weakMask = 2u;
        op.enabledMask = [this, me, sp, to] {
            bool n = false;
            for (auto& w : waiters_)
                if (w.t == me) n = w.notified;
            // (a notified waiter of a timed wait may still report a time-out: the deadline passed before it woke up)
            return n ? (1u | (to ? 4u : 0u)) : ((sp ? 2u : 0u) | (to ? 4u : 0u));
        };
        int why = vrt::sched_point(op);
        for (size_t i = 0; i < waiters_.size(); ++i)
            if (waiters_[i].t == me) {
                waiters_.erase(waiters_.begin() + (long)i);
                break;
            }
        vrt::log_ev("cvwake", nm_.name, vrt::inst_of(nm_), why);
        // step 3: re-acquire the mutex (a normal mlock step)
        lk.release();
        lk = unique_lock<Mtx>(*m);
        return why;
    }

  public:
    vcondition_variable(): nm_(vrt::make_name(this, 'c')) {}
    vcondition_variable(const vcondition_variable&) = delete;

    void notify_all() noexcept
    {
        vrt::simple_point("notify");
        int n = 0;
        for (auto& w : waiters_)
            if (!w.notified) {
                w.notified = true;
                n++;
            }
        vrt::log_ev("notify", nm_.name, vrt::inst_of(nm_), 1, n);
    }
    void notify_one() noexcept
    {
        std::vector<size_t> cand;
        for (size_t i = 0; i < waiters_.size(); ++i)
            if (!waiters_[i].notified) cand.push_back(i);
        int a = vrt::choice_point("notify", (unsigned)std::max<size_t>(1, cand.size()));
        long who = 0;
        if (!cand.empty()) {
            waiters_[cand[(size_t)a]].notified = true;
            who = waiters_[cand[(size_t)a]].t;
        }
        vrt::log_ev("notify", nm_.name, vrt::inst_of(nm_), 0, cand.empty() ? 0 : 1, who);
    }
    template<class Mtx>
    void wait(unique_lock<Mtx>& lk)
    {
        wait_impl(lk, false);
    }
    template<class Mtx, class Pred>
    void wait(unique_lock<Mtx>& lk, Pred p)
    {
        while (!p()) wait_impl(lk, false);
    }
    template<class Mtx, class R, class P>
    cv_status wait_for(unique_lock<Mtx>& lk, const chrono::duration<R, P>&)
    {
        return wait_impl(lk, true) == 2 ? cv_status::timeout : cv_status::no_timeout;
    }
    template<class Mtx, class R, class P, class Pred>
    bool wait_for(unique_lock<Mtx>& lk, const chrono::duration<R, P>&, Pred p)
    {
        while (!p()) {
            if (wait_impl(lk, true) == 2) return p();
        }
        return true;
    }
    template<class Mtx, class C, class D>
    cv_status wait_until(unique_lock<Mtx>& lk, const chrono::time_point<C, D>&)
    {
        return wait_impl(lk, true) == 2 ? cv_status::timeout : cv_status::no_timeout;
    }
    template<class Mtx, class C, class D, class Pred>
    bool wait_until(unique_lock<Mtx>& lk, const chrono::time_point<C, D>&, Pred p)
    {
        while (!p()) {
            if (wait_impl(lk, true) == 2) return p();
        }
        return true;
    }
};
using vcondition_variable_any = vcondition_variable;

namespace this_thread {
    inline void vyield() noexcept
    {
        if (!vrt::scheduled()) return;
        vrt::PendOp op;
        op.kind = "yield";
        op.yielding = true;
        vrt::sched_point(op);
        vrt::log_ev("yield", "");
        if (vrt::g_rt->stallT >= 0 && vrt::t_cur) vrt::t_cur->stallYields++;
        if (vrt::g_rt->soloT == vrt::cur_id()) {
            // the thread running alone waits for somebody else: the solo phase ends here (reported, judged by the monitors)
            vrt::log_ev("soloyield", "");
            vrt::g_rt->soloT = -1;
            vrt::g_rt->soloDone = true;
        }
    }
    template<class R, class P>
    inline void vsleep_for(const chrono::duration<R, P>&)
    {
        if (!vrt::scheduled()) return;
        vrt::PendOp op;
        op.kind = "sleep";
        op.yielding = true;
        vrt::sched_point(op);
        vrt::log_ev("sleep", "");
        if (vrt::g_rt->stallT >= 0 && vrt::t_cur) vrt::t_cur->stallYields++;
    }
}  // namespace this_thread
}  // namespace std

// ====================================================================================================
// execution driver
namespace vrt {

struct Exec {
    RT rt;
    std::vector<std::function<void()>> bodies;

    long param(const std::string& k, long dflt = 0) const
    {
        auto it = rt.cfg.params.find(k);
        return it == rt.cfg.params.end() ? dflt : it->second;
    }

    // construct an object inside a named region so that its primitives get stable logical names
    template<class T, class... A>
    T* make(const std::string& cls, A&&... a)
    {
        void* mem = ::operator new(sizeof(T) + 64);
        memset(mem, 0, sizeof(T) + 64);
        add_region(mem, sizeof(T), cls);
        return new (mem) T(std::forward<A>(a)...);
    }

    // register a worker thread body (ids 1..n in registration order)
    void worker(std::function<void()> body) { bodies.push_back(std::move(body)); }

    // run all registered workers under the scheduler; returns when all have finished
    void run()
    {
        RT& R = rt;
        size_t base = R.thr.size();
        for (size_t k = 0; k < bodies.size(); ++k) {
            auto t = std::make_unique<Thr>();
            t->id = (int)(base + k);
            sem_init(&t->sem, 0, 0);
            t->prio = (int)(R.rng() % 1000) + 1000;
            R.thr.push_back(std::move(t));
        }
        for (size_t k = 0; k < bodies.size(); ++k) {
            Thr* t = R.thr[base + k].get();
            // spawn: a step of the driver
            step_ev("spawn", "", 0, t->id);
            t->state = 1;
            static PendOp startOp;  // shared "start" op: always enabled
            startOp.kind = "start";
            t->pend = &startOp;
            auto body = bodies[k];
            t->th = std::thread([t, body] {
                t_cur = t;
                while (sem_wait(&t->sem) != 0) {}
                on_resume(t, false);
                log_ev("start", "");
                try {
                    body();
                }
                catch (const std::exception& e) {
                    log_ev("escaped", "", 0, 0, 0, 0, -1, intern(e.what()));
                }
                catch (...) {
                    log_ev("escaped", "", 0, 0, 0, 0, -1, "unknown");
                }
                // end: a step
                simple_point("end");
                log_ev("end", "");
                t->state = 2;
                // hand the baton on; never returns to this thread
                PendOp dead;
                dead.kind = "dead";
                t->pend = nullptr;
                Cand c = pick_next();
                c.t->chosenAlt = c.a;
                sem_post(&c.t->sem);
                for (;;) pause();
            });
            t->th.detach();
        }
        bodies.clear();
        // join: enabled when every worker has finished
        block_until("join", "workers", [&R, base] {
            for (size_t k = base; k < R.thr.size(); ++k)
                if (R.thr[k]->state != 2) return false;
            return true;
        });
        log_ev("join", "");
    }
};

inline std::vector<std::vector<std::vector<int>>> parse_prog(const std::string& s);
inline std::vector<SchedEntry> parse_sched(const std::string& s)
{
    // "t:a t:a ..." or "t t t"
    std::vector<SchedEntry> out;
    std::istringstream is(s);
    std::string tok;
    while (is >> tok) {
        SchedEntry e{0, 0};
        auto c = tok.find(':');
        e.t = atoi(tok.substr(0, c).c_str());
        if (c != std::string::npos) e.a = atoi(tok.substr(c + 1).c_str());
        out.push_back(e);
    }
    return out;
}

// Main loop of a harness binary.
//   h_x out=FILE [n=N] [seed=S] [pol=random|pct|np] [sched=FILE] [budget=B] [spurious=0|1] [timeouts=0|1]
//       [prog=NAME] [key=value ...]   (unknown integer keys become params visible to the body)
// sched=FILE: one schedule per line, "prog=<name> k=v ... | t:a t:a ..." (replayed exactly, then non-preemptive).
inline int main_loop(int argc, char** argv, std::function<void(Exec&)> body)
{
    Config base;
    std::string out = "/dev/stdout", schedFile;
    long n = 1;
    double wallLimit = 10.0;
    int pbound = -1;  // >= 0: exhaustive enumeration of all schedules with at most this many preemptions (stateless DFS)
    for (int i = 1; i < argc; ++i) {
        std::string a = argv[i];
        auto eq = a.find('=');
        if (eq == std::string::npos) continue;
        std::string k = a.substr(0, eq), v = a.substr(eq + 1);
        if (k == "out") out = v;
        else if (k == "n") n = atol(v.c_str());
        else if (k == "seed") base.seed = strtoull(v.c_str(), nullptr, 10);
        else if (k == "pol") base.pol = v == "pct" ? Pol::Pct : v == "np" ? Pol::Np : v == "solo" ? Pol::Solo : v == "rr" ? Pol::Rr : v == "stall" ? Pol::Stall : Pol::Random;
        else if (k == "sched") schedFile = v;
        else if (k == "budget") base.budget = atol(v.c_str());
        else if (k == "spurious") base.spurious = atoi(v.c_str()) != 0;
        else if (k == "timeouts") base.timeouts = atoi(v.c_str()) != 0;
        else if (k == "casspurious") base.casSpurious = atoi(v.c_str()) != 0;
        else if (k == "pctdepth") base.pctDepth = atoi(v.c_str());
        else if (k == "pctlen") base.pctLen = atol(v.c_str());
        else if (k == "logenabled") base.logEnabled = atoi(v.c_str()) != 0;
        else if (k == "nptail") base.npTail = atoi(v.c_str()) != 0;
        else if (k == "wall") wallLimit = atof(v.c_str());
        else if (k == "pb") pbound = atoi(v.c_str());
        else if (k == "prog") base.prog = v;
        else base.params[k] = atol(v.c_str());
    }
    g_shcap = 8u << 20;
    void* mem = mmap(nullptr, g_shcap + sizeof(Shared), PROT_READ | PROT_WRITE, MAP_SHARED | MAP_ANONYMOUS, -1, 0);
    if (mem == MAP_FAILED) {
        perror("mmap");
        return 2;
    }
    g_sh = (Shared*)mem;
    FILE* fo = fopen(out.c_str(), "w");
    if (!fo) {
        perror("open out");
        return 2;
    }
    std::vector<std::string> schedLines;
    if (!schedFile.empty()) {
        std::ifstream f(schedFile);
        std::string line;
        while (std::getline(f, line))
            if (!line.empty()) schedLines.push_back(line);
        n = (long)schedLines.size();
    }
    long counts[8] = {0, 0, 0, 0, 0, 0, 0, 0};
    // ---- bounded-preemption DFS state
    struct Opt {
        int t, a;
        bool weak;
    };
    struct Frame {
        std::vector<Opt> opts;
        int chosen;           // index into opts
        std::set<int> tried;  // indices already explored
        int lastT;            // thread that ran the previous step
        int preBefore;        // preemptions used before this step
    };
    std::vector<Frame> stack;
    std::vector<SchedEntry> dfsPrefix;
    bool dfsDone = false;
    if (pbound >= 0) base.logEnabled = true;
    for (long it = 0; it < n && !dfsDone; ++it) {
        Config cfg = base;
        cfg.seed = base.seed * 1000003ULL + (uint64_t)it;
        if (pbound >= 0) {
            cfg.pol = Pol::Replay;
            cfg.replay = dfsPrefix;
            cfg.npTail = true;
        }
        if (!schedLines.empty()) {
            std::string line = schedLines[(size_t)it];
            auto bar = line.find('|');
            std::string head = bar == std::string::npos ? "" : line.substr(0, bar);
            std::string tail = bar == std::string::npos ? line : line.substr(bar + 1);
            std::istringstream hs(head);
            std::string tok;
            while (hs >> tok) {
                auto eq = tok.find('=');
                if (eq == std::string::npos) continue;
                std::string k = tok.substr(0, eq), v = tok.substr(eq + 1);
                if (k == "prog") cfg.prog = v;
                else if (k == "spurious") cfg.spurious = atoi(v.c_str()) != 0;
                else if (k == "timeouts") cfg.timeouts = atoi(v.c_str()) != 0;
                else if (k == "pol") cfg.npTail = (v != "random");
                else cfg.params[k] = atol(v.c_str());
            }
            cfg.pol = Pol::Replay;
            cfg.replay = parse_sched(tail);
        }
        g_sh->len.store(0);
        g_sh->status.store(0);
        g_sh->steps.store(0);
        fflush(fo);
        pid_t pid = fork();
        if (pid == 0) {
            // ---- child: one execution
            std::set_terminate([] {
                const char* msg = "{\"t\":0,\"k\":\"terminate\",\"o\":\"\",\"i\":0,\"v\":0,\"w\":0,\"u\":0,\"m\":-1,\"x\":\"\",\"s\":0,\"a\":0}";
                emit_raw(msg, strlen(msg));
                finish(5);
            });
            Exec x;
            x.rt.cfg = cfg;
            x.rt.rng.seed(cfg.seed);
            g_rt = &x.rt;
            if (cfg.pol == Pol::Solo) x.rt.soloAt = (long)(x.rt.rng() % (uint64_t)cfg.pctLen) + 3;
            if (cfg.pol == Pol::Pct)
                for (int d = 0; d + 1 < cfg.pctDepth; ++d) x.rt.pctChange.push_back((long)(x.rt.rng() % (uint64_t)cfg.pctLen));
            auto t0 = std::make_unique<Thr>();
            t0->id = 0;
            sem_init(&t0->sem, 0, 0);
            t0->state = 1;
            t0->prio = 0;
            t_cur = t0.get();
            x.rt.thr.push_back(std::move(t0));
            {
                // reset line carries the configuration of this execution
                std::string ps = "{\"t\":0,\"k\":\"reset\",\"o\":\"" + cfg.prog + "\",\"i\":0,\"v\":" + std::to_string((long)it) +
                    ",\"w\":0,\"u\":0,\"m\":-1,\"x\":\"\",\"s\":0,\"a\":0,\"seed\":" + std::to_string((long)(cfg.seed % 2000000000ULL)) + ",\"p\":{";
                bool first = true;
                for (auto& kv : cfg.params) {
                    if (!first) ps += ",";
                    first = false;
                    ps += "\"" + kv.first + "\":" + std::to_string(kv.second);
                }
                ps += "},\"prog\":[";
                {
                    auto pg = parse_prog(cfg.prog);
                    for (size_t a = 0; a < pg.size(); ++a) {
                        ps += a ? ",[" : "[";
                        for (size_t b = 0; b < pg[a].size(); ++b) {
                            ps += b ? ",[" : "[";
                            for (size_t c = 0; c < pg[a][b].size(); ++c) ps += (c ? "," : "") + std::to_string(pg[a][b][c]);
                            ps += "]";
                        }
                        ps += "]";
                    }
                }
                ps += "]}";
                emit_raw(ps.c_str(), ps.size());
            }
            x.rt.active = true;
            try {
                body(x);
            }
            catch (const std::exception& e) {
                log_ev("escaped", "", 0, 0, 0, 0, -1, intern(e.what()));
            }
            log_ev("done", "");
            finish(1);
        }
        // ---- parent
        int st = 0;
        double waited = 0;
        bool hung = false;
        for (;;) {
            pid_t r = waitpid(pid, &st, WNOHANG);
            if (r == pid) break;
            usleep(200);
            waited += 0.0002;
            if (waited > wallLimit) {
                kill(pid, SIGKILL);
                waitpid(pid, &st, 0);
                hung = true;
                break;
            }
        }
        size_t len = g_sh->len.load(std::memory_order_acquire);
        if (pbound < 0) fwrite(g_sh->buf, 1, len, fo);
        else {
            // write the trace without the bookkeeping lines, and rebuild the DFS stack from them
            std::vector<Frame> seen;
            const char* p = g_sh->buf;
            const char* end = p + len;
            while (p < end) {
                const char* nl = (const char*)memchr(p, '\n', (size_t)(end - p));
                if (!nl) nl = end;
                std::string line(p, nl);
                p = nl + 1;
                if (line.find("\"k\":\"enabled\"") == std::string::npos) {
                    fwrite(line.data(), 1, line.size(), fo);
                    fputc('\n', fo);
                    continue;
                }
                Frame f;
                auto num = [&](const char* key) {
                    auto q = line.find(key);
                    return q == std::string::npos ? 0 : atoi(line.c_str() + q + strlen(key));
                };
                int ct = num("\"t\":"), ca = num("\"v\":");
                f.lastT = num("\"w\":");
                auto xs = line.find("\"x\":\"");
                std::string xsv = line.substr(xs + 5, line.find('"', xs + 5) - xs - 5);
                std::istringstream is(xsv);
                std::string tok;
                f.chosen = -1;
                while (is >> tok) {
                    Opt o;
                    o.weak = tok.back() == 'w';
                    if (o.weak) tok.pop_back();
                    auto c = tok.find(':');
                    o.t = atoi(tok.substr(0, c).c_str());
                    o.a = atoi(tok.substr(c + 1).c_str());
                    if (o.t == ct && o.a == ca) f.chosen = (int)f.opts.size();
                    f.opts.push_back(o);
                }
                seen.push_back(f);
            }
            // frames of the replayed prefix keep their `tried` sets; deeper ones are new
            for (size_t d = 0; d < seen.size(); ++d) {
                if (d < stack.size()) continue;
                Frame f = seen[d];
                if (f.chosen >= 0) f.tried.insert(f.chosen);
                stack.push_back(f);
            }
            // preemption counts along the current path
            int pre = 0;
            for (auto& f : stack) {
                f.preBefore = pre;
                if (f.chosen >= 0) {
                    bool lastEnabled = false;
                    for (auto& o : f.opts)
                        if (o.t == f.lastT && !o.weak) lastEnabled = true;
                    if (lastEnabled && f.opts[(size_t)f.chosen].t != f.lastT && f.lastT != 0) pre++;
                }
            }
            // backtrack: deepest frame with an unexplored option within the bound
            dfsDone = true;
            while (!stack.empty()) {
                Frame& f = stack.back();
                bool lastEnabled = false;
                for (auto& o : f.opts)
                    if (o.t == f.lastT && !o.weak) lastEnabled = true;
                int pick = -1;
                for (size_t k = 0; k < f.opts.size(); ++k) {
                    if (f.tried.count((int)k) || f.opts[k].weak) continue;
                    int cost = (lastEnabled && f.opts[k].t != f.lastT && f.lastT != 0) ? 1 : 0;
                    if (f.preBefore + cost <= pbound) {
                        pick = (int)k;
                        break;
                    }
                }
                if (pick >= 0) {
                    f.tried.insert(pick);
                    f.chosen = pick;
                    dfsPrefix.clear();
                    for (auto& g : stack) dfsPrefix.push_back(SchedEntry{g.opts[(size_t)g.chosen].t, g.opts[(size_t)g.chosen].a});
                    dfsDone = false;
                    break;
                }
                stack.pop_back();
            }
        }
        int status = g_sh->status.load();
        if (hung) {
            fprintf(fo, "{\"t\":0,\"k\":\"hang\",\"o\":\"\",\"i\":0,\"v\":0,\"w\":0,\"u\":0,\"m\":-1,\"x\":\"\",\"s\":0,\"a\":0}\n");
            counts[6]++;
        } else if (WIFSIGNALED(st)) {
            fprintf(fo, "{\"t\":0,\"k\":\"crash\",\"o\":\"\",\"i\":0,\"v\":%d,\"w\":0,\"u\":0,\"m\":-1,\"x\":\"\",\"s\":0,\"a\":0}\n", WTERMSIG(st));
            counts[7]++;
        } else if (status == 0) {
            // exited without going through finish(): e.g. a sanitizer abort via exit()
            fprintf(fo, "{\"t\":0,\"k\":\"crash\",\"o\":\"\",\"i\":0,\"v\":%d,\"w\":0,\"u\":0,\"m\":-1,\"x\":\"exit\",\"s\":0,\"a\":0}\n",
                    1000 + WEXITSTATUS(st));
            counts[7]++;
        } else {
            counts[status]++;
        }
    }
    fclose(fo);
    fprintf(stderr, "executions=%ld done=%ld deadlock=%ld budget=%ld diverged=%ld terminate=%ld hang=%ld crash=%ld\n", n, counts[1],
            counts[2], counts[3], counts[4], counts[5], counts[6], counts[7]);
    return 0;
}

// ------------------------------------------------------------------------------------------------
// helpers for harness programs

// API call bracket: `call` and `ret` are steps too.
struct Call {
    const char* op;
    Call(const char* o, long arg = 0, int inst = 0): op(o) { step_ev("call", o, inst, arg); }
    void ret(long res = 0, long w = 0) { step_ev("ret", op, 0, res, w); }
};

// A worker program: a list of menus; each menu is a list of op codes among which the scheduler
// chooses (model-directed program choice). Encoded in params as prog strings by the harness itself.
inline std::vector<std::vector<int>> parse_menus(const std::string& s)
{
    // "0,1,2;0,1" -> two positions
    std::vector<std::vector<int>> out;
    std::string cur;
    std::vector<int> menu;
    auto flushNum = [&] {
        if (!cur.empty()) {
            menu.push_back(atoi(cur.c_str()));
            cur.clear();
        }
    };
    for (char ch : s) {
        if (ch == ',') flushNum();
        else if (ch == ';') {
            flushNum();
            out.push_back(menu);
            menu.clear();
        } else cur.push_back(ch);
    }
    flushNum();
    if (!menu.empty()) out.push_back(menu);
    return out;
}

// program string: "<thread1 menus>/<thread2 menus>/..." e.g. "0;1/2/0,1,2"
inline std::vector<std::vector<std::vector<int>>> parse_prog(const std::string& s)
{
    std::vector<std::vector<std::vector<int>>> out;
    std::string cur;
    for (char ch : s) {
        if (ch == '/') {
            out.push_back(parse_menus(cur));
            cur.clear();
        } else cur.push_back(ch);
    }
    out.push_back(parse_menus(cur));
    return out;
}

// choose the next op from a menu: a step "pick" without event (the following `call` event names it);
// to keep one step = one event, the choice is folded into the call step.
struct OpCall {
    int op;
    const char* name;
};
inline int pick_and_call(const std::vector<int>& menu, const std::vector<const char*>& names, long arg = 0)
{
    int a = 0;
    if (scheduled()) {
        PendOp op;
        op.kind = "call";
        if (menu.size() > 31) {
            fprintf(stderr, "menu too large (max 31 alternatives)\n");
            _exit(3);
        }
        op.nalt = (unsigned)menu.size();
        unsigned mask = (1u << menu.size()) - 1;
        op.enabledMask = [mask] { return mask; };
        a = sched_point(op);
    }
    int code = menu[(size_t)a];
    log_ev("call", names[(size_t)code], 0, arg);
    return code;
}
inline void ret_ev(const char* name, long res = 0, long w = 0)
{
    step_ev("ret", name, 0, res, w);
    if (g_rt && g_rt->soloT == cur_id()) {  // the solo phase ends when the solo thread's operation returns
        g_rt->soloT = -1;
        g_rt->soloDone = true;
    }
}

}  // namespace vrt

// lock wrappers: the renaming below turns the member name `mutex()` of std::unique_lock / std::shared_lock into `vmutex()` in
// every translation unit that uses it, so the lock types are renamed as well, to derived classes that offer that spelling
namespace std {
template<class M>
class vunique_lock: public unique_lock<M> {
  public:
    using unique_lock<M>::unique_lock;
    vunique_lock() noexcept = default;
    vunique_lock(vunique_lock&&) noexcept = default;
    vunique_lock& operator=(vunique_lock&&) noexcept = default;
    M* vmutex() const noexcept { return unique_lock<M>::mutex(); }
};
template<class M>
class vshared_lock: public shared_lock<M> {
  public:
    using shared_lock<M>::shared_lock;
    vshared_lock() noexcept = default;
    vshared_lock(vshared_lock&&) noexcept = default;
    vshared_lock& operator=(vshared_lock&&) noexcept = default;
    M* vmutex() const noexcept { return shared_lock<M>::mutex(); }
};
template<class M>
void swap(vunique_lock<M>& a, vunique_lock<M>& b) noexcept
{
    a.swap(b);
}
template<class M>
void swap(vshared_lock<M>& a, vshared_lock<M>& b) noexcept
{
    a.swap(b);
}
}  // namespace std

// ====================================================================================================
// the renaming. Everything after this point (the library headers) sees the instrumented primitives.
#define unique_lock vunique_lock
#define shared_lock vshared_lock
#define atomic vatomic
#define atomic_bool vatomic_bool
#define atomic_int vatomic_int
#define mutex vmutex
#define timed_mutex vtimed_mutex
#define shared_mutex vshared_mutex
#define shared_timed_mutex vshared_timed_mutex
#define recursive_mutex vrecursive_mutex
#define recursive_timed_mutex vrecursive_timed_mutex
#define atomic_thread_fence vatomic_thread_fence
#define condition_variable vcondition_variable
#define condition_variable_any vcondition_variable_any
#define yield vyield
#define sleep_for vsleep_for
